#!/venv/bin/python
"""Mutation / refactoring regression for the stdlib tie of the scheduler kernel
(translator/asynciokernel2lean.py, lean/Asynkit/Lemmas/GenEqKernelStd.lean).

Each change is made to a scratch copy of the running interpreter's asyncio/futures.py resp. asyncio/tasks.py
(never the installed files; the copies are handed to the translator through ASYNKIT_STDLIB_FUTURES /
ASYNKIT_STDLIB_TASKS), Gen/ is regenerated, `lake build Asynkit.Lemmas.GenEqKernelStd` decides.
Semantic changes must be refused loudly or break a proof; behaviour-preserving rewrites must still prove.
usage: translator/mutations_asynciokernel/run.py [name-prefix ...]     exit 0 iff all as expected"""
import importlib.util, os, re, shutil, subprocess, sys, tempfile
from pathlib import Path
ROOT = Path(__file__).resolve().parent.parent.parent
FUT = Path(importlib.util.find_spec("asyncio.futures").origin)
TSK = Path(importlib.util.find_spec("asyncio.tasks").origin)


def sh(cmd, cwd=None, env=None):
    return subprocess.run(cmd, shell=True, stdout=subprocess.PIPE, stderr=subprocess.STDOUT, text=True, cwd=cwd, env=env)


def verdict(env):
    t = sh(f"/venv/bin/python {ROOT}/translator/py2lean.py /repo/src {ROOT}/lean/Asynkit/Gen", env=env)
    loud = [l for l in t.stdout.split("\n") if "CANNOT TRANSLATE" in l and "asyncio.futures" in l]
    b = sh("lake build Asynkit.Lemmas.GenEqKernelStd", cwd=ROOT / "lean")
    if b.returncode == 0 and not loud:
        return "proves", ""
    if loud:
        return "refused", loud[0].split("]: ", 1)[-1][:120]
    thms = sorted(set(re.findall(r"error: Asynkit/Lemmas/GenEqKernelStd\.lean:(\d+)", b.stdout)), key=int)
    names = []
    src = (ROOT / "lean/Asynkit/Lemmas/GenEqKernelStd.lean").read_text().split("\n")
    for n in thms[:4]:
        i = int(n) - 1
        while i >= 0 and not src[i].startswith("theorem "):
            i -= 1
        nm = src[i].split()[1] if i >= 0 else "?"
        if nm not in names:
            names.append(nm)
    return "proof breaks", ", ".join(names)


F, T = "f", "t"
M = [
    # ---- semantic: futures.py
    ("F1 cancel() does not schedule the callbacks", F, "        self._cancel_message = msg\n        self.__schedule_callbacks()\n", "        self._cancel_message = msg\n", "breaks"),
    ("F2 cancel() returns True on a done future", F, "        if self._state != _PENDING:\n            return False\n        self._state = _CANCELLED", "        if self._state != _PENDING:\n            return True\n        self._state = _CANCELLED", "breaks"),
    ("F3 __schedule_callbacks keeps the callback list", F, "        self._callbacks[:] = []\n", "", "breaks"),
    ("F4 __schedule_callbacks schedules in reverse order", F, "        for callback, ctx in callbacks:", "        for callback, ctx in reversed(callbacks):", "breaks"),
    ("F5 set_result on a done future silently ignored", F, "        if self._state != _PENDING:\n            raise exceptions.InvalidStateError(f'{self._state}: {self!r}')\n        self._result = result", "        if self._state != _PENDING:\n            return\n        self._result = result", "breaks"),
    ("F6 set_exception marks the future cancelled", F, "        self._exception_tb = exception.__traceback__\n        self._state = _FINISHED", "        self._exception_tb = exception.__traceback__\n        self._state = _CANCELLED", "breaks"),
    ("F7 add_done_callback on a done future appends instead of scheduling", F, "        if self._state != _PENDING:\n            self._loop.call_soon(fn, self, context=context)\n        else:", "        if False:\n            self._loop.call_soon(fn, self, context=context)\n        else:", "breaks"),
    ("F8 remove_done_callback removes only when exactly one matches", F, "        if removed_count:\n", "        if removed_count == 1:\n", "breaks"),
    ("F9 result() returns instead of raising the stored exception", F, "        if self._exception is not None:\n            raise self._exception.with_traceback(self._exception_tb)\n        return self._result", "        return self._result", "breaks"),
    ("F10 __await__ yields without the blocking flag", F, "            self._asyncio_future_blocking = True\n", "", "breaks"),
    ("F11 __await__ yields a done future as well", F, "    def __await__(self):\n        if not self.done():", "    def __await__(self):\n        if True:", "breaks"),
    # ---- semantic: tasks.py
    ("T1 Task.cancel() on a done task sets _must_cancel", T, "        if self.done():\n            return False\n        self._num_cancels_requested += 1", "        self._num_cancels_requested += 1", "breaks"),
    ("T2 Task.cancel() sets _must_cancel even when the future accepted the cancel", T, "            if self._fut_waiter.cancel(msg=msg):\n                # Leave", "            if self._fut_waiter.cancel(msg=msg) and False:\n                # Leave", "breaks"),
    ("T3 __step does not clear _fut_waiter", T, "            self._must_cancel = False\n        self._fut_waiter = None\n", "            self._must_cancel = False\n", "breaks"),
    ("T4 __step leaves _must_cancel set", T, "                exc = self._make_cancelled_error()\n            self._must_cancel = False\n", "                exc = self._make_cancelled_error()\n", "breaks"),
    ("T5 __step replaces a CancelledError-derived exc too", T, "            if not isinstance(exc, exceptions.CancelledError):\n                exc = self._make_cancelled_error()", "            if True:\n                exc = self._make_cancelled_error()", "breaks"),
    ("T6 bare yield is not rescheduled", T, "                # Bare yield relinquishes control for one event loop iteration.\n                self._loop.call_soon(self.__step, context=self._context)", "                # Bare yield relinquishes control for one event loop iteration.\n                pass", "breaks"),
    ("T7 yielded future: _fut_waiter not set", T, "                        self._fut_waiter = result\n", "", "breaks"),
    ("T8 yielded future: no _must_cancel re-check", T, "                        if self._must_cancel:\n                            if self._fut_waiter.cancel(\n                                    msg=self._cancel_message):\n                                self._must_cancel = False\n", "", "breaks"),
    ("T9 yielded future: wake-up registered twice", T, "                        result.add_done_callback(\n                            self.__wakeup, context=self._context)\n", "                        result.add_done_callback(\n                            self.__wakeup, context=self._context)\n                        result.add_done_callback(\n                            self.__wakeup, context=self._context)\n", "breaks"),
    ("T10 a CancelledError of the coroutine does not finish the task", T, "            self._cancelled_exc = exc\n            super().cancel()  # I.e., Future.cancel(self).", "            self._cancelled_exc = exc", "breaks"),
    ("T11 __step forgets _leave_task", T, "        finally:\n            _leave_task(self._loop, self)\n            self = None", "        finally:\n            self = None", "breaks"),
    ("T12 __wakeup ignores the future's exception", T, "        except BaseException as exc:\n            # This may also be a cancellation.\n            self.__step(exc)", "        except BaseException as exc:\n            # This may also be a cancellation.\n            self.__step()", "breaks"),
    ("T13 Task.__init__ does not register the task", T, "            self._loop.call_soon(self.__step, context=self._context)\n            _register_task(self)", "            self._loop.call_soon(self.__step, context=self._context)", "breaks"),
    ("T14 Task.__init__ starts with _must_cancel set", T, "        self._must_cancel = False\n        self._fut_waiter = None\n        self._coro = coro", "        self._must_cancel = True\n        self._fut_waiter = None\n        self._coro = coro", "breaks"),
    ("T15 bad yield answered with a plain step (no RuntimeError)", T, "                new_exc = RuntimeError(f'Task got bad yield: {result!r}')\n                self._loop.call_soon(\n                    self.__step, new_exc, context=self._context)", "                new_exc = RuntimeError(f'Task got bad yield: {result!r}')\n                self._loop.call_soon(\n                    self.__step, context=self._context)", "breaks"),
    # ---- behaviour-preserving
    ("H1 cancel(): state test written as `==` with swapped branches", F, "        self.__log_traceback = False\n        if self._state != _PENDING:\n            return False\n        self._state = _CANCELLED\n        self._cancel_message = msg\n        self.__schedule_callbacks()\n        return True", "        self.__log_traceback = False\n        if self._state == _PENDING:\n            self._state = _CANCELLED\n            self._cancel_message = msg\n            self.__schedule_callbacks()\n            return True\n        return False", "proves"),
    ("H2 done() via `not (state == _PENDING)`", F, "        return self._state != _PENDING", "        return not (self._state == _PENDING)", "proves"),
    ("H3 set_result: message / attribute order changed", F, "        self._result = result\n        self._state = _FINISHED\n        self.__schedule_callbacks()\n\n    def set_exception", "        self._state = _FINISHED\n        self._result = result\n        self.__schedule_callbacks()\n\n    def set_exception", "proves"),
    ("H4 Task.cancel: _must_cancel set before the message is stored", T, "        self._must_cancel = True\n        self._cancel_message = msg\n        return True", "        self._cancel_message = msg\n        self._must_cancel = True\n        return True", "proves"),
    ("H5 __step: done() check after reading _must_cancel into a branch-free prefix (comment / blank lines only)", T, "        if self._must_cancel:\n            if not isinstance(exc, exceptions.CancelledError):", "        # a cancellation request is pending\n\n        if self._must_cancel:\n            if not isinstance(exc, exceptions.CancelledError):", "proves"),
    ("H6 __step_run: the three RuntimeError branches of a non-future yield merged order (generator test first)", T, "            elif result is None:\n                # Bare yield relinquishes control for one event loop iteration.\n                self._loop.call_soon(self.__step, context=self._context)\n            elif inspect.isgenerator(result):", "            elif result is None:\n                self._loop.call_soon(self.__step, context=self._context)\n            elif inspect.isgenerator(result):", "proves"),
]


def main():
    args = [a for a in sys.argv[1:] if not a.startswith("--")]
    bad = 0
    for name, which, old, new, expect in M:
        if args and not any(name.startswith(a) for a in args):
            continue
        tmp = tempfile.mkdtemp(prefix="stdmut_", dir="/tmp")
        try:
            src = FUT if which == F else TSK
            text = src.read_text()
            if old not in text:
                print(f"{name} | EDIT DOES NOT APPLY to {src}")
                bad += 1
                continue
            cp = Path(tmp) / src.name
            cp.write_text(text.replace(old, new, 1))
            env = dict(os.environ)
            env["ASYNKIT_STDLIB_FUTURES" if which == F else "ASYNKIT_STDLIB_TASKS"] = str(cp)
            v, detail = verdict(env)
            ok = (v == "proves") == (expect == "proves")
            bad += not ok
            print(f"{name} | expected {expect} | {v}{' (' + detail + ')' if detail else ''} | {'ok' if ok else 'UNEXPECTED'}", flush=True)
        finally:
            shutil.rmtree(tmp, ignore_errors=True)
    v, _ = verdict(dict(os.environ))
    print("restored from the interpreter's files:", v)
    return 1 if bad or v != "proves" else 0


if __name__ == "__main__":
    sys.exit(main())
