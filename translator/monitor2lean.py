"""monitor2lean — src/asynkit/monitor.py, regenerated into lean/Asynkit/Gen/Monitor.lean on every run
(called from py2lean.generate; properties C07 and C06).

What is translated
  Monitor            _asend (generator), oob (generator), aawait, athrow, aclose, start, try_await, __call__ (skipped:
                     constructs a BoundMonitor)
  BoundMonitor       __await__, aawait, athrow, aclose, start, try_await
  GeneratorObject    ayield
  GeneratorObjectIterator  __del__ (synchronous), _first_iter (in place), __anext__, asend, athrow, aclose, _athrow

How.  Every function is executed *symbolically*, statement by statement, by one generic executor in
continuation-passing style (`Exec`): assignments, `if/elif/else`, `while True`, `try/except/else/finally`,
`raise`, `return`, `pass`, calls of the few primitives of `Asynkit.MonRt` (coro.send/throw/close, the
first `callable(*args)`, hook calls), `yield` and `await`.  A generator / coroutine function becomes

    <f>Entry  : params → State → Seg <f>Susp State          from the call to the first suspension or exit
    <f>Resume : params → <f>Susp → Resume → State → Seg …    from a suspension point, resumed with a value
                                                            or an exception, to the next suspension or exit

where `<f>Susp` has one constructor per suspension point (its fields are the locals alive there; for an
`await` also the suspension of the awaited function).  `try/finally` and `except` clauses are honoured on
every path, in particular on the throw / GeneratorExit resumptions, because the continuations captured at a
suspension point carry the handler stack.  `await f(...)` follows PEP 380: a value or exception is passed
to the awaited function; GeneratorExit *closes* it (it must exit: a return or GeneratorExit re-raises
GeneratorExit in the caller, a new suspension is RuntimeError("coroutine ignored GeneratorExit")).
A loop is unfolded along each path until the path suspends or exits; a path that would go round a loop twice
without suspending is rejected.

Normal forms (round 5), so that behaviour-preserving rewrites produce the same Lean text or text the same proofs close:
  * constant string expressions - literals, `+`, f-strings, `%`, `str.format`, conditional expressions and locals bound
    to them - are evaluated to the set of strings they can denote; a RuntimeError message must denote one message atom;
  * `x = a if c else b` / `return a if c else b` is the if statement; `not`, `and`, `or` in a test are control flow
    (`if a and b` = nested ifs), a test whose value is a known literal on the path selects its branch;
  * `while <test>` as well as `while True`, `break`, `continue`; a flag that holds the same literal on every path into
    a suspension point is a property of the point, not a stored local (two different literals: rejected);
  * `send = coro.send` (throw, close): a local alias of a bound method of the driven coroutine is that primitive;
  * a private synchronous helper that is just `return <expression>` may be used inside a test;
  * a local that is a function of the parameters is an alias only if it is assigned exactly once in the function.

Roles of parameters come from their annotations (Coroutine → the driven coroutine, Callable+Tuple → the
first `callable(*args)`, the `(type, value, traceback)` triple of the throw protocol → one `PyThrow`), so a
renamed parameter still translates.  RuntimeError messages are mapped to the model's tags by key phrases.

Anything else raises `Unsupported` → the unit is poisoned (Gen/Monitor.lean does not compile).
lean/Asynkit/Lemmas/GenEqC07.lean and GenEqC06.lean prove the generated segments equal to
Model/Monitor.lean (`resolve`'s oob case, `asendStart`, `asendResume`, `callStart/callResume`,
`boundStart/boundResume`) and Model/AsyncGen.lean (`goiStart`, `goiResume`, `goiHookCall`, `goiHookGC`).

Trusted (stated once): `cast(T, x)` is `x`; `raise X from err` raises X; `types.coroutine`/`async def`
frames follow PEP 380/479 as encoded in `Exec.do_await`/`PyExc.leave`; CPython's normalisation of
`throw(type, value, traceback)` (`PyThrow`); `sys.get_asyncgen_hooks()` returns the installed pair.
"""
from __future__ import annotations

import ast
import re
from pathlib import Path


class Unsupported(KeyError):
    def __str__(self):
        return str(self.args[0]) if self.args else "unsupported"


# ------------------------------------------------------------------------------------------------------
# Lean text tree

def leaf(t):
    return ("leaf", t)


def let(pat, expr, body):
    return ("let", pat, expr, body)


def ite(c, a, b):
    return ("if", c, a, b)


def match(scrut, arms):
    return ("match", scrut, arms)


def render(n, ind):
    pad = "  " * ind
    k = n[0]
    if k == "leaf":
        return [pad + n[1]]
    if k == "let":
        return [pad + f"let {n[1]} := {n[2]}"] + render(n[3], ind)
    if k == "if":
        return [pad + f"if {n[1]} then"] + render(n[2], ind + 1) + [pad + "else"] + render(n[3], ind + 1)
    if k == "match":
        out = [pad + f"match {n[1]} with"]
        for pat, body in n[2]:
            out.append(pad + f"| {pat} =>")
            out += render(body, ind + 1)
        return out
    raise AssertionError(k)


# ------------------------------------------------------------------------------------------------------
# static tables (vocabulary, not behaviour)

RT_MESSAGES = [  # key phrase of a RuntimeError message -> tag of the model
    ("cannot be re-entered", "rtReenter"),
    ("not active", "rtNotActive"),
    ("coroutine raised OOBData", "rtRaisedOOB"),
    ("Monitor coroutine ignored GeneratorExit", "rtMonIgnoredGE"),
    ("did not await", "rtNoOob"),
    ("already running", "Proto.rtAlreadyRunning"),
    ("async generator ignored GeneratorExit", "rtAgIgnoredGE"),
    ("raised StopAsyncIteration", "rtAgRaisedSAI"),
]

LEAN_TYPES = {"val": "Val", "yv": "YV", "pyexc": "PyExc", "bool": "Bool", "throw": "PyThrow", "int": "Int"}

CLASSES = {
    # class -> lean prefix, extra params, state variables (name, type), fields
    "Monitor": dict(prefix="mon", params=[("c", "SBody"), ("m", "MonId")], state=[("cs", "CSt c.σ"), ("env", "Env")],
                    body="c"),
    "BoundMonitor": dict(prefix="bound", params=[("c", "SBody"), ("m", "MonId")],
                         state=[("cs", "CSt c.σ"), ("env", "Env")], body="c"),
    "GeneratorObject": dict(prefix="gobj", params=[("m", "MonId")], state=[("env", "Env")], body=None),
    "GeneratorObjectIterator": dict(
        prefix="goi", params=[("ub", "UB"), ("cfg", "HookCfg")],
        state=[("cs", "CSt ub.σ"), ("env", "Env"), ("running", "Bool"), ("hs", "HookSt"),
               ("evs", "List HookEv")], body="(ofM (asGoi ub))"),
}
OOB_STATE = [("env", "Env")]      # Monitor.oob touches only the monitor cell


def ann_text(a):
    return ast.unparse(a) if a is not None else ""


# ------------------------------------------------------------------------------------------------------

class Func:
    def __init__(self, cls, node, tr):
        self.cls, self.node, self.tr = cls, node, tr
        self.name = node.name
        info = CLASSES[cls]
        n = node.name
        if n.startswith("__") and n.endswith("__"):
            base = n.strip("_")
        elif n.startswith("_"):
            base = n.lstrip("_") + "P"
        else:
            base = n
        self.lean = info["prefix"] + base[0].upper() + base[1:]
        self.is_async = isinstance(node, ast.AsyncFunctionDef)
        self.has_yield = any(isinstance(x, (ast.Yield, ast.YieldFrom)) for x in ast.walk(node))
        self.returns_await = any(isinstance(x, ast.Call) and isinstance(x.func, ast.Attribute)
                                 and x.func.attr == "__await__" for x in ast.walk(node))
        self.suspends = self.is_async or self.has_yield or self.returns_await
        self.state = list(info["state"])
        if cls == "Monitor" and n == "oob":
            self.state = list(OOB_STATE)
        self.class_params = [p for p in info["params"]
                             if not (cls == "Monitor" and n == "oob" and p[0] == "c")]
        self.roles = self.param_roles()
        self.points = []          # suspension points: dict(id, locals, inner, ...)
        self.defs = []            # generated Lean text blocks
        self.done = False

    # -- roles of the parameters, from their annotations
    def param_roles(self):
        args = self.node.args.args
        if not args or args[0].arg != "self":
            raise Unsupported(f"{self.cls}.{self.name}: not a method")
        roles = []
        i = 1
        while i < len(args):
            a = args[i]
            t = ann_text(a.annotation)
            if "Coroutine" in t:
                roles.append(("coro", [a.arg]))
            elif "Callable" in t:
                if i + 1 >= len(args) or "Tuple" not in ann_text(args[i + 1].annotation):
                    raise Unsupported(f"{self.name}: a Callable parameter must be followed by its argument tuple")
                roles.append(("first", [a.arg, args[i + 1].arg]))
                i += 1
            elif "BaseException" in t:
                if i + 2 >= len(args) or "Traceback" not in ann_text(args[i + 2].annotation):
                    raise Unsupported(f"{self.name}: (type, value, traceback) expected")
                roles.append(("throw", [a.arg, args[i + 1].arg, args[i + 2].arg]))
                i += 2
            else:
                roles.append(("val", [a.arg]))
            i += 1
        return roles

    def lean_params(self):
        """[(lean name, lean type)] of the function's own parameters"""
        out = []
        for role, names in self.roles:
            if role == "val":
                out.append((names[0], "Val"))
            elif role == "first":
                out.append((names[0], "Resume"))
            elif role == "throw":
                out.append((names[0], "PyThrow"))
        return out

    def state_tuple(self):
        return "(" + ", ".join(n for n, _ in self.state) + ")"

    def state_type(self):
        return "(" + " × ".join(t for _, t in self.state) + ")"

    def susp_type(self):
        return self.lean[0].upper() + self.lean[1:] + "Susp"


class Translator:
    def __init__(self, tree):
        self.tree = tree
        self.funcs = {}
        self.order = []
        for node in tree.body:
            if isinstance(node, ast.ClassDef) and node.name in CLASSES:
                seen = {}
                for n in node.body:
                    if isinstance(n, (ast.FunctionDef, ast.AsyncFunctionDef)):
                        if any(isinstance(d, ast.Name) and d.id == "overload" for d in n.decorator_list):
                            continue
                        seen[n.name] = n
                for name, n in seen.items():
                    self.funcs[(node.name, name)] = n
        self.done = {}

    def get(self, cls, name):
        key = (cls, name)
        if key in self.done:
            f = self.done[key]
            if not f.done:
                raise Unsupported(f"recursive await of {cls}.{name}")
            return f
        if key not in self.funcs:
            raise Unsupported(f"{cls}.{name} not found")
        f = Func(cls, self.funcs[key], self)
        self.done[key] = f
        Exec(f).run()
        f.done = True
        self.order.append(f)
        return f


# ------------------------------------------------------------------------------------------------------

class K:
    """continuations of the symbolic executor (each returns a Lean tree)"""

    def __init__(self, next, ret, raise_, brk=None, cont=None, cur_exc=None):
        self.next, self.ret, self.raise_, self.brk, self.cont, self.cur_exc = next, ret, raise_, brk, cont, cur_exc

    def with_(self, **kw):
        k = K(self.next, self.ret, self.raise_, self.brk, self.cont, self.cur_exc)
        for a, b in kw.items():
            setattr(k, a, b)
        return k


class Exec:
    def __init__(self, f: Func):
        self.f = f
        self.tr = f.tr
        self.fresh = 0
        self.loop_rounds = {}
        self.point_of = {}        # id(ast node) -> point index
        self.jobs = []
        self.derived = {}         # locals that are pure functions of the parameters: aliases, never stored

    def gensym(self, base):
        self.fresh += 1
        return f"{base}_{self.fresh}"

    # -- bookkeeping of locals: python name -> (lean expr, type[, extra])
    def init_locals(self):
        loc = {}
        for role, names in self.f.roles:
            if role == "coro":
                loc[names[0]] = ("", "coro")
            elif role == "val":
                loc[names[0]] = (names[0], "val")
            elif role == "first":
                loc[names[0]] = (names[0], "firstf")
                loc[names[1]] = (names[0], "firsta")
            elif role == "throw":
                for i, n in enumerate(names):
                    loc[n] = (names[0], "throw", i)
        return loc

    # ---------------------------------------------------------------------------------------------
    def run(self):
        f = self.f
        body = list(f.node.body)
        if body and isinstance(body[0], ast.Expr) and isinstance(body[0].value, ast.Constant) \
                and isinstance(body[0].value.value, str):
            body = body[1:]
        params = f.class_params + f.lean_params()
        ptxt = " ".join(f"({n} : {t})" for n, t in params)
        st = f.state_tuple()
        if not f.suspends:
            # synchronous method: State -> State (must not raise or return a value that matters)
            def fin(loc):
                return leaf(st)
            k = K(next=fin, ret=lambda e, loc: leaf(st),
                  raise_=lambda e, loc: self.bad("a synchronous method may not raise here"))
            tree = self.block(body, 0, self.init_locals(), k)
            f.defs.append("\n".join(
                [f"/-- `{f.cls}.{f.name}` -/",
                 f"def {f.lean} {ptxt} (s : {f.state_type()}) : {f.state_type()} :="]
                + render(match("s", [(st, tree)]), 1)))
            return
        susp = f.susp_type()

        def k_ret(e, loc):
            return leaf(f".returned {self.as_val(e)} {st}")

        def k_raise(e, loc):
            return leaf(f".raised ({self.as_pyexc(e)}).leave {st}")

        k = K(next=lambda loc: leaf(f".returned 0 {st}"), ret=k_ret, raise_=k_raise)
        entry = self.block(body, 0, self.init_locals(), k)
        # resume segments of every suspension point discovered (jobs may discover more)
        arms = []
        i = 0
        while i < len(self.jobs):
            arms.append(self.jobs[i]())
            i += 1
        # the suspension type
        ctors = []
        for p in f.points:
            fields = " ".join(f"({n} : {t})" for n, t in p["fields"])
            ctors.append(f"  | p{p['id']} {fields}".rstrip())
        if not ctors:
            raise Unsupported(f"{f.cls}.{f.name}: coroutine without suspension point")
        f.defs.append(f"/-- suspension points of `{f.cls}.{f.name}` -/\ninductive {susp} where\n" + "\n".join(ctors))
        rty = f"Seg {susp} {f.state_type()}"
        f.defs.append("\n".join(
            [f"/-- `{f.cls}.{f.name}`: from the call to the first suspension or exit -/",
             f"def {f.lean}Entry {ptxt} (s : {f.state_type()}) : {rty} :="]
            + render(match("s", [(st, entry)]), 1)))
        f.defs.append("\n".join(
            [f"/-- `{f.cls}.{f.name}`: from a suspension point, resumed by send / throw, to the next suspension or exit -/",
             f"def {f.lean}Resume {ptxt} (l : {susp}) (r : Resume) (s : {f.state_type()}) : {rty} :="]
            + render(match("s", [(st, match("l", arms))]), 1)))
        # canonical names of the suspension points: by what is yielded / awaited there, not by textual order
        order = sorted(f.points, key=lambda p: (p["key"], p["seq"]))
        for i, p in enumerate(order):
            f.defs = [d.replace(f"p{p['id']}", f"p{i}") for d in f.defs]

    def bad(self, why):
        raise Unsupported(f"{self.f.cls}.{self.f.name}: {why}")

    # ---------------------------------------------------------------------------------------------
    # statements
    def block(self, stmts, i, loc, k):
        if i >= len(stmts):
            return k.next(loc)
        s = stmts[i]

        def rest(loc2):
            return self.block(stmts, i + 1, loc2, k)
        return self.stmt(s, loc, k.with_(next=rest))

    def stmt(self, s, loc, k):
        f = self.f
        if isinstance(s, ast.Pass):
            return k.next(loc)
        if isinstance(s, ast.Expr):
            v = s.value
            if isinstance(v, ast.Constant):
                return k.next(loc)
            return self.effect(v, loc, k, lambda e, loc2: k.next(loc2))
        if isinstance(s, (ast.Return, ast.Assign)) and isinstance(self.uncast(s.value), ast.IfExp) and \
                self.pure_or_none(self.uncast(s.value).body, loc, "str") is None:
            # `x = a if c else b` / `return a if c else b`  ==  the if statement with two assignments / returns
            ie = self.uncast(s.value)

            def arm(v):
                return ast.Return(value=v) if isinstance(s, ast.Return) else ast.Assign(targets=s.targets, value=v)
            return self.stmt(ast.If(test=ie.test, body=[arm(ie.body)], orelse=[arm(ie.orelse)]), loc, k)
        if isinstance(s, ast.Return):
            if s.value is None:
                return k.ret(("0", "val"), loc)
            return self.effect(s.value, loc, k, lambda e, loc2: k.ret(e, loc2))
        if isinstance(s, (ast.Assign, ast.AnnAssign)):
            tgt = s.targets[0] if isinstance(s, ast.Assign) else s.target
            if isinstance(s, ast.Assign) and len(s.targets) != 1:
                self.bad("multiple assignment targets")
            if s.value is None:
                return k.next(loc)
            if isinstance(tgt, ast.Name) and self.param_only(s.value, loc):
                e = self.pure(s.value, loc)
                if e[1] in ("bool", "val", "int"):
                    loc = dict(loc)
                    loc[tgt.id] = e
                    if self.assigned_once(tgt.id):
                        # a function of the parameters: re-derived after a suspension instead of being stored
                        self.derived[tgt.id] = e
                    return k.next(loc)
            return self.effect(s.value, loc, k, lambda e, loc2: self.assign(tgt, e, loc2, k))
        if isinstance(s, ast.If):
            return self.cond(s.test, loc,
                             lambda loc2: self.block(s.body, 0, loc2, k),
                             lambda loc2: self.block(s.orelse, 0, loc2, k))
        if isinstance(s, ast.While):
            if s.orelse:
                self.bad("while … else")
            key = id(s)
            always = isinstance(s.test, ast.Constant) and s.test.value is True

            def again(loc2):
                n = self.loop_rounds.get(key, 0)
                if n >= 2:
                    self.bad("a path goes round a loop twice without suspending")
                self.loop_rounds[key] = n + 1
                try:
                    if always:
                        return self.block(s.body, 0, loc2, kl)
                    return self.cond(s.test, loc2, lambda l3: self.block(s.body, 0, l3, kl), k.next)
                finally:
                    self.loop_rounds[key] = n
            kl = k.with_(next=lambda loc2: again(loc2), cont=lambda loc2: again(loc2), brk=k.next)
            return again(loc)
        if isinstance(s, ast.Break):
            if k.brk is None:
                self.bad("break outside loop")
            return k.brk(loc)
        if isinstance(s, ast.Continue):
            if k.cont is None:
                self.bad("continue outside loop")
            return k.cont(loc)
        if isinstance(s, ast.Raise):
            if s.exc is None:
                if k.cur_exc is None:
                    self.bad("bare raise outside an except clause")
                return k.raise_(k.cur_exc, loc)
            return k.raise_(self.exc_value(s.exc, loc), loc)
        if isinstance(s, ast.Try):
            return self.try_(s, loc, k)
        self.bad(f"statement {type(s).__name__}")

    @staticmethod
    def uncast(e):
        while isinstance(e, ast.Call) and isinstance(e.func, ast.Name) and e.func.id == "cast" and len(e.args) == 2:
            e = e.args[1]
        return e

    def pure_or_none(self, e, loc, ty):
        try:
            t = self.pure(e, loc)
        except Unsupported:
            return None
        return t if t[1] == ty else None

    def assigned_once(self, name):
        n = 0
        for node in ast.walk(self.f.node):
            if isinstance(node, ast.Name) and isinstance(node.ctx, ast.Store) and node.id == name:
                n += 1
            if isinstance(node, ast.ExceptHandler) and node.name == name:
                n += 1
        return n == 1

    def param_only(self, e, loc):
        """the expression reads nothing but parameters (and locals derived from them)"""
        params = set()
        for role, names in self.f.roles:
            params.update(names)
        for n in ast.walk(e):
            if isinstance(n, (ast.Call, ast.Yield, ast.Await, ast.Attribute)):
                if isinstance(n, ast.Call) and isinstance(n.func, ast.Name) and n.func.id == "cast":
                    continue
                return False
            if isinstance(n, ast.Name) and isinstance(n.ctx, ast.Load):
                if n.id not in params and n.id not in self.derived and n.id not in ("None", "True", "False", "cast"):
                    if not (n.id[0].isupper()):      # type names inside cast(...)
                        return False
        return True

    def assign(self, tgt, e, loc, k):
        if isinstance(tgt, ast.Name):
            loc = dict(loc)
            if e[1] in ("str", "finalizer", "hooks", "coro", "coromethod"):
                loc[tgt.id] = e
                return k.next(loc)
            loc[tgt.id] = (tgt.id, e[1])
            return let(tgt.id, e[0], k.next(loc))
        if isinstance(tgt, ast.Attribute) and isinstance(tgt.value, ast.Name) and tgt.value.id == "self":
            a = tgt.attr
            cls = self.f.cls
            if cls == "Monitor" and a == "state":
                return let("env", f"env.set m {self.as_int(e)}", k.next(loc))
            if cls == "GeneratorObjectIterator":
                if a == "ag_running":
                    return let("running", self.as_bool(e), k.next(loc))
                if a == "hooks_inited":
                    return let("hs", f"{{ hs with inited := {self.as_bool(e)} }}", k.next(loc))
                if a == "finalizer":
                    if e[1] != "finalizer":
                        self.bad("self.finalizer must be assigned a finalizer")
                    return let("hs", f"{{ hs with fin := {e[0]} }}", k.next(loc))
        self.bad(f"assignment target {ast.unparse(tgt)}")

    # ---------------------------------------------------------------------------------------------
    # try / except / else / finally
    def try_(self, s, loc, k):
        final = s.finalbody

        def after_final(cont):
            """run the finally block, then `cont`; an exception / return inside it goes to the outer k"""
            def go(loc2):
                if not final:
                    return cont(loc2)
                return self.block(final, 0, loc2, k.with_(next=cont))
            return go
        kf = k.with_(
            next=after_final(k.next),
            ret=lambda e, loc2: self.hold(e, loc2, lambda e2, loc3: after_final(lambda l4: k.ret(e2, l4))(loc3)),
            raise_=lambda e, loc2: self.hold(e, loc2, lambda e2, loc3: after_final(lambda l4: k.raise_(e2, l4))(loc3)),
            brk=(after_final(k.brk) if k.brk else None),
            cont=(after_final(k.cont) if k.cont else None))

        def on_raise(e, loc2):
            # dispatch over the except clauses, in order
            def clause(i, e, loc3):
                if i >= len(s.handlers):
                    return kf.raise_(e, loc3)
                h = s.handlers[i]
                tname = self.class_name(h.type)
                kh = kf.with_(cur_exc=e)
                px = self.as_pyexc(e)
                if tname == "BaseException":
                    loc4 = dict(loc3)
                    if h.name:
                        loc4[h.name] = (px, "pyexc")
                    return self.block(h.body, 0, loc4, kh)
                if tname in ("StopIteration", "OOBData"):
                    v = self.gensym("v")
                    loc4 = dict(loc3)
                    if h.name:
                        loc4[h.name] = (v, "excval", tname)
                    fn = "asStopIteration" if tname == "StopIteration" else "asOOBData"
                    return match(f"PyExc.{fn} ({px})",
                                 [(f"some {v}", self.block(h.body, 0, loc4, kh)), ("none", clause(i + 1, e, loc3))])
                if tname in ("GeneratorExit", "StopAsyncIteration"):
                    fn = "isGeneratorExit" if tname == "GeneratorExit" else "isStopAsyncIteration"
                    loc4 = dict(loc3)
                    if h.name:
                        loc4[h.name] = (px, "pyexc")
                    return ite(f"PyExc.{fn} ({px})", self.block(h.body, 0, loc4, kh), clause(i + 1, e, loc3))
                self.bad(f"except clause for {tname}")
            return self.hold(e, loc2, lambda e2, loc3: clause(0, e2, loc3))
        kb = kf.with_(next=lambda loc2: self.block(s.orelse, 0, loc2, kf) if s.orelse else kf.next(loc2),
                      raise_=on_raise if s.handlers else kf.raise_)
        return self.block(s.body, 0, loc, kb)

    def hold(self, e, loc, cont):
        """bind a compound exception/return expression to a name before duplicating it"""
        if e[1] in ("pyexc", "val") and (" " in e[0]):
            n = self.gensym("x")
            return let(n, e[0], cont((n, e[1]) + tuple(e[2:]), loc))
        return cont(e, loc)

    def class_name(self, t):
        if isinstance(t, ast.Name):
            return t.id
        self.bad(f"exception class {ast.unparse(t) if t else None}")

    # ---------------------------------------------------------------------------------------------
    # conditions (pure)
    def expand_helper(self, e):
        """`self._helper(args)` where the private synchronous helper is just `return <expression>`:
        the expression with the arguments substituted (None if `e` is not such a call)"""
        if not (isinstance(e, ast.Call) and isinstance(e.func, ast.Attribute) and self.is_self(e.func.value)):
            return None
        node = self.tr.funcs.get((self.f.cls, e.func.attr))
        if node is None:
            return None
        body = list(node.body)
        if body and isinstance(body[0], ast.Expr) and isinstance(body[0].value, ast.Constant):
            body = body[1:]
        if isinstance(node, ast.AsyncFunctionDef) or len(body) != 1 or not isinstance(body[0], ast.Return) \
                or body[0].value is None or any(isinstance(x, (ast.Yield, ast.YieldFrom, ast.Await)) for x in ast.walk(node)):
            return None
        names = [a.arg for a in node.args.args][1:]
        if e.keywords or node.args.defaults or node.args.kwonlyargs or node.args.vararg or len(names) != len(e.args):
            self.bad(f"helper {node.name}: only plain positional parameters")
        sub = dict(zip(names, e.args))

        class Sub(ast.NodeTransformer):
            def visit_Name(self, n):
                return sub.get(n.id, n) if isinstance(n.ctx, ast.Load) else n
        import copy
        return Sub().visit(copy.deepcopy(body[0].value))

    def cond(self, test, loc, then, els):
        """if test: then else: els — with the knowledge gained about request-typed values"""
        x = self.expand_helper(test)
        if x is not None:
            return self.cond(x, loc, then, els)
        if isinstance(test, ast.BoolOp) and isinstance(test.op, ast.And) and len(test.values) >= 2:
            first, restv = test.values[0], test.values[1:]
            rest_test = restv[0] if len(restv) == 1 else ast.BoolOp(op=ast.And(), values=restv)
            return self.cond(first, loc, lambda l2: self.cond(rest_test, l2, then, els), els)
        if isinstance(test, ast.BoolOp) and isinstance(test.op, ast.Or) and len(test.values) >= 2:
            first, restv = test.values[0], test.values[1:]
            rest_test = restv[0] if len(restv) == 1 else ast.BoolOp(op=ast.Or(), values=restv)
            return self.cond(first, loc, then, lambda l2: self.cond(rest_test, l2, then, els))
        if isinstance(test, ast.UnaryOp) and isinstance(test.op, ast.Not):
            return self.cond(test.operand, loc, els, then)
        c, loc_true = self.test(test, loc)
        if c == "true = true":          # a flag whose value is known on this path (`while running:`)
            return then(loc_true)
        if c == "false = true":
            return els(loc)
        return ite(c, then(loc_true), els(loc))

    def test(self, e, loc):
        """-> (Lean Bool/Prop text, locals in the true branch)"""
        if isinstance(e, ast.Call) and isinstance(e.func, ast.Name) and e.func.id == "isinstance" and len(e.args) == 2 \
                and isinstance(e.args[1], ast.Name) and e.args[1].id == "_OOBRequest" and isinstance(e.args[0], ast.Name):
            v = self.local(e.args[0].id, loc)
            if v[1] != "yv":
                self.bad("isinstance(…, _OOBRequest) of something that was not yielded by the coroutine")
            loc2 = dict(loc)
            loc2[e.args[0].id] = (v[0], "yv", "request")
            return f"YV.isRequest {v[0]} = true", loc2
        t = self.pure(e, loc)
        return f"{self.as_bool(t)} = true", loc

    def local(self, name, loc):
        if name not in loc:
            self.bad(f"name {name} is not bound here")
        return loc[name]

    def pure(self, e, loc):
        """pure expression -> (lean, type, ...)"""
        f = self.f
        if isinstance(e, ast.Constant):
            if e.value is None:
                return ("0", "val")
            if isinstance(e.value, bool):
                return ("true" if e.value else "false", "bool")
            if isinstance(e.value, int):
                return (f"({e.value})", "int")
            if isinstance(e.value, str):
                return ("", "str", [e.value])
            self.bad(f"constant {e.value!r}")
        if isinstance(e, ast.Name):
            if e.id == "GeneratorExit":
                return ("(PyThrow.args .genExit)", "throwclass")
            return self.local(e.id, loc)
        if isinstance(e, ast.UnaryOp) and isinstance(e.op, ast.Not):
            return (f"(!{self.as_bool(self.pure(e.operand, loc))})", "bool")
        if isinstance(e, ast.UnaryOp) and isinstance(e.op, ast.USub) and isinstance(e.operand, ast.Constant):
            return (f"(-{e.operand.value})", "int")
        if isinstance(e, ast.BoolOp):
            op = " && " if isinstance(e.op, ast.And) else " || "
            return ("(" + op.join(self.as_bool(self.pure(v, loc)) for v in e.values) + ")", "bool")
        if isinstance(e, ast.IfExp):
            a, b = self.pure(e.body, loc), self.pure(e.orelse, loc)
            if a[1] == "str" and b[1] == "str":
                return ("", "str", a[2] + b[2])
            if a[1] == b[1] and a[1] in ("val", "int", "bool"):
                c = self.as_bool(self.pure(e.test, loc))
                return (f"(if {c} = true then {a[0]} else {b[0]})", a[1])
            self.bad("conditional expression")
        if isinstance(e, ast.BinOp) and isinstance(e.op, ast.Add):
            a, b = self.pure(e.left, loc), self.pure(e.right, loc)
            if a[1] == "str" and b[1] == "str":
                return ("", "str", self.str_concat(a[2], b[2]))
            self.bad("addition")
        if isinstance(e, ast.JoinedStr):
            # f-string over string constants / conditional constants: the same message atom(s) as `+`
            alts = [""]
            for v in e.values:
                if isinstance(v, ast.Constant) and isinstance(v.value, str):
                    part = [v.value]
                elif isinstance(v, ast.FormattedValue) and v.format_spec is None and v.conversion in (-1, 115):
                    t = self.pure(v.value, loc)
                    if t[1] != "str":
                        self.bad("f-string field that is not a constant string")
                    part = t[2]
                else:
                    self.bad("f-string field")
                alts = self.str_concat(alts, part)
            return ("", "str", alts)
        if isinstance(e, ast.BinOp) and isinstance(e.op, ast.Mod):
            a = self.pure(e.left, loc)
            if a[1] == "str":
                args = e.right.elts if isinstance(e.right, ast.Tuple) else [e.right]
                return ("", "str", self.str_fill(a[2], [self.pure(x, loc) for x in args], "%s"))
            self.bad("modulo")
        if isinstance(e, ast.Compare) and len(e.ops) == 1:
            op, rhs = e.ops[0], e.comparators[0]
            if isinstance(rhs, ast.Constant) and rhs.value is None and isinstance(op, (ast.Is, ast.IsNot, ast.Eq, ast.NotEq)):
                a = self.pure(e.left, loc)
                pos = isinstance(op, (ast.Is, ast.Eq))
                if a[1] == "throw":
                    if a[2] != 0:
                        self.bad("only the `type` of the throw triple may be tested for None")
                    t = f"PyThrow.isNone {a[0]}"
                elif a[1] == "hookfn":
                    t = f"(!{a[0]})"
                elif a[1] == "frame":
                    t = f"coroFinished {a[0]}"
                else:
                    self.bad(f"`is None` of a {a[1]}")
                return (f"({t})" if pos else f"(!{t})", "bool")
            if isinstance(rhs, ast.Name) and rhs.id == "self" and isinstance(op, ast.Is):
                a = self.pure(e.left, loc)
                if a[1] == "reqmonitor":
                    return (f"(YV.monitorIs {a[0]} m)", "bool")
                self.bad("`is self`")
            a, b = self.pure(e.left, loc), self.pure(rhs, loc)
            sym = {ast.Eq: "==", ast.NotEq: "!=", ast.Lt: "<", ast.Gt: ">"}.get(type(op))
            if sym is None or a[1] != "int" or b[1] != "int":
                self.bad(f"comparison {ast.unparse(e)}")
            if sym in ("<", ">"):
                return (f"(decide ({a[0]} {sym} {b[0]}))", "bool")
            return (f"({a[0]} {sym} {b[0]})", "bool")
        if isinstance(e, ast.Attribute):
            if isinstance(e.value, ast.Name) and e.value.id == "self":
                return self.self_attr(e.attr)
            base = self.pure(e.value, loc)
            if base[1] == "excval" and e.attr == ("value" if base[2] == "StopIteration" else "data"):
                return (base[0], "val")
            if base[1] == "yv" and e.attr in ("monitor", "data"):
                if len(base) < 3 or base[2] != "request":
                    self.bad(f".{e.attr} of an object that is not known to be an _OOBRequest")
                return ((base[0], "reqmonitor") if e.attr == "monitor" else (f"(YV.data {base[0]})", "val"))
            if base[1] == "hooks" and e.attr in ("firstiter", "finalizer"):
                return (f"cfg.{e.attr}", "hookfn" if e.attr == "firstiter" else "finalizer")
            if base[1] == "coro" and e.attr == "cr_frame":
                return ("cs", "frame")
            if base[1] == "coro" and e.attr in ("send", "throw", "close"):
                return ("", "coromethod", e.attr)       # `send = coro.send`: a bound method of the driven coroutine
            self.bad(f"attribute {ast.unparse(e)}")
        if isinstance(e, ast.Call):
            fn = e.func
            if isinstance(fn, ast.Name) and fn.id == "cast" and len(e.args) == 2:
                return self.pure(e.args[1], loc)
            if isinstance(fn, ast.Attribute) and fn.attr == "format" and not e.keywords and \
                    not isinstance(fn.value, ast.Name):
                base = self.pure(fn.value, loc)
                if base[1] == "str":
                    return ("", "str", self.str_fill(base[2], [self.pure(x, loc) for x in e.args], "{}"))
            if isinstance(fn, ast.Name) and fn.id in ("coro_is_finished", "coro_is_new") and len(e.args) == 1:
                a = self.pure(e.args[0], loc)
                if a[1] != "coro":
                    self.bad(f"{fn.id} of something that is not the coroutine")
                return (f"({'coroFinished' if fn.id == 'coro_is_finished' else 'coroNew'} cs)", "bool")
            if isinstance(fn, ast.Name) and fn.id == "_OOBRequest" and len(e.args) == 2 \
                    and isinstance(e.args[0], ast.Name) and e.args[0].id == "self":
                return (f"(YV.req m {self.as_val(self.pure(e.args[1], loc))})", "yv")
            if isinstance(fn, ast.Attribute) and isinstance(fn.value, ast.Name) and fn.value.id == "sys" \
                    and fn.attr == "get_asyncgen_hooks" and not e.args:
                return ("cfg", "hooks")
        self.bad(f"expression {ast.unparse(e)[:80]}")

    @staticmethod
    def str_concat(xs, ys):
        """all concatenations of the alternatives (a conditional constant has several)"""
        out = [x + y for x in xs for y in ys]
        if len(out) > 16:
            raise Unsupported("string expression with too many alternatives")
        return out

    def str_fill(self, templates, args, hole):
        out = templates
        for a in args:
            if a[1] != "str":
                self.bad("string formatting with a non-constant argument")
            nxt = []
            for t in out:
                if hole not in t:
                    self.bad("string formatting: more arguments than fields")
                i = t.index(hole)
                nxt += [t[:i] + alt + t[i + len(hole):] for alt in a[2]]
            out = nxt
        if any(hole in t for t in out):
            self.bad("string formatting: fewer arguments than fields")
        return out

    def self_attr(self, a):
        cls = self.f.cls
        if cls == "Monitor" and a == "state":
            return ("(env m)", "int")
        if cls in ("BoundMonitor", "GeneratorObjectIterator", "GeneratorObject") and a == "monitor":
            return ("", "monitor")
        if cls in ("BoundMonitor", "GeneratorObjectIterator") and a == "coro":
            return ("", "coro")
        if cls == "GeneratorObjectIterator":
            if a == "ag_running":
                return ("running", "bool")
            if a == "hooks_inited":
                return ("hs.inited", "bool")
            if a == "finalizer":
                return ("hs.fin", "finalizer")
        self.bad(f"self.{a}")

    def as_bool(self, t):
        if t[1] == "bool":
            return t[0]
        if t[1] == "finalizer":       # truth value of a captured finalizer
            return t[0]
        self.bad(f"truth value of a {t[1]}")

    def as_int(self, t):
        if t[1] == "int":
            return t[0]
        self.bad(f"integer expected, got {t[1]}")

    def as_val(self, t):
        if t[1] == "val":
            return t[0]
        self.bad(f"value expected, got {t[1]}")

    def as_pyexc(self, t):
        if t[1] == "pyexc":
            return t[0]
        self.bad(f"exception expected, got {t[1]}")

    def exc_value(self, e, loc):
        """the operand of `raise`"""
        if isinstance(e, ast.Call) and isinstance(e.func, ast.Name):
            n = e.func.id
            if n == "RuntimeError" and len(e.args) == 1:
                msg = self.pure(e.args[0], loc)
                if msg[1] != "str":
                    self.bad("RuntimeError message must be built from string constants")
                tags = set()
                for text in msg[2]:
                    t = [tag for phrase, tag in RT_MESSAGES if phrase in text]
                    if len(t) != 1:
                        self.bad(f"RuntimeError message {text!r} does not identify one of the model's errors")
                    tags.add(t[0])
                if len(tags) != 1:
                    self.bad(f"RuntimeError message alternatives {msg[2]!r} name different errors")
                return (f"(PyExc.exc (.runtime {tags.pop()}))", "pyexc")
            if n == "OOBData" and len(e.args) == 1:
                return (f"(PyExc.exc (.oobData {self.as_val(self.pure(e.args[0], loc))}))", "pyexc")
            if n == "StopAsyncIteration" and not e.args:
                return ("(PyExc.exc .stopAsync)", "pyexc")
        if isinstance(e, ast.Name):
            v = self.local(e.id, loc)
            if v[1] == "pyexc":
                return v
        self.bad(f"raise {ast.unparse(e)[:60]}")

    # ---------------------------------------------------------------------------------------------
    # expressions with effects: calls of primitives, yield, await
    def effect(self, e, loc, k, cont):
        """evaluate e (which may call, yield or await), then cont((lean, type), locals)"""
        f = self.f
        st = f.state_tuple()
        if isinstance(e, ast.Yield):
            return self.do_yield(e, loc, k, cont)
        if isinstance(e, ast.Await):
            return self.do_await(e.value, loc, k, cont)
        if isinstance(e, ast.Call):
            fn = e.func
            if isinstance(fn, ast.Attribute) and fn.attr == "__await__" and not e.args:
                return self.do_await(fn.value, loc, k, cont)
            if isinstance(fn, ast.Name) and fn.id == "cast" and len(e.args) == 2:
                return self.effect(e.args[1], loc, k, cont)
            # callable(*args)
            if isinstance(fn, ast.Name) and fn.id in loc and loc[fn.id][1] == "firstf":
                if not (len(e.args) == 1 and isinstance(e.args[0], ast.Starred) and isinstance(e.args[0].value, ast.Name)
                        and loc.get(e.args[0].value.id, ("", ""))[1] == "firsta" and not e.keywords):
                    self.bad("the first call must be `callable(*args)`")
                return self.prim(f"coroResume {self.body()} {loc[fn.id][0]} (cs, env)", "yv", "y", loc, k, cont)
            if isinstance(fn, ast.Attribute):
                recv = None
                if isinstance(fn.value, ast.Attribute) or (isinstance(fn.value, ast.Name) and fn.value.id in loc):
                    recv = self.pure(fn.value, loc)
                if recv is not None and recv[1] == "coro":
                    if fn.attr == "send" and len(e.args) == 1:
                        v = self.as_val(self.pure(e.args[0], loc))
                        return self.prim(f"coroSend {self.body()} {v} (cs, env)", "yv", "y", loc, k, cont)
                    if fn.attr == "throw" and len(e.args) == 1:
                        x = self.as_pyexc(self.pure(e.args[0], loc))
                        return self.prim(f"coroThrow {self.body()} ({x}) (cs, env)", "yv", "y", loc, k, cont)
                    if fn.attr == "close" and not e.args:
                        return self.prim(f"coroClose {self.body()} (cs, env)", "unit", "u", loc, k, cont)
                fval = None
                if (recv is not None and recv[1] == "hooks") or (self.is_self(fn.value) and fn.attr == "finalizer"):
                    fval = self.pure(fn, loc)
                if fval is not None and fval[1] == "hookfn" and len(e.args) == 1 and self.is_self(e.args[0]):
                    # hooks.firstiter(self): only reached when the hook is installed; a user's hook may raise
                    x = self.gensym("e")
                    return let("evs", "evs ++ [HookEv.firstiter]",
                               match("hookCall cfg", [(".ok _", cont(("()", "unit"), loc)),
                                                      (f".err {x}", k.raise_((x, "pyexc"), loc))]))
                if fval is not None and fval[1] == "finalizer" and len(e.args) == 1 and self.is_self(e.args[0]):
                    return let("evs", "evs ++ [HookEv.finalizer]", cont(("()", "unit"), loc))
                if recv is None and fval is None and self.is_self(fn.value) and (f.cls, fn.attr) in self.tr.funcs \
                        and (e.args or self.raises(self.tr.funcs[(f.cls, fn.attr)])):
                    return self.inline(self.tr.funcs[(f.cls, fn.attr)], e, loc, k, cont)
                if recv is None and fval is None:
                    # synchronous helper method of the same object
                    if isinstance(fn.value, ast.Name) and fn.value.id == "self" and not e.args:
                        g = self.tr.get(f.cls, fn.attr)
                        if g.suspends:
                            self.bad(f"call of coroutine {fn.attr} without await")
                        args = " ".join(n for n, _ in g.class_params)
                        return let(st, f"{g.lean} {args} {st}", cont(("()", "unit"), loc))
            if isinstance(fn, ast.Name) and loc.get(fn.id, ("", ""))[1] == "finalizer" and len(e.args) == 1 \
                    and self.is_self(e.args[0]):
                return let("evs", "evs ++ [HookEv.finalizer]", cont(("()", "unit"), loc))
            if isinstance(fn, ast.Name) and loc.get(fn.id, ("", ""))[1] == "coromethod":
                # a local alias of coro.send / coro.throw / coro.close
                e2 = ast.Call(func=ast.Attribute(value=ast.Name(id=self.coro_name(loc), ctx=ast.Load()),
                                                 attr=loc[fn.id][2], ctx=ast.Load()), args=e.args, keywords=e.keywords)
                return self.effect(e2, loc, k, cont)
        return cont(self.pure(e, loc), loc)

    def coro_name(self, loc):
        for n, v in loc.items():
            if v[1] == "coro":
                return n
        self.bad("no coroutine parameter in scope")

    @staticmethod
    def raises(node):
        """may an exception leave this helper?  (a `raise`, or a call of a user-supplied hook)"""
        return any(isinstance(x, ast.Raise) or (isinstance(x, ast.Call) and isinstance(x.func, ast.Attribute)
                                                and x.func.attr == "firstiter") for x in ast.walk(node))

    def inline(self, node, call, loc, k, cont):
        """a private synchronous helper of the same object, executed in place: its parameters are bound to
        the (pure) arguments, `return` continues the caller, an exception goes to the caller's handlers"""
        if isinstance(node, ast.AsyncFunctionDef) or any(isinstance(x, (ast.Yield, ast.Await)) for x in ast.walk(node)):
            self.bad(f"call of coroutine {node.name} without await")
        if call.keywords or node.args.defaults or node.args.kwonlyargs or node.args.vararg:
            self.bad(f"helper {node.name}: only plain positional parameters")
        names = [a.arg for a in node.args.args][1:]
        if len(names) != len(call.args):
            self.bad(f"helper {node.name}: wrong number of arguments")
        if getattr(self, "_inlining", 0) > 3:
            self.bad("helpers nested too deeply")
        inner = {n: v for n, v in loc.items() if v[1] in ("coro", "monitor")}
        for n, a in zip(names, call.args):
            inner[n] = self.pure(a, loc)
        body = list(node.body)
        if body and isinstance(body[0], ast.Expr) and isinstance(body[0].value, ast.Constant):
            body = body[1:]
        kk = K(next=lambda l2: cont(("0", "val"), loc), ret=lambda e2, l2: cont(e2, loc),
               raise_=lambda e2, l2: k.raise_(e2, loc), cur_exc=None)
        self._inlining = getattr(self, "_inlining", 0) + 1
        try:
            return self.block(body, 0, inner, kk)
        finally:
            self._inlining -= 1

    @staticmethod
    def is_self(a):
        return isinstance(a, ast.Name) and a.id == "self"

    def body(self):
        b = CLASSES[self.f.cls]["body"]
        if b is None:
            self.bad("no coroutine is driven here")
        return b

    def prim(self, call, ty, base, loc, k, cont):
        """a primitive of the driven coroutine: ((cs, env), Call α)"""
        v, x = self.gensym(base), self.gensym("e")
        ok = cont((v, ty), loc)
        err = k.raise_((x, "pyexc"), loc)
        return match(call, [(f"((cs, env), .ok {v})", ok), (f"((cs, env), .err {x})", err)])

    # ---------------------------------------------------------------------------------------------
    def live_fields(self, loc):
        out = []
        for name in sorted(loc):
            v = loc[name]
            if v[1] in ("val", "yv", "pyexc", "bool", "int") and v[0] == name:
                out.append((name, LEAN_TYPES[v[1]]))
            elif v[1] in ("val", "yv", "pyexc", "bool", "int", "excval"):
                # bound to a compound expression (a parameter alias etc.): not kept; must be re-derivable
                continue
        return out

    def new_point(self, node, loc, inner=None, key=None):
        f = self.f
        pid = len(f.points)
        params = {n for n, _ in f.lean_params()}
        fields = [(n, t) for n, t in self.live_fields(loc) if n not in params]
        consts = {n: v for n, v in loc.items() if n not in params and len(v) == 2 and v[1] in ("bool", "int")
                  and re.fullmatch(r"true|false|\(-?\d+\)", v[0])}
        p = dict(id=f"T{pid}q", fields=fields + ([("inner", inner)] if inner else []), own=[n for n, _ in fields],
                 key=key or "", seq=pid, consts=consts)
        f.points.append(p)
        self.point_of[id(node)] = p
        return p

    def point_locals(self, p, loc):
        """locals inside a resume segment of p: parameters + the kept fields"""
        base = self.init_locals()
        for n, t in p["fields"]:
            if n == "inner":
                continue
            ty = {v: k for k, v in LEAN_TYPES.items()}[t]
            base[n] = (n, ty)
        # static (non-runtime) bindings survive
        for n, v in loc.items():
            if v[1] in ("str", "coro", "hooks", "monitor", "coromethod") and n not in base:
                base[n] = v
        for n, v in self.derived.items():
            base.setdefault(n, v)
        # locals that hold the same literal on every path into this suspension point (checked in susp_leaf)
        for n, v in p["consts"].items():
            base.setdefault(n, v)
        return base

    def susp_leaf(self, p, y, loc, inner=None):
        f = self.f
        args = []
        for n in p["own"]:
            if n not in loc:
                self.bad(f"local {n} is not bound on a path that reaches the same suspension point")
            args.append(loc[n][0])
        for n, v in p["consts"].items():
            if loc.get(n) != v:
                self.bad(f"local {n} holds different constants on two paths into one suspension point")
        if inner is not None:
            args.append(inner)
        a = " ".join(args)
        ctor = f".p{p['id']}" + (f" {a}" if a else "")
        return leaf(f".suspended {y} ({ctor}) {f.state_tuple()}")

    def do_yield(self, e, loc, k, cont):
        f = self.f
        if e.value is None:
            self.bad("bare yield")
        y = self.pure(e.value, loc)
        if y[1] != "yv":
            self.bad("only objects obtained from the coroutine (or an _OOBRequest) may be yielded")
        p = self.point_of.get(id(e))
        if p is None:
            p = self.new_point(e, loc, key="yield " + ast.unparse(e.value))
            pat = f".p{p['id']}" + "".join(f" {n}" for n in p["own"])

            def job(p=p, pat=pat, loc=loc, k=k, cont=cont):
                pl = self.point_locals(p, loc)
                v, x = self.gensym("v"), self.gensym("e")
                body = match("r", [(f".send {v}", cont((v, "val"), pl)),
                                   (f".throw {x}", k.raise_((f"(PyExc.exc {x})", "pyexc"), pl))])
                return (pat, body)
            self.jobs.append(job)
        return self.susp_leaf(p, y[0], loc)

    # ---------------------------------------------------------------------------------------------
    def callee(self, call, loc):
        """resolve `recv.method(args)` to a translated coroutine function and its Lean arguments"""
        f = self.f
        if not (isinstance(call, ast.Call) and isinstance(call.func, ast.Attribute)):
            self.bad(f"await of {ast.unparse(call)[:60]}")
        recv = call.func.value
        name = call.func.attr
        if isinstance(recv, ast.Name) and recv.id == "self":
            cls, mon = f.cls, "m"
        else:
            r = self.pure(recv, loc)
            if r[1] != "monitor":
                self.bad(f"await of a method of {ast.unparse(recv)}")
            cls = "Monitor"
            mon = "m" if f.cls in ("BoundMonitor", "GeneratorObject") else "0"
        g = self.tr.get(cls, name)
        if not g.suspends:
            self.bad(f"await of the synchronous {cls}.{name}")
        if call.keywords:
            self.bad("keyword arguments")
        args = list(call.args)
        lean_args = []
        for role, names in g.roles:
            if role == "coro":
                if not args:
                    self.bad("missing coroutine argument")
                a = self.pure(args.pop(0), loc)
                if a[1] != "coro":
                    self.bad("the coroutine argument must be the driven coroutine")
            elif role == "val":
                if args:
                    lean_args.append(self.as_val(self.pure(args.pop(0), loc)))
                else:
                    d = self.default_of(g, names[0])
                    lean_args.append(d)
            elif role == "first":
                if len(args) < 2:
                    self.bad("missing callable/args")
                fnx, tup = args.pop(0), args.pop(0)
                if not (isinstance(fnx, ast.Attribute) and self.pure(fnx.value, loc)[1] == "coro"
                        and fnx.attr in ("send", "throw") and isinstance(tup, ast.Tuple)):
                    self.bad("the first call must be coro.send / coro.throw with a tuple of arguments")
                if fnx.attr == "send":
                    if len(tup.elts) != 1:
                        self.bad("coro.send takes one argument")
                    lean_args.append(f"(Resume.send {self.as_val(self.pure(tup.elts[0], loc))})")
                else:
                    lean_args.append(f"(Resume.throw (PyThrow.exc {self.throw_triple(tup.elts, loc)}))")
            elif role == "throw":
                take = args[:3]
                del args[:3]
                lean_args.append(self.throw_triple(take, loc))
        if args:
            self.bad("too many arguments")
        cp = []
        for n, t in g.class_params:
            if n == "m":
                cp.append(mon)
            elif n == "c":
                cp.append(self.body())
            else:
                cp.append(n)
        return g, " ".join(cp + lean_args)

    def default_of(self, g, pname):
        a = g.node.args
        names = [x.arg for x in a.args]
        i = names.index(pname) - (len(names) - len(a.defaults))
        if i < 0:
            self.bad(f"missing argument {pname}")
        d = a.defaults[i]
        if isinstance(d, ast.Constant) and d.value is None:
            return "0"
        self.bad("default value")

    def throw_triple(self, elts, loc):
        """(type, value, traceback) arguments -> PyThrow"""
        if not elts:
            self.bad("missing exception argument")
        vals = [self.pure(x, loc) for x in elts]
        if all(v[1] == "throw" for v in vals):
            if [v[2] for v in vals] != list(range(len(vals))) or len({v[0] for v in vals}) != 1 or len(vals) != 3:
                self.bad("the (type, value, traceback) triple must be passed on whole and in order")
            return vals[0][0]
        if len(vals) == 1 and vals[0][1] == "throwclass":
            return vals[0][0]
        if len(vals) == 3 and all(v == ("0", "val") for v in vals):
            return "PyThrow.none3"
        self.bad("exception arguments of a throw")

    def do_await(self, call, loc, k, cont):
        f = self.f
        g, args = self.callee(call, loc)
        sub = g.state_tuple()
        st = f.state_tuple()
        key = id(call)
        p = self.point_of.get(key)
        first_time = p is None
        if first_time:
            p = self.new_point(call, loc, inner=g.susp_type(), key=f"await {g.lean} {args}")
        l1, y1, v1, e1 = self.gensym("l"), self.gensym("y"), self.gensym("v"), self.gensym("e")

        def arms(loc_here, on_susp):
            return [(f".suspended {y1} {l1} {sub}", on_susp),
                    (f".returned {v1} {sub}", cont((v1, "val"), loc_here)),
                    (f".raised {e1} {sub}", k.raise_((f"(PyExc.exc {e1})", "pyexc"), loc_here))]
        if first_time:
            pat = f".p{p['id']}" + "".join(f" {n}" for n in p["own"]) + " inner"

            def job(p=p, pat=pat, loc=loc, k=k, cont=cont):
                pl = self.point_locals(p, loc)
                ign = "(PyExc.exc (.runtime Proto.rtIgnoredGenExit))"
                # PEP 380: GeneratorExit closes the awaited coroutine
                close = match(f"{g.lean}Resume {args} inner r {sub}", [
                    (f".suspended _ _ {sub}", k.raise_((ign, "pyexc"), pl)),
                    (f".returned _ {sub}", k.raise_(("(PyExc.exc .genExit)", "pyexc"), pl)),
                    (f".raised {e1} {sub}", k.raise_((f"(PyExc.exc {e1})", "pyexc"), pl))])
                other = match(f"{g.lean}Resume {args} inner r {sub}",
                              arms(pl, self.susp_leaf(p, y1, pl, inner=l1)))
                return (pat, match("r", [(".throw .genExit", close), ("_", other)]))
            self.jobs.append(job)
        return match(f"{g.lean}Entry {args} {sub}", arms(loc, self.susp_leaf(p, y1, loc, inner=l1)))


# ------------------------------------------------------------------------------------------------------

WANTED = [
    ("Monitor", ["oob", "_asend", "aawait", "athrow", "aclose", "start", "try_await"]),
    ("BoundMonitor", ["__await__", "aawait", "athrow", "aclose", "start", "try_await"]),
    ("GeneratorObject", ["ayield"]),
    # (_first_iter may raise — the user's hook — and is executed in place where it is called)
    ("GeneratorObjectIterator", ["__del__", "__anext__", "asend", "athrow", "aclose", "_athrow"]),
]

HEADER = """-- GENERATED by translator/monitor2lean.py from src/asynkit/monitor.py — do not edit
import Asynkit.Model.MonitorRt
set_option linter.unusedVariables false
namespace Asynkit.Gen.Mon
open Asynkit.Proto (Val Exc Resume)
open Asynkit.Monitor Asynkit.AsyncGen Asynkit.MonRt

"""


def generate(src: Path):
    tree = ast.parse((Path(src) / "asynkit" / "monitor.py").read_text())
    tr = Translator(tree)
    for cls, names in WANTED:
        for n in names:
            tr.get(cls, n)
    blocks = []
    for f in tr.order:
        blocks += f.defs
    return {"Monitor.lean": HEADER + "\n\n".join(blocks) + "\n\nend Asynkit.Gen.Mon\n"}


if __name__ == "__main__":
    import sys
    print(generate(Path(sys.argv[1]))["Monitor.lean"])
