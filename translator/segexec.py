"""segexec — a small symbolic executor for Python function bodies, used by cond2lean.py and timeout2lean.py
(DESIGN §3.3, round 4: coroutines translated *segment by segment*).

It walks the AST of a function (sync function, coroutine, generator-based context manager) with an explicit
continuation stack (frames for statement sequences, `try/finally`, `try/except`, `while True`,
`for … in range(k)`, inlined `async with <generator context manager>`) and emits, as Lean text, the residual
computation from one *entry* (function entry, or a suspension point together with one way of resuming it) to
the next suspension point or to the function's exit:

    segment : State → (parameters) → Locals_of_the_point → Resume → State × Out

Values are either *static* (entities such as `self`, the lock, the waiter queue, the current task, a closure,
constants) — these live only at translation time — or *dynamic* (a Lean expression with a Lean type): exception
identities, priorities, counters, flags.  At a suspension point the dynamic values that are still held — local
variables and the exceptions pending in `finally`/`except` frames — become the fields `d0, d1, …` of the
point's `Locals` structure, in stack order then in order of first binding (so a renamed local changes
nothing).  A point is identified by the await/yield it sits on and the *shape* of the continuation stack, so a
loop that comes back to the same await produces one point and every segment is finite.

Everything the executor does not know raises `Unsupported` — the unit is then poisoned by py2lean.

What a call / attribute / await *means* is not decided here: the unit passes a `Domain` object (the kernel
interface: primitives on the model's state, the resumptions of each kind of await, the exception classes).
"""
import ast
import itertools


class Unsupported(Exception):
    pass


# ------------------------------------------------------------------------------------------ values


class Ent:
    """static entity (exists at translation time only)"""

    def __init__(self, kind, data=None):
        self.kind, self.data = kind, data

    def key(self):
        return ("ent", self.kind, self.data if isinstance(self.data, (str, int, type(None))) else id(self.data))

    def __repr__(self):
        return f"Ent({self.kind})"


class Const:
    def __init__(self, v):
        self.v = v

    def key(self):
        return ("const", repr(self.v))

    def __repr__(self):
        return f"Const({self.v!r})"


class Dyn:
    """dynamic value: Lean expression `lean` of Lean type `ty`; `ctor` = statically known constructor of an
    exception value (or None)"""

    def __init__(self, lean, ty, ctor=None):
        self.lean, self.ty, self.ctor = lean, ty, ctor

    def key(self):
        # what is statically known about the constructor is forgotten at a suspension point: the resumed
        # segment must work for every value of the field's type
        return ("dyn", self.ty)

    def __repr__(self):
        return f"Dyn({self.lean}:{self.ty})"


def paren(s):
    """parenthesise a Lean term unless it is atomic or already one balanced parenthesised group"""
    s = s.strip()
    if all(c.isalnum() or c in "._'" for c in s):
        return s
    if s.startswith("(") and s.endswith(")"):
        depth = 0
        for i, c in enumerate(s):
            depth += c == "("
            depth -= c == ")"
            if depth == 0 and i < len(s) - 1:
                break
        else:
            return s
    return f"({s})"


# ------------------------------------------------------------------------------------------ frames


class Frame:
    scope = None

    def dyns(self):
        return []

    def with_dyns(self, it):
        return self

    def shape(self):
        return (type(self).__name__, self.scope)


class Seq(Frame):
    def __init__(self, stmts, scope):
        self.stmts, self.scope = stmts, scope

    def shape(self):
        return ("Seq", self.scope, tuple(id(s) for s in self.stmts))


class Finally(Frame):
    def __init__(self, body, scope):
        self.body, self.scope = body, scope

    def shape(self):
        return ("Finally", self.scope, id(self.body[0]))


class FinallyResume(Frame):
    """the finally body is running; afterwards `outcome` goes on"""

    def __init__(self, outcome, scope):
        self.outcome, self.scope = outcome, scope

    def dyns(self):
        return outcome_dyns(self.outcome)

    def with_dyns(self, it):
        return FinallyResume(outcome_with(self.outcome, it), self.scope)

    def shape(self):
        return ("FinallyResume", self.scope, outcome_shape(self.outcome))


class Except(Frame):
    def __init__(self, handlers, scope):
        self.handlers, self.scope = handlers, scope

    def shape(self):
        return ("Except", self.scope, id(self.handlers[0]))


class Handling(Frame):
    """inside an `except … as name:` body: `exn` is the exception being handled (bare `raise`), `name` is
    unbound when the body is left"""

    def __init__(self, exn, name, scope):
        self.exn, self.name, self.scope = exn, name, scope

    def dyns(self):
        return [self.exn] if isinstance(self.exn, Dyn) else []

    def with_dyns(self, it):
        return Handling(next(it) if isinstance(self.exn, Dyn) else self.exn, self.name, self.scope)

    def shape(self):
        return ("Handling", self.scope, self.name, self.exn.key())


class WhileTrue(Frame):
    def __init__(self, body, scope):
        self.body, self.scope = body, scope

    def shape(self):
        return ("WhileTrue", self.scope, id(self.body[0]))


class WhileCond(Frame):
    def __init__(self, test, body, scope):
        self.test, self.body, self.scope = test, body, scope

    def shape(self):
        return ("WhileCond", self.scope, id(self.body[0]))


class ForRange(Frame):
    """`for var in range(stop)` with a constant `stop`: `i` (a Python int) is the *current* iteration — the
    loop is unrolled, so a suspension point inside it is one point per iteration"""

    def __init__(self, var, i, stop, body, scope):
        self.var, self.i, self.stop, self.body, self.scope = var, i, stop, body, scope

    def shape(self):
        return ("ForRange", self.scope, id(self.body[0]), self.stop, self.i)


class LoopBodyEnd(Frame):
    """bottom of the stack while the body of a synchronous `for x in <list>` is translated"""

    def __init__(self, carried, scope):
        self.carried, self.scope = carried, scope


class CallReturn(Frame):
    """bottom of an inlined module-level helper function: its `return v` becomes `targets = v` in the caller"""

    def __init__(self, targets, scope, callee_scope):
        self.targets, self.scope, self.callee_scope = targets, scope, callee_scope

    def shape(self):
        return ("CallReturn", self.scope, self.callee_scope, tuple(ast.dump(t) for t in self.targets))


class WithExit(Frame):
    """body of `async with <generator cm>`: `gstack` is the generator's continuation at its `yield`"""

    def __init__(self, gstack, gscope, scope):
        self.gstack, self.gscope, self.scope = gstack, gscope, scope

    def dyns(self):
        return [d for f in self.gstack for d in f.dyns()]

    def with_dyns(self, it):
        return WithExit([f.with_dyns(it) for f in self.gstack], self.gscope, self.scope)

    def shape(self):
        return ("WithExit", self.scope, self.gscope, tuple(f.shape() for f in self.gstack))


class GenStart(Frame):
    """bottom of a generator cm that is being started by `async with` (caller's stack is below)"""

    def __init__(self, body, scope, caller_scope):
        self.body, self.scope, self.caller_scope = body, scope, caller_scope

    def shape(self):
        return ("GenStart", self.scope, self.caller_scope, id(self.body[0]))


class GenFinish(Frame):
    """bottom of a generator cm that is being finished by `__aexit__`; `outcome` is what left the with body"""

    def __init__(self, outcome, scope, caller_scope):
        self.outcome, self.scope, self.caller_scope = outcome, scope, caller_scope

    def dyns(self):
        return outcome_dyns(self.outcome)

    def with_dyns(self, it):
        return GenFinish(outcome_with(self.outcome, it), self.scope, self.caller_scope)

    def shape(self):
        return ("GenFinish", self.scope, self.caller_scope, outcome_shape(self.outcome))


# outcomes: ("normal", val) ("return", val) ("raise", exnval) ("break",) ("continue",)
NORMAL = ("normal", Const(None))


def outcome_dyns(o):
    return [v for v in o[1:] if isinstance(v, Dyn)]


def outcome_with(o, it):
    return (o[0],) + tuple(next(it) if isinstance(v, Dyn) else v for v in o[1:])


def outcome_shape(o):
    return (o[0],) + tuple(v.key() for v in o[1:])


# ------------------------------------------------------------------------------------------ the executor


class Point:
    def __init__(self, idx, kind, name, stack, scopes, cur, node):
        self.idx, self.kind, self.name = idx, kind, name
        self.stack, self.scopes, self.cur, self.node = stack, scopes, cur, node
        self.field_tys = []
        self.field_docs = []


class Executor:
    """one translated function (coroutine / generator / sync function)"""

    BUDGET = 4000

    def __init__(self, dom, fn, params, gens=None, ident="f", helpers=None):
        self.dom, self.fn, self.ident = dom, fn, ident
        self.helpers = helpers or {}    # name -> FunctionDef of module-level synchronous helpers (inlined)
        self.methods = {}               # name -> FunctionDef of private sync methods of the same class, inlined
                                        # when called as `self.name(...)` (set by the unit)
        self.params = params            # python arg name -> Val
        self.gens = gens or {}          # name -> FunctionDef of generator context managers that may be inlined
        self.points = {}                # shape key -> Point
        self.order = []
        self.todo = []
        self.fresh = itertools.count(1)
        self.steps = 0
        self.binding_order = {}         # (scope, name) -> first-binding index
        self.static_binds = {}          # every static value bound in the function's own scope (for closures)
        self.synth = {}                 # synthesised statements (stable identity: they occur in frame shapes)

    # ---------------------------------------------------------------- small helpers
    def tick(self):
        self.steps += 1
        if self.steps > self.BUDGET:
            raise Unsupported(f"{self.ident}: a segment does not reach a suspension point or an exit")

    def new(self, base="s"):
        return f"{base}{next(self.fresh)}"

    def bind(self, scopes, cur, name, val):
        self.binding_order.setdefault((cur, name), len(self.binding_order))
        if not isinstance(val, Dyn) and cur == "fn":
            self.static_binds[name] = val
        sc = dict(scopes)
        env = dict(sc[cur])
        env[name] = val
        sc[cur] = env
        return sc

    def unbind(self, scopes, cur, name):
        sc = dict(scopes)
        env = dict(sc[cur])
        env.pop(name, None)
        sc[cur] = env
        return sc

    def lookup(self, scopes, cur, name):
        env = scopes[cur]
        if name in env:
            return env[name]
        v = self.dom.global_name(name)
        if v is None:
            raise Unsupported(f"{self.ident}: name {name!r} is not bound here")
        return v

    # ---------------------------------------------------------------- expressions
    def ev(self, e, scopes, cur, st):
        """-> Val (pure expressions only; calls with effects are handled by `call`)"""
        h = getattr(self.dom, "expr_hook", None)
        if h is not None:
            r = h(self, e, scopes, cur, st, False)
            if r is not None:
                return r
        if isinstance(e, ast.BoolOp):
            # `and` / `or` over truth values (operands are total, effect-free primitives: no short-circuit issue)
            vals = [self.truth_of(v, scopes, cur, st) for v in e.values]
            is_and = isinstance(e.op, ast.And)
            dyn = []
            for v in vals:
                if isinstance(v, Const):
                    if bool(v.v) != is_and:
                        return Const(not is_and)       # a static False in `and` / True in `or` decides
                else:
                    dyn.append(paren(v.lean))
            if not dyn:
                return Const(is_and)
            return Dyn((" && " if is_and else " || ").join(dyn), "Bool")
        if isinstance(e, ast.Constant):
            return Const(e.value)
        if isinstance(e, ast.Name):
            v = self.lookup(scopes, cur, e.id)
            if isinstance(v, Ent) and v.kind == "cell":
                return self.dom.read_cell(self, v, st)
            return v
        if isinstance(e, ast.Attribute):
            base = self.ev(e.value, scopes, cur, st)
            v = self.dom.attr(base, e.attr)
            if isinstance(v, Ent) and v.kind == "cell":
                return self.dom.read_cell(self, v, st)
            return v
        if isinstance(e, ast.UnaryOp) and isinstance(e.op, ast.Not):
            v = self.truth_of(e.operand, scopes, cur, st)
            if isinstance(v, Const):
                return Const(not v.v)
            return Dyn(f"!{paren(v.lean)}", "Bool")
        if isinstance(e, ast.Compare) and len(e.ops) == 1:
            a = self.ev_call_pure(e.left, scopes, cur, st)
            b = self.ev_call_pure(e.comparators[0], scopes, cur, st)
            return self.compare(e.ops[0], a, b)
        if isinstance(e, ast.Call):
            return self.ev_call_pure(e, scopes, cur, st)
        if isinstance(e, ast.Dict):
            return Ent("dict")
        if isinstance(e, ast.JoinedStr):
            return Const("<fstring>")
        raise Unsupported(f"{self.ident}: expression {ast.dump(e)[:90]}")

    def ev_call_pure(self, e, scopes, cur, st):
        if not isinstance(e, ast.Call):
            return self.ev(e, scopes, cur, st)
        r = self.call(e, scopes, cur, st)
        if r[0] != "pure":
            raise Unsupported(f"{self.ident}: call with effects inside an expression: {ast.dump(e)[:80]}")
        return r[1]

    def truth_of(self, e, scopes, cur, st):
        """truth value of expression `e` (the domain may know what the truthiness of an object means)"""
        h = getattr(self.dom, "expr_hook", None)
        if h is not None:
            r = h(self, e, scopes, cur, st, True)
            if r is not None:
                return self.truth(r)
        return self.truth(self.ev_call_pure(e, scopes, cur, st))

    def truth(self, v):
        if isinstance(v, Const):
            return Const(bool(v.v))
        if isinstance(v, Dyn) and v.ty == "Bool":
            return v
        if isinstance(v, Ent):
            return Const(True)
        raise Unsupported(f"{self.ident}: truth value of {v}")

    def compare(self, op, a, b):
        if isinstance(op, (ast.Is, ast.IsNot)):
            neg = isinstance(op, ast.IsNot)
            r = self.identical(a, b)
            if isinstance(r, Const):
                return Const(r.v != neg)
            return Dyn(f"!{paren(r.lean)}", "Bool") if neg else r
        sym = {ast.Lt: "<", ast.Gt: ">", ast.LtE: "≤", ast.GtE: "≥", ast.Eq: "=", ast.NotEq: "≠"}.get(type(op))
        if sym is None:
            raise Unsupported(f"{self.ident}: comparison {op}")
        if isinstance(a, Const) and isinstance(b, Const):
            return Const(eval(f"a.v {ast.unparse(ast.Compare(ast.Name('x'), [op], [ast.Name('y')])).split()[1]} b.v"))
        la, lb = self.num(a), self.num(b)
        return Dyn(f"decide ({la} {sym} {lb})", "Bool")

    def num(self, v):
        if isinstance(v, Const) and isinstance(v.v, int) and not isinstance(v.v, bool):
            return str(v.v)
        if isinstance(v, Dyn) and v.ty in ("Nat", "Int"):
            return v.lean
        raise Unsupported(f"{self.ident}: number expected, got {v}")

    def identical(self, a, b):
        """`a is b`"""
        if isinstance(b, Const) and b.v is None:
            if isinstance(a, Const):
                return Const(a.v is None)
            if isinstance(a, Ent):
                return Const(False)
            if isinstance(a, Dyn) and a.ty.startswith("Option "):
                return Dyn(f"{paren(a.lean)}.isNone", "Bool")
            if isinstance(a, Dyn):
                return Const(False)
        if isinstance(a, Const) and a.v is None:
            return self.identical(b, a)
        if isinstance(a, Ent) and isinstance(b, Ent):
            return Const(a.kind == b.kind and a.data == b.data)
        r = self.dom.identical(a, b)
        if r is None:
            raise Unsupported(f"{self.ident}: identity test between {a} and {b}")
        return r

    # ---------------------------------------------------------------- calls
    def call(self, e, scopes, cur, st):
        """-> ("pure", Val) | ("eff", lean_state_expr, Val) | ("mayraise", lean_option_expr, binder_ty, exnval)
              | ("local", FunctionDef, args)"""
        h = getattr(self.dom, "call_hook", None)
        if h is not None:
            r = h(self, e, scopes, cur, st)
            if r is not None:
                return r
        f = e.func
        args = [self.ev_call_pure(a, scopes, cur, st) for a in e.args]
        kw = {k.arg: self.ev_call_pure(k.value, scopes, cur, st) for k in e.keywords}
        if isinstance(f, ast.Attribute):
            base = self.ev_call_pure(f.value, scopes, cur, st)
            return self.dom.method(self, base, f.attr, args, kw, st)
        if isinstance(f, ast.Name):
            if f.id in scopes[cur] and isinstance(scopes[cur][f.id], Ent) and scopes[cur][f.id].kind == "closure":
                return self.dom.call_closure(self, scopes[cur][f.id], args, kw, st)
            return self.dom.function(self, f.id, args, kw, st)
        raise Unsupported(f"{self.ident}: call {ast.dump(e)[:80]}")

    # ---------------------------------------------------------------- statements
    def run_stmts(self, stmts, stack, scopes, cur, st, ind):
        if not stmts:
            return self.resume(stack, NORMAL, scopes, cur, st, ind)
        s, rest = stmts[0], stmts[1:]
        if rest:
            stack = stack + [Seq(rest, cur)]
        return self.exec_stmt(s, stack, scopes, cur, st, ind)

    def let_state(self, expr, ind):
        s2 = self.new()
        return s2, f"{ind}let {s2} := {expr}\n"

    def exec_stmt(self, s, stack, scopes, cur, st, ind):
        self.tick()
        R = lambda o, sc=scopes, s_=st: self.resume(stack, o, sc, cur, s_, ind)   # noqa: E731
        if isinstance(s, ast.Pass):
            return R(NORMAL)
        if isinstance(s, ast.Expr) and isinstance(s.value, ast.Constant):
            return R(NORMAL)
        if isinstance(s, (ast.FunctionDef, ast.AsyncFunctionDef)):
            return R(NORMAL, self.bind(scopes, cur, s.name, Ent("closure", s)))
        if isinstance(s, ast.Assert):
            v = self.truth(self.ev_call_pure(s.test, scopes, cur, st))
            if isinstance(v, Const) and v.v:
                return R(NORMAL)
            raise Unsupported(f"{self.ident}: assert whose condition is not statically true: {ast.unparse(s.test)}")
        if isinstance(s, ast.Return):
            if isinstance(s.value, ast.Call):
                # `return f(x)` is `tmp = f(x); return tmp` (the call may have effects, raise, or be inlined)
                tmp = ast.Name(id="return value", ctx=ast.Store())
                ret = ast.Return(value=ast.Name(id="return value", ctx=ast.Load()))
                ast.copy_location(tmp, s)
                ast.copy_location(ret, s)
                ast.copy_location(ret.value, s)
                key = ("ret", id(s))
                if key not in self.synth:
                    self.synth[key] = ret
                return self.exec_assign([tmp], s.value, stack + [Seq([self.synth[key]], cur)], scopes, cur, st, ind)
            v = Const(None) if s.value is None else self.ev_call_pure(s.value, scopes, cur, st)
            return R(("return", v))
        if isinstance(s, ast.Break):
            return R(("break",))
        if isinstance(s, ast.Continue):
            return R(("continue",))
        if isinstance(s, ast.Raise):
            if s.exc is None:
                for f in reversed(stack):
                    if isinstance(f, Handling):
                        return R(("raise", f.exn))
                raise Unsupported(f"{self.ident}: bare raise outside a handler")
            # `raise X from Y`: the cause is not modelled (tracebacks/causes are not part of any state)
            v = self.ev_raise(s.exc, scopes, cur, st)
            return R(("raise", v))
        if isinstance(s, ast.If):
            return self.exec_if(s.test, s.body, s.orelse, stack, scopes, cur, st, ind)
        if isinstance(s, ast.While):
            if s.orelse:
                raise Unsupported(f"{self.ident}: while/else")
            if isinstance(s.test, ast.Constant) and s.test.value is True:
                return self.run_stmts(s.body, stack + [WhileTrue(s.body, cur)], scopes, cur, st, ind)
            return self.while_test(WhileCond(s.test, s.body, cur), stack, scopes, cur, st, ind)
        if isinstance(s, ast.For):
            return self.exec_for(s, stack, scopes, cur, st, ind)
        if isinstance(s, ast.Try):
            if s.orelse:
                raise Unsupported(f"{self.ident}: try/else")
            st2 = stack
            if s.finalbody:
                st2 = st2 + [Finally(s.finalbody, cur)]
            if s.handlers:
                st2 = st2 + [Except(s.handlers, cur)]
            return self.run_stmts(s.body, st2, scopes, cur, st, ind)
        if isinstance(s, ast.AsyncWith):
            return self.exec_async_with(s, stack, scopes, cur, st, ind)
        if isinstance(s, ast.AugAssign) and isinstance(s.target, ast.Name) and isinstance(s.op, ast.Add):
            a = self.lookup(scopes, cur, s.target.id)
            b = self.ev_call_pure(s.value, scopes, cur, st)
            if isinstance(a, Const) and isinstance(b, Const):
                v = Const(a.v + b.v)
            else:
                v = Dyn(f"{self.num(a)} + {self.num(b)}", a.ty if isinstance(a, Dyn) else b.ty)
            return R(NORMAL, self.bind(scopes, cur, s.target.id, v))
        if isinstance(s, ast.Assign):
            return self.exec_assign(s.targets, s.value, stack, scopes, cur, st, ind)
        if isinstance(s, ast.AnnAssign) and s.value is not None:
            return self.exec_assign([s.target], s.value, stack, scopes, cur, st, ind)
        if isinstance(s, ast.Expr):
            return self.exec_assign([], s.value, stack, scopes, cur, st, ind)
        raise Unsupported(f"{self.ident}: statement {type(s).__name__} at line {getattr(s, 'lineno', '?')}")

    def while_test(self, fr, stack, scopes, cur, st, ind):
        """(re-)evaluate the test of a `while <test>:` loop"""
        self.tick()
        v = self.truth_of(fr.test, scopes, fr.scope, st)
        if isinstance(v, Const):
            if v.v:
                return self.run_stmts(fr.body, stack + [fr], scopes, fr.scope, st, ind)
            return self.resume(stack, NORMAL, scopes, fr.scope, st, ind)
        a = self.run_stmts(fr.body, stack + [fr], scopes, fr.scope, st, ind + "  ")
        b = self.resume(stack, NORMAL, scopes, fr.scope, st, ind + "  ")
        return f"{ind}if {v.lean} then\n{a}{ind}else\n{b}"

    def ev_raise(self, e, scopes, cur, st):
        if isinstance(e, ast.Call):
            cls = ast.unparse(e.func)
            v = self.dom.make_exn(cls)
            if v is None:
                raise Unsupported(f"{self.ident}: raise of {cls}")
            return v
        v = self.ev(e, scopes, cur, st)
        if isinstance(v, Dyn) and v.ty == self.dom.exn_ty:
            return v
        if isinstance(v, Ent) and v.kind == "exnobj":
            return v
        raise Unsupported(f"{self.ident}: raise of {v}")

    def assign_all(self, targets, val, scopes, cur):
        for t in targets:
            if isinstance(t, ast.Name):
                scopes = self.dom.assign(self, scopes, cur, t.id, val)
            else:
                raise Unsupported(f"{self.ident}: assignment target {ast.dump(t)[:60]}")
        return scopes

    def exec_assign(self, targets, value, stack, scopes, cur, st, ind):
        """targets = value   /   bare expression statement (targets = [])"""
        if isinstance(value, ast.Await):
            return self.suspend("await", value, targets, stack, scopes, cur, st, ind)
        if isinstance(value, ast.Yield):
            if value.value is not None:
                raise Unsupported(f"{self.ident}: yield of a value")
            return self.do_yield(value, stack, scopes, cur, st, ind)
        if isinstance(value, ast.Call) and isinstance(value.func, ast.Name) and value.func.id in self.helpers \
                and value.func.id not in scopes[cur]:
            return self.inline_call(self.helpers[value.func.id], value, targets, stack, scopes, cur, st, ind)
        if isinstance(value, ast.Call) and isinstance(value.func, ast.Attribute) \
                and isinstance(value.func.value, ast.Name) and value.func.attr in self.methods:
            base = self.lookup(scopes, cur, value.func.value.id)
            if isinstance(base, Ent) and base.kind == self.dom.self_kind:
                return self.inline_call(self.methods[value.func.attr], value, targets, stack, scopes, cur, st, ind,
                                        bound_self=base)
        if not isinstance(value, ast.Call):
            v = self.ev(value, scopes, cur, st)
            sc, pre, st2 = self.dom.assign_eff(self, scopes, cur, targets, v, st, ind)
            return pre + self.resume(stack, NORMAL, sc, cur, st2, ind)
        r = self.call(value, scopes, cur, st)
        if r[0] == "pure":
            sc, pre, st2 = self.dom.assign_eff(self, scopes, cur, targets, r[1], st, ind)
            return pre + self.resume(stack, NORMAL, sc, cur, st2, ind)
        if r[0] == "eff":
            st2, txt = self.let_state(r[1], ind)
            sc, pre, st3 = self.dom.assign_eff(self, scopes, cur, targets, r[2], st2, ind)
            return txt + pre + self.resume(stack, NORMAL, sc, cur, st3, ind)
        if r[0] == "mayraise":
            # an Option-valued primitive: `none` = it raised `exnval`
            _, opt, ty, exnval = r
            x = self.new("v")
            sc = self.assign_all(targets, Dyn(x, ty), scopes, cur)
            a = self.resume(stack, ("raise", exnval), scopes, cur, st, ind + "  ")
            b = self.resume(stack, NORMAL, sc, cur, st, ind + "  ")
            return f"{ind}match {opt} with\n{ind}| none =>\n{a}{ind}| some {x} =>\n{b}"
        if r[0] == "mayraise-ent":
            # the same, the value being an entity named by the bound variable (a future of a queue)
            _, opt, exnval = r
            x = self.new("v")
            sc, pre, st2 = self.dom.assign_eff(self, scopes, cur, targets, Ent("fut", x), st, ind + "  ")
            a = self.resume(stack, ("raise", exnval), scopes, cur, st, ind + "  ")
            b = pre + self.resume(stack, NORMAL, sc, cur, st2, ind + "  ")
            return f"{ind}match {opt} with\n{ind}| none =>\n{a}{ind}| some {x} =>\n{b}"
        if r[0] == "choice":
            # an environment-decided primitive: list of (pattern, outcome builder)
            _, scrut, alts = r
            out = f"{ind}match {scrut} with\n"
            for pat, mk in alts:
                st2, outcome, pre = mk(ind + "  ")
                out += f"{ind}| {pat} =>\n{pre}" + self.resume(stack, outcome, scopes, cur, st2, ind + "  ")
            return out
        raise Unsupported(f"{self.ident}: call result {r[0]}")

    def inline_call(self, g, call, targets, stack, scopes, cur, st, ind, bound_self=None):
        """`targets = g(args)` for a module-level synchronous helper `g`: its body is executed in a scope of its
        own with the parameters bound to the (already evaluated) arguments; `return v` assigns `v` to the
        targets and goes on in the caller, an exception propagates into the caller's handlers"""
        if call.keywords or g.args.kwonlyargs or g.args.vararg or g.args.kwarg or g.args.defaults or g.decorator_list:
            raise Unsupported(f"{self.ident}: call of helper {g.name} with keywords/defaults/decorators")
        if any(isinstance(n, (ast.Await, ast.Yield, ast.YieldFrom)) for b in g.body for n in ast.walk(b)):
            raise Unsupported(f"{self.ident}: helper {g.name} suspends")
        args = [self.ev_call_pure(a, scopes, cur, st) for a in call.args]
        if bound_self is not None:
            args = [bound_self] + args
        names = [a.arg for a in g.args.args]
        if len(names) != len(args):
            raise Unsupported(f"{self.ident}: arguments of {g.name}")
        depth = sum(1 for f in stack if isinstance(f, CallReturn))
        if depth > 8:
            raise Unsupported(f"{self.ident}: helper calls nested too deeply (recursion?)")
        callee = f"{g.name}@{call.lineno}.{depth}"
        sc = dict(scopes)
        sc[callee] = {}
        for n, v in zip(names, args):
            sc = self.bind(sc, callee, n, v)
        return self.run_stmts(strip_doc(g.body), stack + [CallReturn(targets, cur, callee)], sc, callee, st, ind)

    def exec_if(self, test, body, orelse, stack, scopes, cur, st, ind):
        # `if not X: A else: B` is translated as `if X: B else: A`
        while isinstance(test, ast.UnaryOp) and isinstance(test.op, ast.Not):
            test, body, orelse = test.operand, orelse, body
        if isinstance(test, ast.Compare) and len(test.ops) == 1 and isinstance(test.ops[0], (ast.IsNot, ast.NotEq)):
            flipped = ast.Compare(test.left, [ast.Is() if isinstance(test.ops[0], ast.IsNot) else ast.Eq()],
                                  test.comparators)
            test, body, orelse = flipped, orelse, body
        # `x is None` on an Option-typed dynamic value: a match that refines x
        if isinstance(test, ast.Compare) and isinstance(test.ops[0], ast.Is) and isinstance(test.left, ast.Name) \
                and isinstance(test.comparators[0], ast.Constant) and test.comparators[0].value is None:
            v = self.lookup(scopes, cur, test.left.id)
            if isinstance(v, Dyn) and v.ty.startswith("Option "):
                x = self.new("x")
                inner = v.ty[len("Option "):]
                sc_none = self.bind(scopes, cur, test.left.id, Const(None))
                sc_some = self.bind(scopes, cur, test.left.id, Dyn(x, inner))
                a = self.run_stmts(body, stack, sc_none, cur, st, ind + "  ")
                b = self.run_stmts(orelse, stack, sc_some, cur, st, ind + "  ")
                return f"{ind}match {v.lean} with\n{ind}| none =>\n{a}{ind}| some {x} =>\n{b}"
        v = self.truth_of(test, scopes, cur, st)
        if isinstance(v, Const):
            return self.run_stmts(body if v.v else orelse, stack, scopes, cur, st, ind)
        a = self.run_stmts(body, stack, scopes, cur, st, ind + "  ")
        b = self.run_stmts(orelse, stack, scopes, cur, st, ind + "  ")
        return f"{ind}if {v.lean} then\n{a}{ind}else\n{b}"

    # ---------------------------------------------------------------- loops
    def exec_for(self, s, stack, scopes, cur, st, ind):
        if s.orelse:
            raise Unsupported(f"{self.ident}: for/else")
        it = s.iter
        if isinstance(it, ast.Call) and isinstance(it.func, ast.Name) and it.func.id == "range" and len(it.args) == 1 \
                and isinstance(it.args[0], ast.Constant) and isinstance(s.target, ast.Name):
            stop = it.args[0].value
            if stop <= 0:
                return self.resume(stack, NORMAL, scopes, cur, st, ind)
            fr = ForRange(s.target.id, 0, stop, s.body, cur)
            sc = self.bind(scopes, cur, s.target.id, Const(0))
            return self.run_stmts(s.body, stack + [fr], sc, cur, st, ind)
        # synchronous loop over a list the domain knows how to enumerate
        seq = self.ev_call_pure(it, scopes, cur, st)
        lst = self.dom.iterate(self, seq, st)
        if lst is None:
            raise Unsupported(f"{self.ident}: for over {seq}")
        list_lean, elem_binder = lst
        if any(isinstance(n, (ast.Await, ast.Yield, ast.Return)) for b in s.body for n in ast.walk(b)):
            raise Unsupported(f"{self.ident}: await/yield/return inside a for loop over a list")
        assigned = []
        for b in s.body:
            for n in ast.walk(b):
                if isinstance(n, (ast.Assign, ast.AugAssign)):
                    for t in (n.targets if isinstance(n, ast.Assign) else [n.target]):
                        if isinstance(t, ast.Name) and t.id not in assigned:
                            assigned.append(t.id)
        carried = [n for n in assigned if n in scopes[cur]]
        extra = [n for n in assigned if n not in scopes[cur]]
        if extra:
            raise Unsupported(f"{self.ident}: loop body binds new names {extra}")
        # carried values must be dynamic inside the body
        x = self.new("x")
        sv = self.new("s")
        cv = [self.new("c") for _ in carried]
        sc = scopes
        tys = []
        for n, c in zip(carried, cv):
            old = scopes[cur][n]
            ty = old.ty if isinstance(old, Dyn) else self.dom.const_ty(old)
            tys.append(ty)
            sc = self.bind(sc, cur, n, Dyn(c, ty))
        sc = self.dom.bind_loop_target(self, sc, cur, s.target, x)
        body = self.run_stmts(s.body, [LoopBodyEnd(carried, cur)], sc, cur, sv, ind + "    ")
        init = ", ".join([st] + [self.dom.lean_of(scopes[cur][n]) for n in carried])
        pat = ", ".join([sv] + cv)
        r = self.new("r")
        out = (f"{ind}let {r} := forLoop {paren(list_lean)} ({init}) (fun {x} ({pat}) =>\n{body}{ind}  )\n")
        st2 = self.new()
        out += f"{ind}let {st2} := {r}" + (".1\n" if carried else "\n")
        sc2 = scopes
        proj = f"{r}.2"
        for i, (n, ty) in enumerate(zip(carried, tys)):
            last = i == len(carried) - 1
            sc2 = self.bind(sc2, cur, n, Dyn(proj if last else f"{proj}.1", ty))
            proj = f"{proj}.2"
        return out + self.resume(stack, NORMAL, sc2, cur, st2, ind)

    # ---------------------------------------------------------------- async with over a generator cm
    def exec_async_with(self, s, stack, scopes, cur, st, ind):
        if len(s.items) != 1 or s.items[0].optional_vars is not None:
            raise Unsupported(f"{self.ident}: async with … as / several items")
        ce = s.items[0].context_expr
        if not (isinstance(ce, ast.Call) and isinstance(ce.func, ast.Name) and ce.func.id in self.gens):
            raise Unsupported(f"{self.ident}: async with {ast.unparse(ce)}: not a known generator context manager")
        g = self.gens[ce.func.id]
        args = [self.ev_call_pure(a, scopes, cur, st) for a in ce.args]
        names = [a.arg for a in g.args.args]
        if len(names) != len(args):
            raise Unsupported(f"{self.ident}: arguments of {ce.func.id}")
        gscope = f"{ce.func.id}@{s.lineno}"
        sc = dict(scopes)
        sc[gscope] = {}
        for n, v in zip(names, args):
            sc = self.bind(sc, gscope, n, v)
        body = strip_doc(g.body)
        stack2 = stack + [Seq(s.body, cur), GenStart(body, gscope, cur)]
        # Seq(s.body) is replaced by the with-body once the generator has yielded (see do_yield)
        return self.run_stmts(body, stack2, sc, gscope, st, ind)

    def do_yield(self, node, stack, scopes, cur, st, ind):
        # find the generator base
        for i in range(len(stack) - 1, -1, -1):
            f = stack[i]
            if isinstance(f, GenStart):
                gstack = stack[i + 1:]
                caller = stack[:i]
                body_seq = caller[-1]
                assert isinstance(body_seq, Seq)
                caller = caller[:-1] + [WithExit(gstack, f.scope, f.caller_scope)]
                return self.run_stmts(body_seq.stmts, caller, scopes, f.caller_scope, st, ind)
            if isinstance(f, GenFinish):
                raise Unsupported(f"{self.ident}: generator context manager yields a second time")
        # a top-level yield of the translated generator itself: a suspension point
        return self.suspend("yield", node, [], stack, scopes, cur, st, ind)

    # ---------------------------------------------------------------- continuation
    def resume(self, stack, o, scopes, cur, st, ind):
        self.tick()
        if not stack:
            return self.finish(o, scopes, cur, st, ind)
        f, rest = stack[-1], stack[:-1]
        kind = o[0]
        if isinstance(f, Seq):
            if kind == "normal":
                return self.run_stmts(f.stmts, rest, scopes, f.scope, st, ind)
            return self.resume(rest, o, scopes, f.scope, st, ind)
        if isinstance(f, Finally):
            return self.run_stmts(f.body, rest + [FinallyResume(o, f.scope)], scopes, f.scope, st, ind)
        if isinstance(f, FinallyResume):
            if kind == "normal":
                return self.resume(rest, f.outcome, scopes, f.scope, st, ind)
            return self.resume(rest, o, scopes, f.scope, st, ind)     # the finally body's own exit wins
        if isinstance(f, Except):
            if kind != "raise":
                return self.resume(rest, o, scopes, f.scope, st, ind)
            return self.dispatch(f.handlers, o[1], rest, scopes, f.scope, st, ind)
        if isinstance(f, Handling):
            sc = self.unbind(scopes, f.scope, f.name) if f.name else scopes
            return self.resume(rest, o, sc, f.scope, st, ind)
        if isinstance(f, WhileTrue):
            if kind in ("normal", "continue"):
                return self.run_stmts(f.body, stack, scopes, f.scope, st, ind)
            if kind == "break":
                return self.resume(rest, NORMAL, scopes, f.scope, st, ind)
            return self.resume(rest, o, scopes, f.scope, st, ind)
        if isinstance(f, WhileCond):
            if kind in ("normal", "continue"):
                return self.while_test(f, rest, scopes, f.scope, st, ind)
            if kind == "break":
                return self.resume(rest, NORMAL, scopes, f.scope, st, ind)
            return self.resume(rest, o, scopes, f.scope, st, ind)
        if isinstance(f, ForRange):
            if kind in ("normal", "continue"):
                nxt = f.i + 1
                if nxt < f.stop:
                    fr = ForRange(f.var, nxt, f.stop, f.body, f.scope)
                    sc = self.bind(scopes, f.scope, f.var, Const(nxt))
                    return self.run_stmts(f.body, rest + [fr], sc, f.scope, st, ind)
                return self.resume(rest, NORMAL, scopes, f.scope, st, ind)
            if kind == "break":
                return self.resume(rest, NORMAL, scopes, f.scope, st, ind)
            return self.resume(rest, o, scopes, f.scope, st, ind)
        if isinstance(f, LoopBodyEnd):
            vals = ", ".join([st] + [self.dom.lean_of(scopes[f.scope][n]) for n in f.carried])
            if kind in ("normal", "continue"):
                return f"{ind}.cont ({vals})\n"
            if kind == "break":
                return f"{ind}.brk ({vals})\n"
            raise Unsupported(f"{self.ident}: {kind} leaves a for loop over a list")
        if isinstance(f, CallReturn):
            sc = {k: v for k, v in scopes.items() if k != f.callee_scope}
            if kind in ("normal", "return"):
                val = o[1] if kind == "return" else Const(None)
                sc2, pre, st2 = self.dom.assign_eff(self, sc, f.scope, f.targets, val, st, ind)
                return pre + self.resume(rest, NORMAL, sc2, f.scope, st2, ind)
            if kind == "raise":
                return self.resume(rest, o, sc, f.scope, st, ind)
            raise Unsupported(f"{self.ident}: {kind} leaves a helper function")
        if isinstance(f, WithExit):
            # __aexit__: resume the generator at its yield — normally, or by throwing the exception in
            gst = list(f.gstack)
            base = GenFinish(o, f.gscope, f.scope)
            go = o if kind == "raise" else NORMAL
            return self.resume(rest + [base] + gst, go, scopes, f.gscope, st, ind)
        if isinstance(f, GenStart):
            raise Unsupported(f"{self.ident}: generator context manager finished without yielding")
        if isinstance(f, GenFinish):
            # contextlib._AsyncGeneratorContextManager.__aexit__
            body_o = f.outcome
            if kind == "raise":
                # (if it is the very exception that was thrown in, __aexit__ returns False and the with
                # statement re-raises it: the same exception leaves either way)
                return self.resume(rest, o, scopes, f.caller_scope, st, ind)
            if kind in ("normal", "return"):
                if body_o[0] == "raise":
                    # generator swallowed the exception
                    return self.resume(rest, NORMAL, scopes, f.caller_scope, st, ind)
                return self.resume(rest, body_o, scopes, f.caller_scope, st, ind)
            raise Unsupported(f"{self.ident}: {kind} out of a generator context manager")
        raise Unsupported(f"{self.ident}: frame {type(f).__name__}")

    def dispatch(self, handlers, exn, rest, scopes, cur, st, ind):
        """try the handlers in order for the raised `exn`"""
        if not handlers:
            return self.resume(rest, ("raise", exn), scopes, cur, st, ind)
        h = handlers[0]
        if h.type is None:
            m = True
        else:
            m = self.dom.exn_match(exn, ast.unparse(h.type))
        def enter(ind2):
            sc = self.bind(scopes, cur, h.name, exn) if h.name else scopes
            return self.run_stmts(h.body, rest + [Handling(exn, h.name, cur)], sc, cur, st, ind2)
        if m is True:
            return enter(ind)
        if m is False:
            return self.dispatch(handlers[1:], exn, rest, scopes, cur, st, ind)
        a = enter(ind + "  ")
        b = self.dispatch(handlers[1:], exn, rest, scopes, cur, st, ind + "  ")
        return f"{ind}if {m} then\n{a}{ind}else\n{b}"

    # ---------------------------------------------------------------- leaves
    def finish(self, o, scopes, cur, st, ind):
        r = self.dom.finish(self, o)
        if isinstance(r, tuple):          # (state transformer, out): an epilogue on the state
            return f"{ind}({r[0](st)}, {r[1]})\n"
        return f"{ind}({st}, {r})\n"

    def suspend(self, how, node, targets, stack, scopes, cur, st, ind):
        """an await / a top-level yield: the segment ends here"""
        if how == "await":
            kind, pre_st, pre_txt, immediate = self.dom.await_kind(self, node.value, scopes, cur, st, ind)
        else:
            kind, pre_st, pre_txt, immediate = "yield", st, "", None
        if immediate is not None:
            # the awaited call has a synchronous prefix whose outcome the environment decides:
            # (scrutinee, pattern that suspends, state after it, [(pattern, outcome that happens instead)])
            scrut, susp_pat, susp_state, others = immediate
            s2, txt = self.let_state(susp_state, ind + "  ")
            out = f"{ind}match {scrut} with\n{ind}| {susp_pat} =>\n{txt}"
            out += self.suspend_leaf(kind, node, targets, stack, scopes, cur, s2, ind + "  ")
            for pat, outcome in others:
                out += f"{ind}| {pat} =>\n" + self.resume(stack, outcome, scopes, cur, st, ind + "  ")
            return out
        return pre_txt + self.suspend_leaf(kind, node, targets, stack, scopes, cur, pre_st, ind)

    def suspend_leaf(self, kind, node, targets, stack, scopes, cur, pre_st, ind):
        how = "yield" if kind == "yield" else "await"
        # the dynamic values held at this point: frames bottom-up, then locals in first-binding order
        dyn_vals, dyn_docs = [], []
        for f in stack:
            for d in f.dyns():
                dyn_vals.append(d)
                dyn_docs.append(f"pending in a {type(f).__name__} frame")
        live = live_names(stack)
        loc_slots = []
        for sc_name in sorted(scopes):
            for name, v in scopes[sc_name].items():
                if isinstance(v, Dyn) and name in live:
                    loc_slots.append((self.binding_order.get((sc_name, name), 10 ** 6), sc_name, name, v))
        loc_slots.sort(key=lambda t: t[0])
        for _, sc_name, name, v in loc_slots:
            dyn_vals.append(v)
            dyn_docs.append(f"local `{name}`")
        # locals nobody can read any more are dropped (static ones as well: they would only multiply points)
        scopes = {sn: {n: v for n, v in env.items() if n in live} for sn, env in scopes.items()}
        key = (how, kind, node.lineno, node.col_offset, cur, tuple(f.shape() for f in stack),
               tuple((sc_name, tuple((n, v.key()) for n, v in sorted(scopes[sc_name].items())
                                     if not isinstance(v, Dyn))) for sc_name in sorted(scopes)),
               tuple((t[1], t[3].ty) for t in loc_slots), tuple(ast.dump(t) for t in targets))
        p = self.points.get(key)
        if p is None:
            n_same = sum(1 for q in self.order if q.kind == kind)
            p = Point(len(self.order), kind, f"{kind}{n_same}", stack, scopes, cur, node)
            p.field_tys = [d.ty for d in dyn_vals]
            p.field_docs = dyn_docs
            p.targets = targets
            p.loc_slots = [(t[1], t[2]) for t in loc_slots]
            self.points[key] = p
            self.order.append(p)
            self.todo.append(p)
        fields = ", ".join(d.lean for d in dyn_vals)
        loc = f"⟨{fields}⟩" if dyn_vals else "⟨⟩"
        return f"{ind}({pre_st}, .susp_{p.name} {loc})\n"

    # ---------------------------------------------------------------- drivers
    def entry(self, st="s"):
        """residual from the function's entry"""
        self.steps = 0
        scopes = {"fn": {}}
        for n, v in self.params.items():
            scopes = self.bind(scopes, "fn", n, v)
        return self.run_stmts(strip_doc(self.fn.body), [], scopes, "fn", st, "  ")

    def resumption(self, p, st="s"):
        """residual from point `p` for each way of resuming it: list of (pattern, text)"""
        out = []
        vals = iter([Dyn(f"l.d{i}", ty) for i, ty in enumerate(p.field_tys)])
        stack = [f.with_dyns(vals) for f in p.stack]
        scopes = {k: dict(v) for k, v in p.scopes.items()}
        for sc_name, name in p.loc_slots:
            old = scopes[sc_name][name]
            nv = next(vals)
            scopes[sc_name][name] = Dyn(nv.lean, old.ty)
        for pat, mk in self.dom.resumes(self, p):
            self.steps = 0
            st2, outcome, pre = mk("    ", st)
            sc = scopes
            if outcome[0] == "normal" and p.targets:
                sc = self.assign_all(p.targets, outcome[1], scopes, p.cur)
            out.append((pat, pre + self.resume(stack, outcome, sc, p.cur, st2, "    ")))
        return out

    def all_segments(self):
        """-> (entry_text, [(point, [(pattern, text)])]) — runs the worklist to a fixed point"""
        ent = self.entry()
        segs = []
        while self.todo:
            p = self.todo.pop(0)
            segs.append((p, self.resumption(p)))
        return ent, segs


def live_names(stack):
    """names that code still to be run can read (an over-approximation: every Load in the statements held by
    the frames)"""
    names = set()

    def add(stmts):
        for st in stmts:
            for n in ast.walk(st):
                if isinstance(n, ast.Name) and isinstance(n.ctx, ast.Load):
                    names.add(n.id)

    def walk(frames):
        for f in frames:
            if isinstance(f, Seq):
                add(f.stmts)
            elif isinstance(f, (Finally, WhileTrue, ForRange, GenStart)):
                add(f.body)
            elif isinstance(f, WhileCond):
                add(f.body)
                add([ast.Expr(f.test)])
            elif isinstance(f, Except):
                for h in f.handlers:
                    add(h.body)
            elif isinstance(f, WithExit):
                walk(f.gstack)
    walk(stack)
    return names


def strip_doc(body):
    if body and isinstance(body[0], ast.Expr) and isinstance(getattr(body[0], "value", None), ast.Constant) \
            and isinstance(body[0].value.value, str):
        return body[1:]
    return body


def find_func(tree, cls, name):
    for node in ast.walk(tree):
        if cls is None and isinstance(node, (ast.FunctionDef, ast.AsyncFunctionDef)) and node.name == name:
            return node
        if isinstance(node, ast.ClassDef) and node.name == cls:
            for n in node.body:
                if isinstance(n, (ast.FunctionDef, ast.AsyncFunctionDef)) and n.name == name:
                    return n
            raise Unsupported(f"{cls}.{name} not found")
    raise Unsupported(f"{cls}.{name} not found")


def class_defines(tree, cls, name):
    for node in ast.walk(tree):
        if isinstance(node, ast.ClassDef) and node.name == cls:
            return any(isinstance(n, (ast.FunctionDef, ast.AsyncFunctionDef)) and n.name == name for n in node.body)
    raise Unsupported(f"class {cls} not found")
