#!/usr/bin/env python3
"""Regression test of translator/pq2lean.py on constructs the real class does not (yet) use.

Adds methods to a copy of `class PriorityQueue`, translates, checks which ones the translator
refuses, and (with --lean) that everything it accepts elaborates.
usage: translator/test_pq2lean.py [<repo>/src] [--lean]
"""
import re
import subprocess
import sys
import tempfile
from pathlib import Path

HERE = Path(__file__).resolve().parent
sys.path.insert(0, str(HERE))
import pq2lean  # noqa: E402

EXTRA = '''
    def t_tryfin(self) -> None:
        try:
            heapq.heappop(self._pq)
        finally:
            self._sequence = 0

    def t_count(self, key: Callable[[T], bool]) -> int:
        n = 0
        for entry in self._pq:
            if key(entry.obj):
                n += 1
        return n

    def t_nested(self, key: Callable[[T], bool]) -> int:
        n = 0
        for a in self._pq:
            for b in reversed(self._pq):
                if key(b.obj):
                    break
                n += 1
            else:
                n += 100
        return n

    def t_first_two(self, obj: T) -> Optional[P]:
        seen = 0
        for i, entry in enumerate(self._pq):
            if entry.obj == obj:
                seen += 1
                if seen == 2:
                    return entry.priority
        return None

    def t_neg_index(self, i: int) -> T:
        return self._pq[i - 1].obj

    def t_helper(self, p: P) -> None:
        self.add(p, self.pop())

    def t_bad_alias(self, p: P) -> None:
        e = self._pq[0]
        self._pq.pop()
        e.priority = p

    def t_bad_live(self) -> None:
        for entry in self._pq:
            self._pq.append(PriEntry(entry.priority, 0, entry.obj))

    def t_bad_while(self) -> None:
        while self._pq:
            self._pq.pop()

    def t_bad_share(self) -> None:
        self._pq.append(self._pq[0])

    def t_bad_second_name(self) -> None:
        q = self._pq
        q.clear()

    def t_bad_other_queue(self, other: int) -> None:
        c = self.copy()
        c._pq = self._pq

    def t_bad_seq(self) -> None:
        self._sequence -= 1

    def t_bad_attr(self) -> None:
        self._other = 1

    def t_bad_siftup(self) -> None:
        heapq._siftup(self._pq, 0)
'''
REFUSED = {"t_bad_alias", "t_bad_live", "t_bad_while", "t_bad_share", "t_bad_second_name", "t_bad_other_queue",
           "t_bad_seq", "t_bad_attr", "t_bad_siftup"}
ACCEPTED = {"t_tryfin", "t_count", "t_nested", "t_first_two", "t_neg_index", "t_helper"}


def main():
    src = Path(next((a for a in sys.argv[1:] if not a.startswith("--")), "/repo/src"))
    text = (src / "asynkit/tools.py").read_text()
    marker = "\n\nclass PriEntry("
    assert marker in text
    with tempfile.TemporaryDirectory() as d:
        p = Path(d) / "asynkit"
        p.mkdir()
        (p / "tools.py").write_text(text.replace(marker, EXTRA + marker))
        out = pq2lean.generate(Path(d))["PQ.lean"]
    refused = set(re.findall(r"UNSUPPORTED PriorityQueue\.(\w+)", out))
    defined = set(re.findall(r"^def (\w+) \{π", out, re.M))
    ok = True
    for n in sorted(REFUSED):
        if n not in refused:
            print(f"FAIL {n}: should have been refused")
            ok = False
    for n in sorted(ACCEPTED):
        if n not in defined:
            print(f"FAIL {n}: should have been translated")
            ok = False
    extra = {r for r in refused if not r.startswith("t_")}
    if extra:
        print(f"FAIL: methods of the real class refused: {sorted(extra)}")
        ok = False
    if "--lean" in sys.argv and ok:
        lean = HERE.parent / "lean"
        f = lean / ".lake" / "test_pq2lean.lean"
        f.write_text(out)
        r = subprocess.run(["lake", "env", "lean", str(f)], cwd=lean, stdout=subprocess.PIPE, stderr=subprocess.STDOUT, text=True)
        errs = [l for l in r.stdout.split("\n") if "error" in l]
        stubs = [l for l in errs if "Type mismatch" in l]
        if len(errs) != len(refused) or len(stubs) != len(refused):
            print("FAIL: Lean errors other than the refusal stubs:\n" + r.stdout[:3000])
            ok = False
        f.unlink()
    print("ok" if ok else "FAILED")
    return 0 if ok else 1


if __name__ == "__main__":
    sys.exit(main())
