"""interrupt2lean — regenerate `Asynkit/Gen/Interrupt.lean` from the source of

    experimental/interrupt.py : task_throw (Python-task branch), task_interrupt (synchronous prefix)
    scheduling.py             : _task_reinsert, task_switch (synchronous prefix)

as Lean definitions over the Kernel model's state and primitives (`Asynkit/Model/KernelPrims.lean`).
`Asynkit/Lemmas/GenEqC15.lean` proves them equal to the hand-written `Kernel.taskThrow` /
`Kernel.reinsert` the C15 / C09 theorems are about.

The translation is statement by statement, in continuation-passing style (the statements after an
`if` are translated once per branch, so that what a branch learned - "this Optional is not None here" -
and the variables it assigned flow on).  Supported: assignments of the recognised reads / calls, tuple
assignment, `if/else` (incl. `x is None`, truthiness of Optionals, `x and ...`), `assert`,
`raise TypeError/RuntimeError/ValueError(...)` (RuntimeError is classified by its message), calls of the
modelled primitives, `await` of `task_switch` / `asyncio.sleep(0)` / `_sleep_insert` (end of the
synchronous prefix).  The C-task path (`c_task_reschedule`) is out of scope: a branch that calls it is
translated to the error `cTaskNotModelled`.  Everything else raises Unsupported - loudly.
An error carries the state at the moment of the `raise` (`.error (kind, s)`), so that a function which
changes something and *then* refuses is not mistaken for one that refuses first.
"""
import ast
from pathlib import Path


class Unsupported(Exception):
    pass


NOT_INLINED = {"c_task_reschedule", "future_find_task_callback", "task_throw", "_task_reinsert"}
RUNTIME_ERRORS = [("done", "done"), ("cancelled", "cancelled"), ("self", "self")]
OPT_KINDS = {"optfut": "fut", "optstep": "step", "opthandle": "handle", "optnat": "nat"}
TRUTHY_KINDS = {"fut", "step", "handle", "wakeup"}     # objects that are always true


def _doc_free(fn):
    body = fn.body
    if body and isinstance(body[0], ast.Expr) and isinstance(body[0].value, ast.Constant) \
            and isinstance(body[0].value.value, str):
        body = body[1:]
    return body


def _find(tree, name):
    for node in tree.body:
        if isinstance(node, (ast.FunctionDef, ast.AsyncFunctionDef)) and node.name == name:
            return node
    raise Unsupported(f"function {name} not found")


def _is_none(e):
    return isinstance(e, ast.Constant) and e.value is None


class Fn:
    """translator of one function body"""

    def __init__(self, known_calls, consts, result="state", module=None):
        self.known = known_calls      # python function name -> (lean name, arg kinds, async?)
        self.consts = consts          # module constants -> lean Bool term
        self.result = result          # "state": Except E State ; "susp": Except E (State × Susp)
        self.fresh = 0
        self.depth = 0
        # module-level synchronous functions that may be inlined at their call sites
        self.helpers = {}
        for node in (module.body if module is not None else []):
            if isinstance(node, ast.FunctionDef) and node.name not in NOT_INLINED:
                self.helpers[node.name] = node

    def top(self, stmts, env, ind):
        """translate a whole function body; falling off the end / `return` = success"""
        def done(ret, ind2):
            if self.result != "state":
                raise Unsupported("an async prefix returned without awaiting")
            return f"{ind2}.ok s"
        return self.block(stmts, env, ind, done)

    # ---------------------------------------------------------------- expressions
    def val(self, e, env):
        """-> (kind, lean term) of a value expression"""
        if isinstance(e, ast.Name):
            if e.id in env:
                return env[e.id]
            raise Unsupported(f"unknown name {e.id}")
        if _is_none(e):
            return ("none", "none")
        if isinstance(e, ast.Constant) and isinstance(e.value, int) and not isinstance(e.value, bool) \
                and e.value >= 0:
            return ("nat", str(e.value))
        if isinstance(e, ast.Attribute) and isinstance(e.value, ast.Name) and e.value.id in env:
            k, t = env[e.value.id]
            if k == "task":
                if e.attr == "_fut_waiter":
                    return ("optfut", f"(s.tasks {t}).futWaiter")
                if e.attr == "_Task__wakeup":
                    return ("wakeup", f"(Cb.wake {t})")
                if e.attr == "_Task__step":
                    return ("step", t)
                if e.attr == "_context":
                    return ("ctxt", "()")
            raise Unsupported(f"attribute .{e.attr} of a {k}")
        if isinstance(e, ast.IfExp) and isinstance(e.test, ast.Name) and e.test.id in self.consts \
                and _is_none(e.orelse):
            k, t = self.val(e.body, env)
            if k != "ctxt":
                raise Unsupported("conditional expression on a module constant (only the context)")
            return (k, t)
        if isinstance(e, ast.Call):
            f = e.func
            if isinstance(f, ast.Name) and f.id == "getattr" and len(e.args) == 3 \
                    and isinstance(e.args[1], ast.Constant) and e.args[1].value == "_Task__step" \
                    and _is_none(e.args[2]):
                k, t = self.val(e.args[0], env)
                if k != "task":
                    raise Unsupported("getattr(.., '_Task__step', None) of a non-task")
                return ("optstep", f"(stepMethod s {t})")
            if isinstance(f, ast.Attribute) and f.attr == "task_key" and len(e.args) == 1 and not e.keywords \
                    and self.val(f.value, env)[0] == "schedloop":
                k, t = self.val(e.args[0], env)
                if k != "task":
                    raise Unsupported("task_key of a non-task")
                return ("taskkey", t)
            if isinstance(f, ast.Attribute) and f.attr == "current_task" and not e.args and not e.keywords:
                return ("curtask", "(current s)")
            if isinstance(f, ast.Attribute) and f.attr == "get_loop" and not e.args:
                if self.val(f.value, env)[0] != "task":
                    raise Unsupported("get_loop() of a non-task")
                return ("loop", "()")
            if isinstance(f, ast.Name) and f.id == "get_scheduling_loop" and len(e.args) <= 1 and not e.keywords:
                if e.args and self.val(e.args[0], env)[0] != "loop":
                    raise Unsupported("get_scheduling_loop(x) of a non-loop")
                return ("schedloop", "()")
        raise Unsupported(f"value expression {ast.dump(e)[:90]}")

    def cond(self, e, env):
        """-> lean Bool term"""
        if isinstance(e, ast.UnaryOp) and isinstance(e.op, ast.Not):
            return f"(!{self.cond(e.operand, env)})"
        if isinstance(e, ast.BoolOp) and isinstance(e.op, ast.Or):
            return "(" + " || ".join(self.cond(v, env) for v in e.values) + ")"
        if isinstance(e, ast.BoolOp) and isinstance(e.op, ast.And):
            first, rest = e.values[0], e.values[1:]
            rest_e = rest[0] if len(rest) == 1 else ast.BoolOp(op=ast.And(), values=rest)
            fname = self.opt_name(first, env)
            if fname:
                k, t = env[fname]
                v = self.new(fname)
                inner = self.cond(rest_e, {**env, fname: (OPT_KINDS[k], v)})
                return f"(match {t} with | none => false | some {v} => {inner})"
            return f"({self.cond(first, env)} && {self.cond(rest_e, env)})"
        if isinstance(e, ast.Name):
            if e.id in self.consts:
                return self.consts[e.id]
            if e.id in env:
                k, t = env[e.id]
                if k in OPT_KINDS:
                    return f"{t}.isSome"
                if k in TRUTHY_KINDS:
                    return "true"
            raise Unsupported(f"truth value of {e.id}")
        if isinstance(e, ast.Compare) and len(e.ops) == 1 and isinstance(e.ops[0], (ast.Is, ast.IsNot)):
            neg = isinstance(e.ops[0], ast.IsNot)
            a, b = e.left, e.comparators[0]
            if _is_none(b) and isinstance(a, ast.Name) and a.id in env:
                k, t = env[a.id]
                if k in OPT_KINDS:
                    return f"{t}.isSome" if neg else f"{t}.isNone"
                if k in TRUTHY_KINDS:
                    return "true" if neg else "false"
            try:
                ka, kb = self.val(a, env), self.val(b, env)
            except Unsupported:
                ka = kb = (None, None)
            if ka[0] == "curtask" and kb[0] == "task":
                ka, kb = kb, ka
            if ka[0] == "task" and kb[0] == "curtask":
                r = f"({kb[1]} == some {ka[1]})"
                return f"(!{r})" if neg else r
            raise Unsupported(f"identity test {ast.dump(e)[:80]}")
        if isinstance(e, ast.Call):
            f = e.func
            if isinstance(f, ast.Name) and f.id == "isinstance" and len(e.args) == 2 \
                    and isinstance(e.args[1], ast.Name) and e.args[1].id == "BaseException" \
                    and self.val(e.args[0], env)[0] == "exc":
                return f"(isBaseException {self.val(e.args[0], env)[1]})"
            if isinstance(f, ast.Attribute) and not e.args and not e.keywords:
                k, t = self.val(f.value, env)
                if k == "task" and f.attr == "done":
                    return f"(s.tasks {t}).done"
                if k == "fut" and f.attr == "done":
                    return f"(futDone s {t})"
                if k == "fut" and f.attr == "cancelled":
                    return f"(futCancelled s {t})"
                raise Unsupported(f".{f.attr}() of a {k}" + (" that may be None" if k in OPT_KINDS else ""))
        if isinstance(e, ast.Attribute) and isinstance(e.value, ast.Name) and e.value.id in env \
                and env[e.value.id][0] == "task" and e.attr == "_must_cancel":
            return f"(s.tasks {env[e.value.id][1]}).mustCancel"
        raise Unsupported(f"condition {ast.dump(e)[:90]}")

    @staticmethod
    def opt_name(e, env):
        """`x` or `x is not None` for an Optional local x -> its name"""
        if isinstance(e, ast.Compare) and len(e.ops) == 1 and isinstance(e.ops[0], ast.IsNot) \
                and _is_none(e.comparators[0]):
            e = e.left
        if isinstance(e, ast.Name) and e.id in env and env[e.id][0] in OPT_KINDS:
            return e.id
        return None

    def new(self, base):
        self.fresh += 1
        return f"{base}_{self.fresh}"

    # ---------------------------------------------------------------- statements (CPS)
    def block(self, stmts, env, ind, cont):
        """statements in continuation-passing style; `cont(ret, ind)` is what happens when the function
        returns `ret` = (kind, lean term) - for an inlined helper: the rest of its caller"""
        if not stmts:
            return cont(("none", "none"), ind)
        st, rest = stmts[0], stmts[1:]
        p = ind
        if isinstance(st, ast.Expr) and isinstance(st.value, ast.Constant) and isinstance(st.value.value, str):
            return self.block(rest, env, ind, cont)
        if isinstance(st, ast.Pass):
            return self.block(rest, env, ind, cont)
        if isinstance(st, ast.Raise):
            return f"{p}.error (.{self.error_of(st)}, s)"
        if isinstance(st, ast.Return):
            if st.value is None:
                return cont(("none", "none"), ind)
            if isinstance(st.value, ast.Call) and isinstance(st.value.func, ast.Name) \
                    and st.value.func.id in self.helpers:
                return self.inline(st.value, env, ind, cont)
            return cont(self.val(st.value, env), ind)
        if isinstance(st, ast.Assert):
            return (f"{p}if {self.cond(st.test, env)} then\n{self.block(rest, env, ind + '  ', cont)}\n"
                    f"{p}else\n{p}  .error (.assertion, s)")
        if isinstance(st, ast.If):
            return self.if_(st, rest, env, ind, cont)
        if isinstance(st, (ast.Assign, ast.AnnAssign)):
            tgt = st.targets[0] if isinstance(st, ast.Assign) else st.target
            if isinstance(st, ast.Assign) and len(st.targets) != 1:
                raise Unsupported("chained assignment")
            return self.assign(tgt, st.value, rest, env, ind, cont)
        if isinstance(st, ast.Expr) and isinstance(st.value, ast.Await):
            return self.await_(st.value.value, rest, env, ind)
        if isinstance(st, ast.Expr) and isinstance(st.value, ast.Call):
            return self.call_stmt(st.value, rest, env, ind, cont)
        raise Unsupported(f"statement {type(st).__name__}: {ast.dump(st)[:80]}")

    def inline(self, call, env, ind, cont):
        """a call of a module-level helper: translate its body here, its parameters bound to the
        arguments, `return v` continuing with `cont(v)`, `raise` ending the caller as well"""
        fn = self.helpers[call.func.id]
        if self.depth >= 4:
            raise Unsupported(f"helper calls nested too deeply at {fn.name}")
        a = fn.args
        if a.vararg or a.kwarg or a.kwonlyargs or a.posonlyargs:
            raise Unsupported(f"helper {fn.name} with a signature that is not plain positional")
        params = [x.arg for x in a.args]
        given = {}
        if len(call.args) > len(params):
            raise Unsupported(f"too many arguments for {fn.name}")
        for name, arg in zip(params, call.args):
            given[name] = self.val(arg, env)
        for kw in call.keywords:
            if kw.arg not in params or kw.arg in given:
                raise Unsupported(f"keyword argument {kw.arg} of {fn.name}")
            given[kw.arg] = self.val(kw.value, env)
        defaults = dict(zip(params[len(params) - len(a.defaults):], a.defaults))
        for name in params:
            if name not in given:
                if name not in defaults:
                    raise Unsupported(f"missing argument {name} of {fn.name}")
                given[name] = self.val(defaults[name], {})
        self.depth += 1
        try:
            return self.block(_doc_free(fn), given, ind, cont)
        finally:
            self.depth -= 1

    def error_of(self, st):
        exc = st.exc
        if isinstance(exc, ast.Call) and isinstance(exc.func, ast.Name):
            name = exc.func.id
            msg = exc.args[0].value if exc.args and isinstance(exc.args[0], ast.Constant) else ""
            if name == "TypeError":
                return "typeError"
            if name == "ValueError":
                return "valueError"
            if name == "RuntimeError":
                for word, ctor in RUNTIME_ERRORS:
                    if word in str(msg):
                        return ctor
                raise Unsupported(f"RuntimeError with an unknown message {msg!r}")
        raise Unsupported(f"raise {ast.dump(st)[:80]}")

    def if_(self, st, rest, env, ind, cont):
        p = ind
        test = st.test
        then, other = list(st.body) + rest, list(st.orelse) + rest
        # x is None / x is not None / x / not x   for an Optional local: learn the value in the branch
        neg = False
        t0 = test
        if isinstance(t0, ast.UnaryOp) and isinstance(t0.op, ast.Not):
            neg, t0 = True, t0.operand
        name = None
        if isinstance(t0, ast.Name):
            name, truthy = t0.id, not neg
        elif isinstance(t0, ast.Compare) and len(t0.ops) == 1 and isinstance(t0.ops[0], (ast.Is, ast.IsNot)) \
                and _is_none(t0.comparators[0]) and isinstance(t0.left, ast.Name):
            name = t0.left.id
            truthy = isinstance(t0.ops[0], ast.IsNot) != neg
        if name is not None and name in env and env[name][0] in OPT_KINDS:
            k, t = env[name]
            v = self.new(name)
            some_env = {**env, name: (OPT_KINDS[k], v)}
            some_b, none_b = (then, other) if truthy else (other, then)
            return (f"{p}match {t} with\n{p}| none =>\n{self.block(none_b, env, ind + '  ', cont)}\n"
                    f"{p}| some {v} =>\n{self.block(some_b, some_env, ind + '  ', cont)}")
        # not x or rest / x is None or rest: the same decision as `x and not rest` with the branches swapped
        if isinstance(test, ast.BoolOp) and isinstance(test.op, ast.Or) and len(test.values) >= 2:
            f0 = test.values[0]
            inner = None
            if isinstance(f0, ast.UnaryOp) and isinstance(f0.op, ast.Not):
                inner = f0.operand
            elif isinstance(f0, ast.Compare) and len(f0.ops) == 1 and isinstance(f0.ops[0], ast.Is) \
                    and _is_none(f0.comparators[0]):
                inner = f0.left
            if inner is not None and self.opt_name(inner, env):
                r = test.values[1:]
                rest_e = r[0] if len(r) == 1 else ast.BoolOp(op=ast.Or(), values=r)
                swapped = ast.If(test=ast.BoolOp(op=ast.And(), values=[inner, ast.UnaryOp(op=ast.Not(), operand=rest_e)]),
                                 body=list(st.orelse) or [ast.Pass()], orelse=list(st.body))
                return self.if_(swapped, rest, env, ind, cont)
        # x and rest / x is not None and rest  (x an Optional local): inside the body x is the value
        if isinstance(test, ast.BoolOp) and isinstance(test.op, ast.And) and self.opt_name(test.values[0], env):
            name = self.opt_name(test.values[0], env)
            k, t = env[name]
            v = self.new(name)
            some_env = {**env, name: (OPT_KINDS[k], v)}
            r = test.values[1:]
            rest_e = r[0] if len(r) == 1 else ast.BoolOp(op=ast.And(), values=r)
            return (f"{p}match {t} with\n{p}| none =>\n{self.block(other, env, ind + '  ', cont)}\n"
                    f"{p}| some {v} =>\n{p}  if {self.cond(rest_e, some_env)} then\n"
                    f"{self.block(then, some_env, ind + '    ', cont)}\n{p}  else\n{self.block(other, env, ind + '    ', cont)}")
        return (f"{p}if {self.cond(test, env)} then\n{self.block(then, env, ind + '  ', cont)}\n"
                f"{p}else\n{self.block(other, env, ind + '  ', cont)}")

    def assign(self, tgt, value, rest, env, ind, cont):
        p = ind
        if isinstance(tgt, ast.Tuple):
            if isinstance(value, ast.Call) and isinstance(value.func, ast.Name) \
                    and value.func.id == "c_task_reschedule":
                return f"{p}.error (.cTaskNotModelled, s)   -- c_task_reschedule: out of scope"
            if isinstance(value, ast.Tuple) and len(value.elts) == len(tgt.elts):
                vals = [self.val(v, env) for v in value.elts]       # evaluated before any binding
                env2 = dict(env)
                for t, kv in zip(tgt.elts, vals):
                    if not isinstance(t, ast.Name):
                        raise Unsupported("tuple target")
                    env2[t.id] = kv
                return self.block(rest, env2, ind, cont)
            raise Unsupported("tuple assignment")
        if isinstance(tgt, ast.Attribute) and isinstance(tgt.value, ast.Name) and tgt.value.id in env \
                and env[tgt.value.id][0] == "task" and tgt.attr == "_fut_waiter":
            k, t = self.val(value, env)
            if k == "none":
                w = "none"
            elif k == "fut":
                w = f"(some {t})"
            elif k == "optfut":
                w = t
            else:
                raise Unsupported("_fut_waiter := a non-future")
            return f"{p}let s := setFutWaiter s {env[tgt.value.id][1]} {w}\n{self.block(rest, env, ind, cont)}"
        if not isinstance(tgt, ast.Name):
            raise Unsupported(f"assignment target {ast.dump(tgt)[:60]}")
        # x = helper(...): inline, the rest of this function is the continuation of its `return`
        if isinstance(value, ast.Call) and isinstance(value.func, ast.Name) and value.func.id in self.helpers:
            return self.inline(value, env, ind,
                               lambda ret, ind2: self.block(rest, {**env, tgt.id: ret}, ind2, cont))
        # queue_find(task_key(task), remove=True): the one primitive that returns a value *and* changes state
        if isinstance(value, ast.Call) and isinstance(value.func, ast.Attribute) and value.func.attr == "queue_find":
            if self.val(value.func.value, env)[0] != "schedloop":
                raise Unsupported("queue_find on something that is not the scheduling loop")
            args = list(value.args)
            kws = {k.arg: k.value for k in value.keywords}
            key = args[0] if args else kws.get("key")
            rm = kws.get("remove", args[1] if len(args) > 1 else None)
            if not (isinstance(rm, ast.Constant) and rm.value is True):
                raise Unsupported("queue_find without remove=True")
            if key is None:
                raise Unsupported("queue_find without a key")
            k, t = self.val(key, env)
            if k != "taskkey":
                raise Unsupported("queue_find with a key other than task_key(task)")
            r = self.new("found")
            h = self.new(tgt.id)
            env2 = {**env, tgt.id: ("opthandle", h)}
            return (f"{p}let {r} := queueFindRemove s {t}\n{p}let {h} := {r}.1\n{p}let s := {r}.2\n"
                    f"{self.block(rest, env2, ind, cont)}")
        k, t = self.val(value, env)
        if k in ("loop", "schedloop", "ctxt", "none", "taskkey"):
            return self.block(rest, {**env, tgt.id: (k, t)}, ind, cont)
        if isinstance(value, ast.Name):          # alias
            return self.block(rest, {**env, tgt.id: (k, t)}, ind, cont)
        v = self.new(tgt.id)                     # fresh: an inlined helper must not capture a caller's name
        return f"{p}let {v} := {t}\n{self.block(rest, {**env, tgt.id: (k, v)}, ind, cont)}"

    def bind(self, call, rest, env, ind, lean, kinds, cont):
        p = ind
        if len(call.args) != len(kinds) or call.keywords:
            raise Unsupported(f"call of {lean} with unexpected arguments")
        args = []
        for a, want in zip(call.args, kinds):
            k, t = self.val(a, env)
            if want is None:
                continue
            if k != want:
                raise Unsupported(f"argument of {lean}: expected {want}, got {k}")
            args.append(t)
        return (f"{p}match {lean} s {' '.join(args)} with\n{p}| .error e => .error e\n{p}| .ok s =>\n"
                f"{self.block(rest, env, ind + '  ', cont)}")

    def call_stmt(self, call, rest, env, ind, cont):
        p = ind
        f = call.func
        if isinstance(f, ast.Name) and f.id in self.known and not self.known[f.id][2]:
            lean, kinds, _ = self.known[f.id]
            return self.bind(call, rest, env, ind, lean, kinds, cont)
        if isinstance(f, ast.Name) and f.id in self.helpers:
            return self.inline(call, env, ind, lambda ret, ind2: self.block(rest, env, ind2, cont))
        if isinstance(f, ast.Attribute):
            k, t = self.val(f.value, env)
            if f.attr == "remove_done_callback" and k == "fut" and len(call.args) == 1 and not call.keywords:
                ck, ct = self.val(call.args[0], env)
                if ck != "wakeup":
                    raise Unsupported("remove_done_callback of something that is not the task's __wakeup")
                return f"{p}let s := removeDoneCallback s {t} {ct}\n{self.block(rest, env, ind, cont)}"
            if f.attr == "call_soon" and k == "loop" and len(call.args) == 2:
                for kw in call.keywords:
                    if kw.arg != "context" or self.val(kw.value, env)[0] != "ctxt":
                        raise Unsupported("call_soon keyword")
                ck, ct = self.val(call.args[0], env)
                ak, at = self.val(call.args[1], env)
                if ck != "step" or ak != "exc":
                    raise Unsupported(f"call_soon({ck}, {ak}): only (task.__step, exception) is modelled")
                return f"{p}let s := callSoon s (Handle.step {ct} (some {at}))\n{self.block(rest, env, ind, cont)}"
            if f.attr == "queue_insert_pos" and k == "schedloop" and len(call.args) == 2 and not call.keywords:
                hk, ht = self.val(call.args[0], env)
                pk, pt = self.val(call.args[1], env)
                if hk != "handle" or pk != "nat":
                    raise Unsupported(f"queue_insert_pos({hk}, {pk})")
                return f"{p}let s := queueInsertPos s {ht} {pt}\n{self.block(rest, env, ind, cont)}"
        raise Unsupported(f"call statement {ast.dump(call)[:90]}")

    def await_(self, e, rest, env, ind):
        p = ind
        if not isinstance(e, ast.Call):
            raise Unsupported("await of a non-call")
        f = e.func
        if isinstance(f, ast.Attribute) and f.attr == "sleep" and len(e.args) == 1 \
                and isinstance(e.args[0], ast.Constant) and e.args[0].value == 0:
            return f"{p}.ok (s, Susp.sleep0)      -- first suspension: end of the synchronous prefix"
        if isinstance(f, ast.Name) and f.id == "_sleep_insert":
            return f"{p}.ok (s, Susp.sleepInsert)"
        if isinstance(f, ast.Name) and f.id in self.known and self.known[f.id][2]:
            lean, kinds, _ = self.known[f.id]
            args = []
            for a, want in zip(e.args, kinds):
                k, t = self.val(a, env)
                if k != want:
                    raise Unsupported(f"argument of {lean}")
                args.append(t)
            extra = " none" * (len(kinds) - len(e.args))      # defaulted Optional parameters
            if e.keywords:
                raise Unsupported("keyword arguments of an awaited prefix")
            return f"{p}{lean} s {' '.join(args)}{extra}      -- the prefix of the awaited coroutine is the rest"
        raise Unsupported(f"await {ast.dump(e)[:80]}")


def generate(src: Path) -> dict:
    """-> {"Interrupt.lean": text}.  A construct outside the supported subset is reported loudly and
    yields a file that does not compile, so that exactly the obligations depending on it break."""
    try:
        return _generate(src)
    except Unsupported as e:
        print(f"interrupt2lean: CANNOT TRANSLATE: {e}")
        msg = str(e).replace("-/", "- /")
        return {"Interrupt.lean": "-- GENERATED by translator/interrupt2lean.py — TRANSLATION FAILED\n"
                f"/- {msg} -/\nimport Asynkit.Model.KernelPrims\nnamespace Asynkit.Gen.Intr\n"
                "def taskThrow := unsupported_python_construct_see_comment_above\nend Asynkit.Gen.Intr\n"}


def _generate(src: Path) -> dict:
    itree = ast.parse((src / "asynkit/experimental/interrupt.py").read_text())
    stree = ast.parse((src / "asynkit/scheduling.py").read_text())
    consts = {"_have_context": "haveContext"}
    for node in itree.body:      # the constant must still be what we think it is
        if isinstance(node, ast.Assign) and isinstance(node.targets[0], ast.Name) \
                and node.targets[0].id == "_have_context":
            v = node.value
            if not (isinstance(v, ast.Compare) and isinstance(v.left, ast.Attribute) and v.left.attr == "version_info"):
                raise Unsupported("_have_context is no longer a version test")

    # scheduling._task_reinsert(loop, task, pos)
    fr = _find(stree, "_task_reinsert")
    a = [x.arg for x in fr.args.args]
    if len(a) != 3:
        raise Unsupported("_task_reinsert signature")
    reinsert = Fn({}, consts, module=stree).top(_doc_free(fr), {a[0]: ("schedloop", "()"), a[1]: ("task", "task"),
                                                    a[2]: ("nat", "pos")}, "  ")
    # scheduling.task_switch(task, insert_pos=None): synchronous prefix
    fs = _find(stree, "task_switch")
    a = [x.arg for x in fs.args.args]
    if len(a) != 2 or not isinstance(fs, ast.AsyncFunctionDef):
        raise Unsupported("task_switch signature")
    known = {"_task_reinsert": ("taskReinsert", ["schedloop", "task", "nat"], False)}
    known["_task_reinsert"] = ("taskReinsert", [None, "task", "nat"], False)
    switch = Fn(known, consts, result="susp", module=stree).top(
        _doc_free(fs), {a[0]: ("task", "task"), a[1]: ("optnat", "insert_pos")}, "  ")
    # interrupt.task_throw(task, exception)
    ft = _find(itree, "task_throw")
    a = [x.arg for x in ft.args.args]
    if len(a) != 2 or isinstance(ft, ast.AsyncFunctionDef):
        raise Unsupported("task_throw signature")
    throw = Fn({}, consts, module=itree).top(_doc_free(ft), {a[0]: ("task", "task"), a[1]: ("exc", "exception")}, "  ")
    # interrupt.task_interrupt(task, exception): synchronous prefix
    fi = _find(itree, "task_interrupt")
    a = [x.arg for x in fi.args.args]
    if len(a) != 2 or not isinstance(fi, ast.AsyncFunctionDef):
        raise Unsupported("task_interrupt signature")
    known2 = {"task_throw": ("taskThrow", ["task", "exc"], False),
              "task_switch": ("taskSwitchPrefix", ["task", "optnat"], True)}
    intr = Fn(known2, consts, result="susp", module=itree).top(
        _doc_free(fi), {a[0]: ("task", "task"), a[1]: ("exc", "exception")}, "  ")

    text = f"""-- GENERATED by translator/interrupt2lean.py from src/asynkit/experimental/interrupt.py and
-- src/asynkit/scheduling.py — do not edit
import Asynkit.Model.KernelPrims
set_option linter.unusedVariables false
namespace Asynkit.Gen.Intr
open Asynkit.Kernel

/-- `scheduling._task_reinsert(loop, task, pos)` -/
def taskReinsert (s : State) (task : TaskId) (pos : Nat) : Except (ThrowErr × State) State :=
{reinsert}

/-- `scheduling.task_switch(task, insert_pos)` up to its first suspension -/
def taskSwitchPrefix (s : State) (task : TaskId) (insert_pos : Option Nat) : Except (ThrowErr × State) (State × Susp) :=
{switch}

/-- `interrupt.task_throw(task, exception)`; the C-task path is not modelled -/
def taskThrow (s : State) (task : TaskId) (exception : Exc) : Except (ThrowErr × State) State :=
{throw}

/-- `interrupt.task_interrupt(task, exception)` up to its first suspension -/
def taskInterruptPrefix (s : State) (task : TaskId) (exception : Exc) : Except (ThrowErr × State) (State × Susp) :=
{intr}
end Asynkit.Gen.Intr
"""
    return {"Interrupt.lean": text}


if __name__ == "__main__":
    import sys
    print(generate(Path(sys.argv[1]))["Interrupt.lean"])
