#!/usr/bin/env python3
"""Regression set for the translational tie of the scheduling code (units `Gen/Sched.lean` —
deque_pop, queue_find, call_pos, task predicates — and `Gen/SchedOps.lean` — scheduling.py, the
loop classes, task_from_handle): behaviour-preserving refactorings that must keep
`Asynkit.Lemmas.GenEqC08`, `GenEqSched` and `GenEqC09` proving, and (with --break) semantic
changes that must NOT.

For every `translator/harmless_sched/*.diff` (and every `harmless/*/patch.diff` that touches the
translated files): scratch copy of the repository's HEAD, `git apply`, regenerate
`lean/Asynkit/Gen` from it, `lake build` of the three GenEq files.  `translator/harmless_sched/
breaking/*.diff` are the semantic changes (expected: translator refuses or an equality breaks).
The generated files of the real repository are restored at the end.  Exit 0 iff every refactoring
translates and proves and every breaking change is refused or breaks a proof.

usage: translator/check_harmless_sched.py [--break] [name-substring ...]
"""
import os
import re
import subprocess
import sys
import tempfile
from pathlib import Path

ROOT = Path(__file__).resolve().parent.parent
REPO = Path(os.environ.get("GENSCHED_BASE_REPO", "/repo"))
TARGETS = ["Asynkit.Lemmas.GenEqC08", "Asynkit.Lemmas.GenEqSched", "Asynkit.Lemmas.GenEqC09"]
FILES = ("src/asynkit/scheduling.py", "src/asynkit/loop/default.py", "src/asynkit/loop/eventloop.py",
         "src/asynkit/loop/extensions.py")
UNITS = ("deque_pop, queue_find, call_pos, task predicates", "scheduling ops")


def sh(cmd, **kw):
    p = subprocess.run(cmd, stdout=subprocess.PIPE, stderr=subprocess.STDOUT, text=True, **kw)
    return p.returncode, p.stdout


def judge(patch):
    """-> ("proves" | "refused" | "breaks" | "noapply", detail)"""
    with tempfile.TemporaryDirectory(prefix="harmless_sched_") as d:
        subprocess.run(f"git -C {REPO} archive HEAD | tar -x -C {d}", shell=True, check=True)
        rc, out = sh(["git", "apply", str(patch)], cwd=d)
        if rc:
            return "noapply", out.strip()[:200]
        rc, out = sh([sys.executable, str(ROOT / "translator/py2lean.py"), f"{d}/src", str(ROOT / "lean/Asynkit/Gen")])
        uns = [m for u in UNITS for m in re.findall(r"CANNOT TRANSLATE \[" + re.escape(u) + r"\]: (.*)", out)]
        if uns:
            return "refused", "; ".join(u[:160] for u in uns)
        rc, out = sh(["lake", "build"] + TARGETS, cwd=ROOT / "lean")
        if rc:
            errs = re.findall(r"error: (Asynkit/\S+?:\d+):\d+: (.*)", out)
            return "breaks", "; ".join(f"{w} {m[:60]}" for w, m in errs[:4])
        return "proves", ""


def main():
    args = [a for a in sys.argv[1:] if not a.startswith("--")]
    harmless = sorted((ROOT / "translator/harmless_sched").glob("*.diff"))
    harmless += [p for p in sorted((ROOT / "harmless").glob("*/patch.diff")) if any(f in p.read_text() for f in FILES)]
    breaking = sorted((ROOT / "translator/harmless_sched/breaking").glob("*.diff")) if "--break" in sys.argv else []
    if args:
        harmless = [p for p in harmless if any(a in str(p) for a in args)]
        breaking = [p for p in breaking if any(a in str(p) for a in args)]
    bad = 0
    try:
        for p in harmless:
            name = p.stem if p.parent.name == "harmless_sched" else f"harmless/{p.parent.name}"
            verdict, detail = judge(p)
            ok = verdict == "proves"
            bad += not ok
            print(f"{name}: " + ("translates and proves" if ok else f"{verdict.upper()}: {detail}"), flush=True)
        for p in breaking:
            verdict, detail = judge(p)
            ok = verdict in ("refused", "breaks")
            bad += not ok
            print(f"breaking/{p.stem}: " + (f"{verdict}: {detail[:150]}" if ok else f"NOT DETECTED ({verdict})"), flush=True)
    finally:
        sh([sys.executable, str(ROOT / "translator/py2lean.py"), str(REPO / "src"), str(ROOT / "lean/Asynkit/Gen")])
    print(f"check_harmless_sched: {bad} problem(s)")
    return 1 if bad else 0


if __name__ == "__main__":
    sys.exit(main())
