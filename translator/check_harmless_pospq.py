#!/usr/bin/env python3
"""Regression set for the PosPriorityQueue translation tie: behaviour-preserving refactorings of
`asynkit/experimental/priority.py` (translator/harmless_pospq/*.diff, against the repository HEAD) must
still translate and `Lemmas/GenEqPosPQ.lean` must still prove every generated method equal to the model.

For each diff: copy <repo>/src, apply the diff, (1) run a deterministic operation script against the
original and the patched class and compare the traces (the refactoring really is harmless), (2) run
the translator on the patched tree and build `Asynkit.Lemmas.GenEqPosPQ`.  Afterwards the generated files
are restored from <repo>/src.

usage: check_harmless_pospq.py [repo] [extra.diff …]       (repo defaults to $ASYNKIT_REPO or /repo)
exit status 0 iff every refactoring is behaviour-preserving, translates and proves.
"""
import fcntl
import os
import shutil
import subprocess
import sys
import tempfile
from pathlib import Path

HERE = Path(__file__).resolve().parent
ROOT = HERE.parent
LEAN = ROOT / "lean"

TRACE = r'''
import random, sys
import asynkit.experimental.priority as P
rng = random.Random(7)
P.random.random = lambda: 0.75           # the draw of compute_priority_boost
pri = {}
q = P.PosPriorityQueue(lambda o: pri.get(o, 0.0))
out = []
def snap():
    return (len(q), bool(q), q.n_inserted, q.n_removed, q.last_maintenance,
            [(e.priority.base_priority, e.priority.priority_boost, e.priority.priority_class,
              e.priority.inserted_at, e.sequence, e.obj) for e in q._pq._pq])
n = 0
for step in range(6000):
    r = rng.random()
    live = [e.obj for e in q._pq._pq]
    try:
        if r < 0.30:
            n += 1; pri[n] = float(rng.choice([-1, 0, 1, 2, 5])); q.append(n); res = None
        elif r < 0.40:
            n += 1; q.append_pri(n, float(rng.choice([-2, 0, 3, 7]))); res = None
        elif r < 0.47:
            n += 1; q.insert(rng.choice([0, 1, 2, 5]), n); res = None
        elif r < 0.80:
            res = q.popleft()
        elif r < 0.84:
            res = q.remove(rng.choice(live + [-1]))
        elif r < 0.88:
            t = rng.choice(live + [-1]); res = q.find(lambda o: o == t, rng.random() < 0.5)
        elif r < 0.93:
            t = rng.choice(live + [-1]); res = q.reschedule(lambda o: o == t, float(rng.choice([-3, 0, 4])))
        elif r < 0.95:
            for o in live: pri[o] = float(rng.choice([-1, 0, 1, 6]))
            res = q.reschedule_all()
        elif r < 0.98:
            res = list(q)
        elif r < 0.985:
            res = q.clear()
        else:
            res = q.compute_priority_boost(3.0, 1.0, 9.0)
    except (IndexError, ValueError) as e:
        res = type(e).__name__
    out.append((step, res, snap()))
# a long busy period so that maintenance runs and boosts
for i in range(400):
    n += 1; pri[n] = 10.0 if i % 50 == 0 else 0.0; q.append(n)
    if i % 3: out.append((q.popleft(), snap()))
sys.stdout.write(repr(out))
'''


def sh(cmd, **kw):
    r = subprocess.run(cmd, capture_output=True, text=True, **kw)
    return r.returncode, r.stdout + r.stderr


def trace(src):
    env = dict(os.environ, PYTHONPATH=str(src), PYTHONHASHSEED="0")
    rc, out = sh([sys.executable, "-c", TRACE], env=env)
    return rc, out


def build(src):
    rc1, out1 = sh([sys.executable, str(HERE / "py2lean.py"), str(src), str(LEAN / "Asynkit" / "Gen")])
    uns = [ln for ln in out1.split("\n") if "UNSUPPORTED" in ln or "CANNOT TRANSLATE" in ln]
    rc2, out2 = sh(["lake", "build", "Asynkit.Lemmas.GenEqPosPQ"], cwd=LEAN)
    errs = [ln for ln in out2.split("\n") if "error" in ln]
    return rc2 == 0 and not uns, uns[:2] + errs[:3]


def label(d):
    return d.name if d.parent == HERE / "harmless_pospq" else f"{d.parent.name}/{d.name}"


def main():
    args = sys.argv[1:]
    repo = Path(args[0]) if args and not args[0].endswith(".diff") else Path(os.environ.get("ASYNKIT_REPO", "/repo"))
    diffs = sorted((HERE / "harmless_pospq").glob("*.diff")) + [Path(a).resolve() for a in args if a.endswith(".diff")]
    (LEAN / ".lake").mkdir(exist_ok=True)
    lock = open(LEAN / ".lake" / "check.lock", "w")
    fcntl.flock(lock, fcntl.LOCK_EX)
    bad = 0
    try:
        rc0, base = trace(repo / "src")
        if rc0 != 0:
            print("cannot run the trace on the unchanged tree:\n" + base[-800:])
            return 2
        for d in diffs:
            with tempfile.TemporaryDirectory(prefix="harmless_pospq_") as tmp:
                shutil.copytree(repo / "src", Path(tmp) / "src")
                rc, out = sh(["git", "apply", "-p1", str(d)], cwd=tmp)
                if rc != 0:
                    print(f"FAIL  {label(d)}: does not apply: {out.strip()[:200]}")
                    bad += 1
                    continue
                rc, tr = trace(Path(tmp) / "src")
                same = rc == 0 and tr == base
                ok, why = build(Path(tmp) / "src")
                if same and ok:
                    print(f"ok    {label(d)}: same behaviour ({len(base)} bytes of trace), translates, GenEqPosPQ proves")
                else:
                    bad += 1
                    print(f"FAIL  {label(d)}: " + ("" if same else "BEHAVIOUR DIFFERS (not a harmless rewrite); ")
                          + ("" if ok else "tie broken: " + " | ".join(w.strip()[:160] for w in why)))
    finally:
        sh([sys.executable, str(HERE / "py2lean.py"), str(repo / "src"), str(LEAN / "Asynkit" / "Gen")])
        fcntl.flock(lock, fcntl.LOCK_UN)
    print(f"{len(diffs) - bad}/{len(diffs)} harmless refactorings keep the tie")
    return 1 if bad else 0


if __name__ == "__main__":
    sys.exit(main())
