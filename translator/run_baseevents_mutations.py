#!/venv/bin/python
"""Mutation table for the asyncio.base_events / events unit (testing only): each mutation edits a scratch copy of the
running interpreter's asyncio/base_events.py (or events.py), which the unit reads through ASYNKIT_STDLIB_BASE_EVENTS /
ASYNKIT_STDLIB_EVENTS; then translator + `lake build Asynkit.Lemmas.GenEqLoopStd`.  Every mutation (B…) must break the
translator or a proof; every harmless rewrite (H…) must stay green.  The interpreter's own files are never touched;
lean/Asynkit/Gen is regenerated from them afterwards.   exit 0 iff all verdicts are as expected."""
import importlib.util, os, re, subprocess, sys, tempfile
from pathlib import Path

ROOT = Path(__file__).resolve().parent.parent
BE = Path(importlib.util.find_spec("asyncio.base_events").origin).read_text()
EV = Path(importlib.util.find_spec("asyncio.events").origin).read_text()

# (name, file, old, new)
MUTATIONS = [
    ("B01 _call_soon: appendleft instead of append", "be", "        self._ready.append(handle)\n        return handle", "        self._ready.appendleft(handle)\n        return handle"),
    ("B02 _call_soon: handle not queued", "be", "        self._ready.append(handle)\n        return handle", "        return handle"),
    ("B03 call_soon: no _check_closed", "be", "        self._check_closed()\n        if self._debug:\n            self._check_thread()\n            self._check_callback(callback, 'call_soon')", "        if self._debug:\n            self._check_thread()\n            self._check_callback(callback, 'call_soon')"),
    ("B04 call_soon_threadsafe: no _write_to_self", "be", "        self._write_to_self()\n        return handle", "        return handle"),
    ("B05 call_at: timer not marked scheduled", "be", "        heapq.heappush(self._scheduled, timer)\n        timer._scheduled = True", "        heapq.heappush(self._scheduled, timer)"),
    ("B06 call_at: timer appended to _ready", "be", "        heapq.heappush(self._scheduled, timer)\n        timer._scheduled = True", "        self._ready.append(timer)\n        timer._scheduled = True"),
    ("B07 call_later: delay ignored", "be", "self.call_at(self.time() + delay, callback, *args,", "self.call_at(self.time(), callback, *args,"),
    ("B08 _timer_handle_cancelled: counts unscheduled timers too", "be", "        if handle._scheduled:\n            self._timer_cancelled_count += 1", "        self._timer_cancelled_count += 1"),
    ("B09 _run_once: batch is one short", "be", "        ntodo = len(self._ready)\n        for i in range(ntodo):", "        ntodo = len(self._ready) - 1\n        for i in range(ntodo):"),
    ("B10 _run_once: runs until the queue is empty (no batching)", "be", "        ntodo = len(self._ready)\n        for i in range(ntodo):\n            handle = self._ready.popleft()", "        while self._ready:\n            handle = self._ready.popleft()"),
    ("B11 _run_once: cancelled handles are run", "be", "            if handle._cancelled:\n                continue\n            if self._debug:", "            if self._debug:"),
    ("B12 _run_once: pops from the right", "be", "            handle = self._ready.popleft()\n            if handle._cancelled:", "            handle = self._ready.pop()\n            if handle._cancelled:"),
    ("B13 _run_once: due timers compare with `>`", "be", "            if handle._when >= end_time:\n                break", "            if handle._when > end_time:\n                break"),
    ("B14 _run_once: due timer not un-scheduled", "be", "            handle = heapq.heappop(self._scheduled)\n            handle._scheduled = False\n            self._ready.append(handle)", "            handle = heapq.heappop(self._scheduled)\n            self._ready.append(handle)"),
    ("B15 _run_once: timeout 0 only when stopping", "be", "        if self._ready or self._stopping:\n            timeout = 0", "        if self._stopping:\n            timeout = 0"),
    ("B16 _run_once: sweep threshold fraction inverted", "be", "self._timer_cancelled_count / sched_count >\n                _MIN_CANCELLED_TIMER_HANDLES_FRACTION)", "self._timer_cancelled_count / sched_count <\n                _MIN_CANCELLED_TIMER_HANDLES_FRACTION)"),
    ("B17 _run_once: cancelled heads not counted down", "be", "                self._timer_cancelled_count -= 1\n                handle = heapq.heappop(self._scheduled)", "                handle = heapq.heappop(self._scheduled)"),
    ("B18 _run_once: no select", "be", "        event_list = self._selector.select(timeout)\n        self._process_events(event_list)", "        event_list = []\n        self._process_events(event_list)"),
    ("B19 Handle.cancel: flag not set", "ev", "        if not self._cancelled:\n            self._cancelled = True\n            if self._loop.get_debug():", "        if not self._cancelled:\n            if self._loop.get_debug():"),
    ("B20 TimerHandle.cancel: loop not told", "ev", "        if not self._cancelled:\n            self._loop._timer_handle_cancelled(self)\n        super().cancel()", "        super().cancel()"),
    ("B21 Handle._run: SystemExit swallowed", "ev", "        except (SystemExit, KeyboardInterrupt):\n            raise\n        except BaseException as exc:", "        except BaseException as exc:"),
    ("B22 Handle._run: exception handler not called", "ev", "            self._loop.call_exception_handler(context)\n        self = None", "        self = None"),
    ("H1 harmless: _call_soon renames its local", "be", "        handle = events.Handle(callback, args, self, context)\n        if handle._source_traceback:\n            del handle._source_traceback[-1]\n        self._ready.append(handle)\n        return handle", "        h = events.Handle(callback, args, self, context)\n        if h._source_traceback:\n            del h._source_traceback[-1]\n        self._ready.append(h)\n        return h"),
    ("H2 harmless: _run_once tests `not handle._cancelled` and nests the run", "be", "            if handle._cancelled:\n                continue\n            if self._debug:\n                try:\n                    self._current_handle = handle\n                    t0 = self.time()\n                    handle._run()\n                    dt = self.time() - t0\n                    if dt >= self.slow_callback_duration:\n                        logger.warning('Executing %s took %.3f seconds',\n                                       _format_handle(handle), dt)\n                finally:\n                    self._current_handle = None\n            else:\n                handle._run()", "            if not handle._cancelled:\n                if self._debug:\n                    try:\n                        self._current_handle = handle\n                        t0 = self.time()\n                        handle._run()\n                        dt = self.time() - t0\n                        if dt >= self.slow_callback_duration:\n                            logger.warning('Executing %s took %.3f seconds',\n                                           _format_handle(handle), dt)\n                    finally:\n                        self._current_handle = None\n                else:\n                    handle._run()"),
    ("H3 harmless: _timer_handle_cancelled with a guard clause", "be", "        if handle._scheduled:\n            self._timer_cancelled_count += 1", "        if not handle._scheduled:\n            return\n        self._timer_cancelled_count += 1"),
    ("H4 harmless: _run_once names the count `n` and the timeout branches use elif/else", "be", "        ntodo = len(self._ready)\n        for i in range(ntodo):", "        n_ready = len(self._ready)\n        for _ in range(n_ready):"),
]


def verdict(which, text):
    with tempfile.NamedTemporaryFile("w", suffix="_stdlib.py", delete=False) as f:
        f.write(text)
        path = f.name
    try:
        env = dict(os.environ)
        env["ASYNKIT_STDLIB_BASE_EVENTS" if which == "be" else "ASYNKIT_STDLIB_EVENTS"] = path
        t = subprocess.run([sys.executable, str(ROOT / "translator/py2lean.py"), "/repo/src",
                            str(ROOT / "lean/Asynkit/Gen")], capture_output=True, text=True, env=env)
        bad = [l for l in t.stdout.split("\n") if "CANNOT TRANSLATE" in l and "base_events" in l]
        if bad:
            return "TRANSLATOR: " + bad[0].split("]: ", 1)[-1][:130]
        b = subprocess.run(["lake", "build", "Asynkit.Lemmas.GenEqLoopStd"], cwd=ROOT / "lean", capture_output=True, text=True)
        if b.returncode:
            out = b.stdout + b.stderr
            ths = []
            for f_, l in re.findall(r"error: (Asynkit/Lemmas/GenEqLoopStd\.lean):(\d+)", out):
                src = (ROOT / "lean" / f_).read_text().split("\n")
                i = int(l) - 1
                while i >= 0 and not src[i].startswith("theorem") and not src[i].startswith("def"):
                    i -= 1
                ths.append(src[i].split()[1])
            if not ths and "Gen/BaseEvents.lean" in out:
                ths = ["Gen/BaseEvents.lean does not type-check"]
            return "PROOF: " + ", ".join(dict.fromkeys(ths))[:150]
        return "green"
    finally:
        os.unlink(path)


def main():
    sel = sys.argv[1:]
    bad = 0
    for name, which, old, new in MUTATIONS:
        if sel and not any(s in name for s in sel):
            continue
        src = BE if which == "be" else EV
        if old not in src:
            print(f"{name}: PATTERN NOT FOUND in this interpreter's file")
            bad += 1
            continue
        v = verdict(which, src.replace(old, new, 1))
        want_green = name.startswith("H")
        ok = (v == "green") == want_green
        bad += not ok
        print(f"{name}: {v}{'' if ok else '   <-- UNEXPECTED'}", flush=True)
    subprocess.run([sys.executable, str(ROOT / "translator/py2lean.py"), "/repo/src", str(ROOT / "lean/Asynkit/Gen")],
                   capture_output=True)
    print(f"run_baseevents_mutations: {bad} unexpected verdict(s)")
    return 1 if bad else 0


if __name__ == "__main__":
    sys.exit(main())
