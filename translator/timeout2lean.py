"""timeout2lean — `task_timeout` (src/asynkit/experimental/interrupt.py) regenerated into
lean/Asynkit/Gen/Timeout.lean on every run (unit of py2lean; DESIGN §3.3), segment by segment (segexec.py):

* the context-manager generator: call → `yield` (enter), and `yield` resumed normally / by an exception
  thrown in → exit (the `except TimeoutInterrupt` handler with its identity test, the `finally`);
* the `trigger_timeout` callback (synchronous);
* the `interruptor` coroutine: entry and every resumption → next suspension or end, the `for i in range(3)`
  retry loop with `await task_interrupt(...)` (accepted → suspended, refused → RuntimeError handled at once)
  and `await asyncio.sleep(0)`, the `except Exception` report.

`Lemmas/GenEqC16.lean` proves the generated definitions equal to the events of `Model/Timeout.lean`.  The
meaning of the calls is the kernel interface `Model/TimeoutPrims.lean`.  Closure variables shared between the
three functions: static ones (task, loop, the interrupt instance, the timer handle) are translation-time
entities; the one dynamic flag (`is_active`, recognised as "assigned a bool constant in the generator and read
in a nested function", whatever its name) is the level's `active` field.
"""
import ast
from pathlib import Path

from segexec import Const, Dyn, Ent, Executor, Unsupported, find_func, paren, strip_doc

GEXC = "Exc"        # exceptions travelling through the context manager
IEXN = "IExn"       # exceptions inside the interruptor


class TDomain:
    self_kind = "no-self"

    def __init__(self, role, cells, statics=None):
        self.role = role            # "gen" | "trigger" | "interruptor"
        self.cells = cells          # names of dynamic closure cells
        self.statics = statics or {}
        self.exn_ty = GEXC if role == "gen" else IEXN

    def global_name(self, name):
        if name == "asyncio":
            return Ent("module", "asyncio")
        if name in ("TimeoutInterrupt", "task_interrupt", "task_throw"):
            return Ent("global", name)
        if name in self.cells:
            return Ent("cell", name)
        if name in self.statics:
            return self.statics[name]
        return None

    def read_cell(self, ex, v, st):
        return Dyn(f"Prim.isActive {st} id", "Bool")

    def attr(self, base, attr):
        if isinstance(base, Ent) and base.kind == "module" and attr == "TimeoutError":
            return Ent("global", "asyncio.TimeoutError")
        raise Unsupported(f"attribute .{attr} of {base}")

    def lean_of(self, v):
        if isinstance(v, Dyn):
            return v.lean
        if isinstance(v, Const) and isinstance(v.v, bool):
            return "true" if v.v else "false"
        if isinstance(v, Const) and isinstance(v.v, int):
            return str(v.v)
        raise Unsupported(f"no Lean value for {v}")

    def const_ty(self, v):
        raise Unsupported(f"type of {v}")

    def method(self, ex, base, name, args, kw, st):
        k = base.kind if isinstance(base, Ent) else None
        if k == "module" and name == "current_task" and not args:
            return ("pure", Ent("task"))
        if k == "module" and name == "get_running_loop" and not args:
            return ("pure", Ent("loop"))
        if k == "task" and name == "get_loop" and not args:
            return ("pure", Ent("loop"))
        if k == "module" and name == "TimeoutError":
            return ("pure", Dyn("Exc.timeoutErr", GEXC, "timeoutErr"))
        if k == "loop" and name == "call_later" and len(args) == 2 and isinstance(args[1], Ent) \
                and args[1].kind == "closure" and args[1].data.name == self.trigger_name:
            return ("eff", f"Prim.armTimer {st} id", Ent("timer"))
        if k == "timer" and name == "cancel" and not args:
            return ("eff", f"Prim.cancelTimer {st} id", Const(None))
        if k == "loop" and name == "create_task" and len(args) == 1 and isinstance(args[0], Ent) \
                and args[0].kind == "coro":
            return ("eff", f"Prim.spawnInterruptor {st} id", Ent("itask"))
        if k == "loop" and name == "call_exception_handler" and len(args) == 1:
            return ("eff", f"Prim.reportFailure {st} id", Const(None))
        raise Unsupported(f"call .{name}() on {base} with {len(args)} argument(s)")

    trigger_name = None

    def function(self, ex, name, args, kw, st):
        if name == "TimeoutInterrupt" and not args:
            return ("pure", Ent("my_interrupt"))
        raise Unsupported(f"call of {name}()")

    def call_closure(self, ex, ent, args, kw, st):
        if isinstance(ent.data, ast.AsyncFunctionDef) and not args:
            return ("pure", Ent("coro", ent.data.name))
        raise Unsupported(f"call of the nested function {ent.data.name}")

    def identical(self, a, b):
        if isinstance(a, Dyn) and a.ty == GEXC and isinstance(b, Ent) and b.kind == "my_interrupt":
            return Dyn(f"decide ({a.lean} = Exc.intr id)", "Bool")
        if isinstance(b, Dyn) and isinstance(a, Ent):
            return self.identical(b, a)
        return None

    def make_exn(self, cls):
        if cls == "asyncio.TimeoutError" and self.role == "gen":
            return Dyn("Exc.timeoutErr", GEXC, "timeoutErr")
        return None

    def exn_match(self, exn, cls):
        if self.role == "gen":
            if cls == "TimeoutInterrupt":
                if isinstance(exn, Dyn) and exn.ctor is not None:
                    return exn.ctor == "intr"
                return f"Exc.isIntr {paren(exn.lean)}"
            raise Unsupported(f"except {cls} in the context manager")
        table = {"RuntimeError": "IExn.isRuntime", "Exception": "IExn.isException"}
        if cls not in table:
            raise Unsupported(f"except {cls} in the interruptor")
        if isinstance(exn, Dyn) and exn.ctor == "runtime":
            return True
        return f"{table[cls]} {paren(exn.lean)}"

    def assign(self, ex, scopes, cur, name, val):
        return ex.bind(scopes, cur, name, val)

    def assign_eff(self, ex, scopes, cur, targets, val, st, ind):
        pre = ""
        for t in targets:
            if not isinstance(t, ast.Name):
                raise Unsupported(f"assignment target {ast.dump(t)[:60]}")
            if t.id in self.cells:
                if not (isinstance(val, Const) and isinstance(val.v, bool)):
                    raise Unsupported(f"the flag {t.id} is assigned something that is not a bool constant")
                s2 = ex.new()
                pre += f"{ind}let {s2} := Prim.setActive {st} id {'true' if val.v else 'false'}\n"
                st = s2
            else:
                scopes = ex.bind(scopes, cur, t.id, val)
        return scopes, pre, st

    def iterate(self, ex, seq, st):
        return None

    def bind_loop_target(self, ex, scopes, cur, target, x):
        raise Unsupported("for over a list")

    # -- suspension
    def await_kind(self, ex, e, scopes, cur, st, ind):
        if self.role != "interruptor":
            raise Unsupported(f"await {ast.unparse(e)} outside the interruptor")
        if isinstance(e, ast.Call) and isinstance(e.func, ast.Name) and e.func.id == "task_interrupt" \
                and len(e.args) == 2:
            a = [ex.ev_call_pure(x, scopes, cur, st) for x in e.args]
            if isinstance(a[0], Ent) and a[0].kind == "task" and isinstance(a[1], Ent) and a[1].kind == "my_interrupt":
                imm = ("accepted", "true", f"Prim.throwAccepted {st} id",
                       [("false", ("raise", Dyn("IExn.runtime", IEXN, "runtime")))])
                return "sw", st, "", imm
        if isinstance(e, ast.Call) and ast.unparse(e.func) == "asyncio.sleep" and len(e.args) == 1 \
                and isinstance(e.args[0], ast.Constant) and e.args[0].value == 0:
            return "sl", st, "", None
        raise Unsupported(f"await {ast.unparse(e)}")

    def resumes(self, ex, p):
        if p.kind == "yield":
            return [(".ok", lambda ind, st: (st, ("normal", Const(None)), "")),
                    (".exc x", lambda ind, st: (st, ("raise", Dyn("x", GEXC)), ""))]
        return [(".ok", lambda ind, st: (st, ("normal", Const(None)), ""))]

    def finish(self, ex, o):
        if o[0] in ("normal", "return"):
            out = ".fin .ret"
        elif o[0] == "raise":
            out = f".fin (.raised {paren(self.lean_of(o[1]))})"
        else:
            raise Unsupported(f"{o[0]} at function level")
        if self.role == "gen":
            return (lambda st: f"Prim.leaveFrame {st} id"), out
        if self.role == "trigger":
            return out[len(".fin "):]
        return out


HEADER = """-- GENERATED by translator/timeout2lean.py from src/asynkit/experimental/interrupt.py — do not edit
import Asynkit.Model.TimeoutPrims
set_option linter.unusedVariables false
namespace Asynkit.Gen.Timeout
open Asynkit.Timeout

"""


def nested(fn, kind):
    found = [n for n in strip_doc(fn.body) if isinstance(n, kind)]
    if len(found) != 1:
        raise Unsupported(f"{fn.name}: expected exactly one nested {kind.__name__}, found {len(found)}")
    return found[0]


def coroutine_text(prefix, doc, ex, out_exn, resume_ty, entry_sig, prologue=""):
    ent, segs = ex.all_segments()
    out = ""
    for p in ex.order:
        out += f"/-- dynamic values held at suspension point `{p.name}` of {doc} (line {p.node.lineno}):\n"
        for i, d in enumerate(p.field_docs):
            out += f"    d{i}: {d}\n"
        out += "-/\n"
        out += f"structure {prefix}_L_{p.name} where\n"
        for i, ty in enumerate(p.field_tys):
            out += f"  d{i} : {ty}\n"
        out += "deriving DecidableEq, Repr\n\n"
    out += f"inductive {prefix}Out\n"
    for p in ex.order:
        out += f"  | susp_{p.name} (l : {prefix}_L_{p.name})\n"
    out += f"  | fin (f : Fin {out_exn})\nderiving DecidableEq, Repr\n\n"
    out += f"/-- {doc}: from the call to the first suspension -/\n"
    out += f"def {prefix}_entry {entry_sig}: State × {prefix}Out :=\n{prologue}{ent}\n"
    for p, alts in segs:
        extra = "(accepted : Bool) " if prefix == "it" else ""
        out += f"/-- {doc}: resumed at point `{p.name}` (line {p.node.lineno}) -/\n"
        out += (f"def {prefix}_{p.name} (s : State) (id : Nat) {extra}(l : {prefix}_L_{p.name}) "
                f"(r : {resume_ty}) : State × {prefix}Out :=\n  match r with\n")
        for pat, txt in alts:
            out += f"  | {pat} =>\n{txt}"
        out += "\n"
    return out


def generate(src: Path):
    tree = ast.parse((Path(src) / "asynkit/experimental/interrupt.py").read_text())
    fn = find_func(tree, None, "task_timeout")
    trig = nested(fn, ast.FunctionDef)
    intr = nested(trig, ast.AsyncFunctionDef)
    # dynamic closure cells: assigned a bool constant in the generator, read in a nested function
    inner_loads = {n.id for n in ast.walk(trig) if isinstance(n, ast.Name) and isinstance(n.ctx, ast.Load)}
    cells = set()
    for n in ast.walk(fn):
        if isinstance(n, ast.Assign) and isinstance(n.value, ast.Constant) and isinstance(n.value.value, bool):
            for t in n.targets:
                if isinstance(t, ast.Name) and t.id in inner_loads:
                    cells.add(t.id)
    if len(cells) != 1:
        raise Unsupported(f"expected exactly one boolean flag shared with the interruptor, found {sorted(cells)}")
    if len(fn.args.args) != 1:
        raise Unsupported("task_timeout takes one argument")
    gdom = TDomain("gen", cells)
    gdom.trigger_name = trig.name
    helpers = {n.name: n for n in tree.body if isinstance(n, ast.FunctionDef) and not n.decorator_list
               and n.name not in ("task_throw", "create_pytask", "task_factory", "c_task_reschedule",
                                  "future_find_task_callback")}
    gex = Executor(gdom, fn, {fn.args.args[0].arg: Dyn("timeout", "Option Int")}, ident="task_timeout",
                   helpers=helpers)
    text = HEADER
    text += coroutine_text("tt", "`task_timeout(timeout)` (the context manager's generator)", gex, GEXC,
                           "YResume", "(s : State) (id : Nat) (timeout : Option Int) ",
                           prologue="  let s := Prim.enterFrame s id timeout.isSome\n")
    statics = {k: v for k, v in gex.static_binds.items() if not (isinstance(v, Ent) and v.kind == "closure")}
    tdom = TDomain("trigger", cells, statics)
    tex = Executor(tdom, trig, {}, ident="trigger_timeout", helpers=helpers)
    body = tex.entry()
    if tex.order:
        raise Unsupported("trigger_timeout suspends")
    text += ("/-- the timer callback `trigger_timeout()` -/\n"
             f"def trigger (s : State) (id : Nat) : State × Fin IExn :=\n{body}\n")
    idom = TDomain("interruptor", cells, statics)
    iex = Executor(idom, intr, {}, ident="interruptor", helpers=helpers)
    text += coroutine_text("it", "the `interruptor()` coroutine", iex, IEXN, "IResume",
                           "(s : State) (id : Nat) (accepted : Bool) ")
    text += "end Asynkit.Gen.Timeout\n"
    return {"Timeout.lean": text}


if __name__ == "__main__":
    import sys
    print(generate(Path(sys.argv[1]))["Timeout.lean"])
