#!/venv/bin/python
"""Mutation table for the asyncio.locks and contextlib units (testing only): each mutation edits a scratch copy of the running
interpreter's asyncio/locks.py, which the unit reads through ASYNKIT_STDLIB_LOCKS; then translator + lake build
of Lemmas/GenEqC14Std.  Every mutation must break the translator or a proof.  The interpreter's own file is never
touched; lean/Asynkit/Gen is regenerated from it afterwards.   exit 0 iff every mutation is detected."""
import importlib.util, os, subprocess, sys, tempfile
from pathlib import Path

ROOT = Path(__file__).resolve().parent.parent
ORIG = Path(importlib.util.find_spec("asyncio.locks").origin).read_text()

MUTATIONS = [
    ("L1 acquire fast path ignores queued waiters",
     "(self._waiters is None or\n                all(w.cancelled() for w in self._waiters))", "True"),
    ("L2 acquire: no `self._locked = True` after the wait",
     "            raise\n\n        self._locked = True\n        return True", "            raise\n\n        return True"),
    ("L3 acquire: cancel path does not pass the wake-up on",
     "            if not self._locked:\n                self._wake_up_first()\n            raise", "            raise"),
    ("L4 acquire: future not removed from the queue",
     "            finally:\n                self._waiters.remove(fut)\n        except exceptions.CancelledError:",
     "            finally:\n                pass\n        except exceptions.CancelledError:"),
    ("L5 release: no wake-up", "            self._locked = False\n            self._wake_up_first()", "            self._locked = False"),
    ("L6 release: stays locked", "            self._locked = False\n            self._wake_up_first()", "            self._wake_up_first()"),
    ("L7 _wake_up_first: sets a done future again", "        if not fut.done():\n            fut.set_result(True)\n\n\nclass Event",
     "        fut.set_result(True)\n\n\nclass Event"),
    ("L8 acquire: cancel path wakes even when locked",
     "            if not self._locked:\n                self._wake_up_first()\n            raise", "            self._wake_up_first()\n            raise"),
    ("N1 Condition.notify: `idx > n`", "            if idx >= n:\n                break", "            if idx > n:\n                break"),
    ("N2 Condition.notify: counts done futures",
     "            if not fut.done():\n                idx += 1\n                fut.set_result(False)",
     "            idx += 1\n            if not fut.done():\n                fut.set_result(False)"),
    ("N3 notify_all: one short", "self.notify(len(self._waiters))", "self.notify(len(self._waiters) - 1)"),
    ("W1 wait_for: returns after the first wait()", "        while not result:\n            await self.wait()\n            result = predicate()\n        return result",
     "        if not result:\n            await self.wait()\n            result = predicate()\n        return result"),
    ("W2 wait_for: swallows the exception of wait()", "        while not result:\n            await self.wait()\n",
     "        while not result:\n            try:\n                await self.wait()\n            except exceptions.CancelledError:\n                pass\n"),
    ("H1 harmless: `if self._locked:` -> guard clause in release",
     "        if self._locked:\n            self._locked = False\n            self._wake_up_first()\n        else:\n            raise RuntimeError('Lock is not acquired.')",
     "        if not self._locked:\n            raise RuntimeError('Lock is not acquired.')\n        self._locked = False\n        self._wake_up_first()"),
]


CTX = Path(importlib.util.find_spec("contextlib").origin).read_text()

# contextlib.py: each edit is applied to the *first* occurrence = the synchronous _GeneratorContextManager unless it
# names the async variant
CTX_MUTATIONS = [
    ("X1 __exit__: exception leaves although the generator swallowed it", "                return exc is not value\n", "                return False\n"),
    ("X2 __exit__: the same exception coming back is raised from __exit__ instead of re-raised by the with statement",
     "                if exc is not value:\n                    raise\n                exc.__traceback__ = traceback\n                return False",
     "                raise"),
    ("X3 __exit__: normal exit does not resume the generator", "            try:\n                next(self.gen)\n            except StopIteration:\n                return False",
     "            try:\n                pass\n            except StopIteration:\n                return False"),
    ("X4 __exit__: suppresses every exception the generator re-raises",
     "                if exc is not value:\n                    raise\n                exc.__traceback__ = traceback\n                return False",
     "                return True"),
    ("X5 __exit__: PEP 479 unwrapping dropped (a StopIteration of the body comes out as RuntimeError)",
     "                if (\n                    isinstance(value, StopIteration)\n                    and exc.__cause__ is value\n                ):\n                    value.__traceback__ = traceback\n                    return False\n                raise",
     "                raise"),
    ("X6 __enter__: a generator that does not yield is accepted", "            raise RuntimeError(\"generator didn't yield\") from None", "            return None"),
    ("HX7 harmless: __aexit__ answers True on a normal exit (the with statement ignores it)", "                await anext(self.gen)\n            except StopAsyncIteration:\n                return False",
     "                await anext(self.gen)\n            except StopAsyncIteration:\n                return True"),
    ("X8 __aexit__: exception is not thrown into the generator", "                await self.gen.athrow(value)", "                await anext(self.gen)"),
    ("X9 __aexit__: suppress when the generator raises something else",
     "            except BaseException as exc:\n                # only re-raise if it's *not* the exception that was\n                # passed to throw(), because __exit__() must not raise\n                # an exception unless __exit__() itself failed.  But throw()\n                # has to raise the exception to signal propagation, so this\n                # fixes the impedance mismatch between the throw() protocol\n                # and the __exit__() protocol.\n                if exc is not value:\n                    raise\n                exc.__traceback__ = traceback\n                return False\n            try:\n                raise RuntimeError(\"generator didn't stop after athrow()\")",
     "            except BaseException as exc:\n                return exc is not value\n            try:\n                raise RuntimeError(\"generator didn't stop after athrow()\")"),
]


def verdict(text, envvar="ASYNKIT_STDLIB_LOCKS", target="Asynkit.Lemmas.GenEqC14Std", unit="asyncio.locks"):
    with tempfile.NamedTemporaryFile("w", suffix="_stdlib.py", delete=False) as f:
        f.write(text)
        path = f.name
    try:
        env = dict(os.environ, **{envvar: path})
        t = subprocess.run([sys.executable, str(ROOT / "translator/py2lean.py"), "/repo/src",
                            str(ROOT / "lean/Asynkit/Gen")], capture_output=True, text=True, env=env)
        bad = [l for l in t.stdout.split("\n") if "CANNOT TRANSLATE" in l and unit in l]
        if bad:
            return "TRANSLATOR: " + bad[0][:150]
        b = subprocess.run(["lake", "build", target], cwd=ROOT / "lean", capture_output=True, text=True)
        if b.returncode:
            errs = [l for l in (b.stdout + b.stderr).split("\n") if l.startswith("error")]
            return "PROOF: " + "; ".join(errs[:2])[:170]
        return "green"
    finally:
        os.unlink(path)


def main():
    rc = 0
    try:
        for name, old, new in MUTATIONS:
            if old not in ORIG:
                print(f"{name} | DOES NOT APPLY to this interpreter's locks.py")
                rc = 1
                continue
            v = verdict(ORIG.replace(old, new, 1))
            harmless = name.startswith("H")
            ok = (v == "green") == harmless
            print(f"{name} | {v}" + ("" if ok else "   <-- UNEXPECTED"))
            rc |= not ok
        for name, old, new in CTX_MUTATIONS:
            if old is None:
                continue
            if old not in CTX:
                print(f"{name} | DOES NOT APPLY to this interpreter's contextlib.py")
                rc = 1
                continue
            if "__aexit__" in name or "__aenter__" in name:
                i = CTX.index("class _AsyncGeneratorContextManager")
                text = CTX[:i] + CTX[i:].replace(old, new, 1)
            else:
                text = CTX.replace(old, new, 1)
            v = verdict(text, "ASYNKIT_STDLIB_CONTEXTLIB", "Asynkit.Lemmas.GenEqContextlib", "contextlib")
            ok = (v == "green") == name.startswith("H")
            print(f"{name} | {v}" + ("" if ok else "   <-- UNEXPECTED"))
            rc |= not ok
    finally:
        subprocess.run([sys.executable, str(ROOT / "translator/py2lean.py"), "/repo/src",
                        str(ROOT / "lean/Asynkit/Gen")], capture_output=True)
    return rc


if __name__ == "__main__":
    sys.exit(main())
