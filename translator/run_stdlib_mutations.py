#!/venv/bin/python
"""Mutation table for the asyncio.locks unit (testing only): each mutation edits a scratch copy of the running
interpreter's asyncio/locks.py, which the unit reads through ASYNKIT_STDLIB_LOCKS; then translator + lake build
of Lemmas/GenEqC14Std.  Every mutation must break the translator or a proof.  The interpreter's own file is never
touched; lean/Asynkit/Gen is regenerated from it afterwards.   exit 0 iff every mutation is detected."""
import importlib.util, os, subprocess, sys, tempfile
from pathlib import Path

ROOT = Path(__file__).resolve().parent.parent
ORIG = Path(importlib.util.find_spec("asyncio.locks").origin).read_text()

MUTATIONS = [
    ("L1 acquire fast path ignores queued waiters",
     "(self._waiters is None or\n                all(w.cancelled() for w in self._waiters))", "True"),
    ("L2 acquire: no `self._locked = True` after the wait",
     "            raise\n\n        self._locked = True\n        return True", "            raise\n\n        return True"),
    ("L3 acquire: cancel path does not pass the wake-up on",
     "            if not self._locked:\n                self._wake_up_first()\n            raise", "            raise"),
    ("L4 acquire: future not removed from the queue",
     "            finally:\n                self._waiters.remove(fut)\n        except exceptions.CancelledError:",
     "            finally:\n                pass\n        except exceptions.CancelledError:"),
    ("L5 release: no wake-up", "            self._locked = False\n            self._wake_up_first()", "            self._locked = False"),
    ("L6 release: stays locked", "            self._locked = False\n            self._wake_up_first()", "            self._wake_up_first()"),
    ("L7 _wake_up_first: sets a done future again", "        if not fut.done():\n            fut.set_result(True)\n\n\nclass Event",
     "        fut.set_result(True)\n\n\nclass Event"),
    ("L8 acquire: cancel path wakes even when locked",
     "            if not self._locked:\n                self._wake_up_first()\n            raise", "            self._wake_up_first()\n            raise"),
    ("N1 Condition.notify: `idx > n`", "            if idx >= n:\n                break", "            if idx > n:\n                break"),
    ("N2 Condition.notify: counts done futures",
     "            if not fut.done():\n                idx += 1\n                fut.set_result(False)",
     "            idx += 1\n            if not fut.done():\n                fut.set_result(False)"),
    ("N3 notify_all: one short", "self.notify(len(self._waiters))", "self.notify(len(self._waiters) - 1)"),
    ("W1 wait_for: returns after the first wait()", "        while not result:\n            await self.wait()\n            result = predicate()\n        return result",
     "        if not result:\n            await self.wait()\n            result = predicate()\n        return result"),
    ("W2 wait_for: swallows the exception of wait()", "        while not result:\n            await self.wait()\n",
     "        while not result:\n            try:\n                await self.wait()\n            except exceptions.CancelledError:\n                pass\n"),
    ("H1 harmless: `if self._locked:` -> guard clause in release",
     "        if self._locked:\n            self._locked = False\n            self._wake_up_first()\n        else:\n            raise RuntimeError('Lock is not acquired.')",
     "        if not self._locked:\n            raise RuntimeError('Lock is not acquired.')\n        self._locked = False\n        self._wake_up_first()"),
]


def verdict(text):
    with tempfile.NamedTemporaryFile("w", suffix="_locks.py", delete=False) as f:
        f.write(text)
        path = f.name
    try:
        env = dict(os.environ, ASYNKIT_STDLIB_LOCKS=path)
        t = subprocess.run([sys.executable, str(ROOT / "translator/py2lean.py"), "/repo/src",
                            str(ROOT / "lean/Asynkit/Gen")], capture_output=True, text=True, env=env)
        bad = [l for l in t.stdout.split("\n") if "CANNOT TRANSLATE" in l and "asyncio.locks" in l]
        if bad:
            return "TRANSLATOR: " + bad[0][:150]
        b = subprocess.run(["lake", "build", "Asynkit.Lemmas.GenEqC14Std"], cwd=ROOT / "lean", capture_output=True, text=True)
        if b.returncode:
            errs = [l for l in (b.stdout + b.stderr).split("\n") if l.startswith("error")]
            return "PROOF: " + "; ".join(errs[:2])[:170]
        return "green"
    finally:
        os.unlink(path)


def main():
    rc = 0
    try:
        for name, old, new in MUTATIONS:
            if old not in ORIG:
                print(f"{name} | DOES NOT APPLY to this interpreter's locks.py")
                rc = 1
                continue
            v = verdict(ORIG.replace(old, new, 1))
            harmless = name.startswith("H")
            ok = (v == "green") == harmless
            print(f"{name} | {v}" + ("" if ok else "   <-- UNEXPECTED"))
            rc |= not ok
    finally:
        subprocess.run([sys.executable, str(ROOT / "translator/py2lean.py"), "/repo/src",
                        str(ROOT / "lean/Asynkit/Gen")], capture_output=True)
    return rc


if __name__ == "__main__":
    sys.exit(main())
