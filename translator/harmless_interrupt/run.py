#!/venv/bin/python
"""Regression set of the translation tie for task_throw / _task_reinsert / task_interrupt
(translator/interrupt2lean.py, lean/Asynkit/Lemmas/GenEqC15.lean, and the task predicates of GenEqC09).

  * behaviour-preserving refactorings (`*.diff` here, plus harmless/h11 and harmless/h13): the
    translator must accept them and every GenEq theorem must still prove;
  * semantic changes (seeded/C15-m*, C09-m6 and the edits below): the translator must refuse loudly or a
    proof must break.

Each change is applied to a scratch copy of /repo's HEAD (never /repo); Gen/ is regenerated from it,
`lake build` of the GenEq targets decides; Gen/ is regenerated from /repo at the end.
usage: translator/harmless_interrupt/run.py [--baseline] [name-prefix ...]     exit 0 iff all as expected"""
import os, re, shutil, subprocess, sys, tempfile
from pathlib import Path
HERE = Path(__file__).resolve().parent
ROOT = HERE.parent.parent
TARGETS = ["Asynkit.Lemmas.GenEqC15", "Asynkit.Lemmas.GenEqC09"]
I, S = "src/asynkit/experimental/interrupt.py", "src/asynkit/scheduling.py"


def sh(cmd, cwd=None):
    return subprocess.run(cmd, shell=True, stdout=subprocess.PIPE, stderr=subprocess.STDOUT, text=True, cwd=cwd)


def verdict(src):
    t = sh(f"/venv/bin/python {ROOT}/translator/py2lean.py {src}/src {ROOT}/lean/Asynkit/Gen")
    loud = [l for l in t.stdout.split("\n") if "CANNOT TRANSLATE" in l]
    b = sh("lake build " + " ".join(TARGETS), cwd=ROOT / "lean")
    if b.returncode == 0 and not loud:
        return "proves", ""
    if loud:
        return "refused", loud[0][:150]
    thms = sorted(set(re.findall(r"(GenEqC\d+)\.lean:(\d+)", b.stdout)))
    return "proof breaks", ", ".join(f"{a}:{n}" for a, n in thms[:5])


def edit(root, path, old, new):
    p = Path(root) / path
    s = p.read_text()
    if old not in s:
        raise RuntimeError(f"edit does not apply to {path}: {old[:50]!r}")
    p.write_text(s.replace(old, new, 1))


SEMANTIC = {
    "A1 drop `task._fut_waiter = None`": lambda r: edit(r, I, "        task._fut_waiter = None  # type: ignore[attr-defined]\n", "        pass\n"),
    "A2 skip remove_done_callback": lambda r: edit(r, I, "            fut_waiter.remove_done_callback(wakeup_method)\n", "            pass\n"),
    "A3 queue_find(remove=False) in task_throw": lambda r: edit(r, I, "                scheduling_loop.task_key(task),\n                remove=True,", "                scheduling_loop.task_key(task),\n                remove=False,"),
    "A4 revert the hoisted _must_cancel refusal": lambda r: edit(r, I, "    if task._must_cancel:  # type: ignore[attr-defined]\n        raise RuntimeError(\"cannot interrupt a cancelled task\")\n\n    if step_method is None:", "    if step_method is None:"),
    "A5 drop `assert task is current_task()`": lambda r: edit(r, I, "                assert task is asyncio.current_task()\n", ""),
    "A6 done-check removed": lambda r: edit(r, I, "    if task.done():\n        raise RuntimeError(\"cannot interrupt task which is done\")\n", ""),
    "A7 refusal tests .done() instead of .cancelled()": lambda r: edit(r, I, "                fut_waiter and fut_waiter.cancelled()\n            ):\n                raise RuntimeError(\"cannot interrupt a cancelled task\")\n\n            # it is in the ready queue (has __step / __wakeup scheduled)", "                fut_waiter and fut_waiter.done()\n            ):\n                raise RuntimeError(\"cannot interrupt a cancelled task\")\n\n            # it is in the ready queue (has __step / __wakeup scheduled)"),
    "A8 blocked test without `not`": lambda r: edit(r, I, "        if fut_waiter and not fut_waiter.done():\n            # it is blocked", "        if fut_waiter and fut_waiter.done():\n            # it is blocked"),
    "A9 _task_reinsert ignores pos": lambda r: edit(r, S, "    loop.queue_insert_pos(handle, pos)", "    loop.queue_insert_pos(handle, 0)"),
    "A10 _task_reinsert inserts at pos + 1": lambda r: edit(r, S, "    loop.queue_insert_pos(handle, pos)", "    loop.queue_insert_pos(handle, pos + 1)"),
    "A11 task_interrupt switches before it throws": lambda r: edit(r, I, "    task_throw(task, exception)\n    await task_switch(task)", "    await task_switch(task)\n    task_throw(task, exception)"),
    "A12 task_interrupt uses task_switch(task, 1)": lambda r: edit(r, I, "    await task_switch(task)\n\n\nclass InterruptException", "    await task_switch(task, 1)\n\n\nclass InterruptException"),
    "A13 call_soon(callback) without the exception": lambda r: edit(r, I, "            callback,\n            arg,\n            context=ctx,", "            callback,\n            context=ctx,"),
    "A14 refusal after the callback was removed (inside a helper)": lambda r: (
        edit(r, I, "            fut_waiter.remove_done_callback(wakeup_method)\n", "            fut_waiter.remove_done_callback(wakeup_method)\n            _late_check(task)\n"),
        edit(r, I, "def c_task_reschedule(", "def _late_check(task):  # type: ignore[no-untyped-def]\n    if task.done():\n        raise RuntimeError(\"cannot interrupt task which is done\")\n\n\ndef c_task_reschedule("),
        edit(r, I, "    if task.done():\n        raise RuntimeError(\"cannot interrupt task which is done\")\n\n    # For Python", "    # For Python")),
    "A15 task_is_blocked forgets done(): `future is not None`": lambda r: edit(r, S, "    return future is not None and not future.done()", "    return future is not None"),
    "A16 task_is_runnable as early returns with the wrong polarity": lambda r: edit(r, S, "    return not (task_is_blocked(task) or task.done())", "    if task_is_blocked(task):\n        return False\n    return task.done()"),
}


def main():
    args = [a for a in sys.argv[1:] if not a.startswith("--")]
    want = lambda n: not args or any(n.startswith(a) for a in args)
    jobs = []
    for d in sorted(HERE.glob("*.diff")):
        jobs.append((d.stem, "proves", ("diff", d)))
    for h in ("h11", "h13"):
        p = ROOT / "harmless" / h / "patch.diff"
        if p.exists():
            jobs.append((f"harmless/{h}", "proves", ("diff", p)))
    for m in ("C15-m1", "C15-m3", "C15-m4", "C15-m5", "C15-m6", "C09-m6"):
        p = ROOT / "seeded" / m / "patch.diff"
        if p.exists():
            jobs.append((f"seeded/{m}", "breaks", ("diff", p)))
    for n, fn in SEMANTIC.items():
        jobs.append((n, "breaks", ("edit", fn)))
    bad = 0
    for name, expect, (kind, what) in jobs:
        if not want(name):
            continue
        tmp = tempfile.mkdtemp(prefix="tie_", dir="/tmp")
        try:
            subprocess.run(f"git -C /repo archive HEAD | tar -x -C {tmp}", shell=True, check=True)
            if kind == "diff":
                r = subprocess.run(["git", "apply", str(what)], cwd=tmp, capture_output=True, text=True)
                if r.returncode:
                    print(f"{name} | DOES NOT APPLY to /repo HEAD")
                    bad += 1
                    continue
            else:
                what(tmp)
            extra = ""
            if "--baseline" in sys.argv and expect == "proves":
                env = dict(os.environ, PYTHONPATH=f"{tmp}/src")
                r2 = subprocess.run(["/venv/bin/python", "-m", "pytest", "-q", "-p", "no:cacheprovider", "--timeout=120",
                                     "--continue-on-collection-errors"], cwd=tmp, env=env, capture_output=True, text=True)
                m = re.search(r"(\d+) passed", r2.stdout)
                extra = f" | suite: {m.group(1) if m else '?'} passed"
            v, detail = verdict(tmp)
            ok = (v == "proves") == (expect == "proves")
            bad += not ok
            print(f"{name} | expected {expect} | {v}{' (' + detail + ')' if detail else ''}{extra} | {'ok' if ok else 'UNEXPECTED'}",
                  flush=True)
        finally:
            shutil.rmtree(tmp, ignore_errors=True)
    v, _ = verdict("/repo")
    print("restored from /repo:", v)
    return 1 if bad or v != "proves" else 0


if __name__ == "__main__":
    sys.exit(main())
