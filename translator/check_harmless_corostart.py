#!/venv/bin/python
"""Regression set for the corostart2lean tie (C01/C03):  translator/check_harmless_corostart.py [extra.diff ...]

Every `translator/harmless_corostart/*.diff` (behaviour-preserving refactorings of CoroStart / _Continuation /
coro_eager / cancelling; r1 = /verif/harmless/g7) and every extra diff given on the command line is applied to a scratch
copy of $ASYNKIT_REPO (default /repo); the unit is re-translated and lean/Asynkit/Gen/CoroStart.lean + the three proof
files (GenEqC01, GenEqC01W, GenEqAbcStd) must still build.  `--mutations` additionally runs the semantic changes of
`MUTATIONS` below, each of which must break the translator or a proof.  lean/Asynkit/Gen is regenerated from
$ASYNKIT_REPO afterwards (do not run concurrently with a check in the same clone).  exit 0 iff every expectation is met.
"""
import os, shutil, subprocess, sys, tempfile
from pathlib import Path

HERE = Path(__file__).resolve().parent
ROOT = HERE.parent
REPO = Path(os.environ.get("ASYNKIT_REPO", "/repo"))
TARGETS = ["Asynkit.Lemmas.GenEqC01", "Asynkit.Lemmas.GenEqC01W", "Asynkit.Lemmas.GenEqAbcStd"]

C, T = "src/asynkit/coroutine.py", "src/asynkit/tools.py"
MUTATIONS = [   # (name, file, old, new)
    ("a1 _start keeps the blocking flag", C, '        if getattr(out_value, "_asyncio_future_blocking", None):\n            out_value._asyncio_future_blocking = False\n        return out_value, None', '        return out_value, None'),
    ("a2 __await__ does not re-arm", C, '            out_value._asyncio_future_blocking = True\n        while True:', '            pass\n        while True:'),
    ("a3 done() inverted", C, 'self.start_result is not None and self.start_result[1] is not None', 'self.start_result is not None and self.start_result[1] is None'),
    ("a5 exception() returns the StopIteration", C, '        if isinstance(exc, StopIteration):\n            return None\n        return exc', '        return exc'),
    ("a6 throw() keeps the flag (revert 7bda94b)", C, '            if getattr(out_value, "_asyncio_future_blocking", None):\n                out_value._asyncio_future_blocking = False\n        else:', '            pass\n        else:'),
    ("a7 close() keeps start_result", C, '        self.start_result = None\n        self._resume(self.coro.close)', '        self._resume(self.coro.close)'),
    ("a8 relay sends instead of throwing", C, '                    out_value = self._resume(self.coro.throw, exc)\n                except StopIteration as exc:', '                    out_value = self._resume(self.coro.send, None)\n                except StopIteration as exc:'),
    ("a9 GeneratorExit branch does not close", C, '            except GeneratorExit:\n                self._resume(self.coro.close)\n                raise', '            except GeneratorExit:\n                raise'),
    ("a10 coro_eager: if not cs.done()", C, '    if cs.done():\n        return cs.as_future()\n', '    if not cs.done():\n        return cs.as_future()\n'),
    ("a11 cancelling cancels only on exceptions", T, '        yield target\n    finally:  # pragma: no cover', '        yield target\n    except BaseException:  # pragma: no cover'),
    ("a13 no flag take-back in _Continuation.throw", C, '            if getattr(out_value, "_asyncio_future_blocking", None):\n                out_value._asyncio_future_blocking = False\n        if val is None:', '        if val is None:'),
    ("a14 aclose swallows BaseException", C, '            await self.athrow(GeneratorExit())\n        except GeneratorExit:', '            await self.athrow(GeneratorExit())\n        except BaseException:'),
    ("a17 eager_ctx without cancelling", C, '    return cancelling(e, msg=msg)', '    return e  # type: ignore'),
    ("a19 `if not cancelled`", C, '                    if cancelled:\n                        return out_value', '                    if not cancelled:\n                        return out_value'),
    ("a21 throw(): one try too many (range(tries) body runs, then RuntimeError even on tries=0 is unchanged; here: else-raise dropped)", C,
     '        else:\n            raise RuntimeError(f"coroutine ignored {type(value).__name__}")', '        else:\n            return None  # type: ignore'),
    ("a22 __await__: exc tested before start_result is cleared -> start_result kept", C, '        out_value, exc = self.start_result\n        self.start_result = None\n', '        out_value, exc = self.start_result\n'),
]


def run(src):
    r = subprocess.run([sys.executable, str(HERE / "py2lean.py"), str(src), str(ROOT / "lean/Asynkit/Gen")],
                       capture_output=True, text=True)
    tr = [l for l in r.stdout.split("\n") if "CANNOT TRANSLATE" in l and "CoroStart" in l]
    b = subprocess.run(["lake", "build"] + TARGETS, cwd=ROOT / "lean", capture_output=True, text=True)
    errs = [l for l in b.stdout.split("\n") if l.startswith("error")]
    return tr, errs


def scratch():
    d = Path(tempfile.mkdtemp(prefix="hcs_"))
    subprocess.run(f"git -C {REPO} archive HEAD | tar -x -C {d}", shell=True, check=True)
    return d


def main():
    extra = [a for a in sys.argv[1:] if not a.startswith("--")]
    diffs = sorted((HERE / "harmless_corostart").glob("*.diff")) + [Path(x) for x in extra]
    bad = 0
    try:
        for d in diffs:
            t = scratch()
            try:
                r = subprocess.run(["git", "apply", str(d.resolve())], cwd=t, capture_output=True, text=True)
                if r.returncode:
                    print(f"{d.name:50s} | DOES NOT APPLY")
                    bad += 1
                    continue
                tr, errs = run(t / "src")
                ok = not tr and not errs
                bad += not ok
                print(f"{d.name:50s} | " + ("re-proves" if ok else "BROKEN: " + (tr or errs)[0][:110]))
            finally:
                shutil.rmtree(t, ignore_errors=True)
        if "--mutations" in sys.argv:
            for name, f, old, new in MUTATIONS:
                t = scratch()
                try:
                    p = t / f
                    s = p.read_text()
                    if old not in s:
                        print(f"{name[:50]:50s} | PATTERN NOT FOUND")
                        bad += 1
                        continue
                    p.write_text(s.replace(old, new, 1))
                    tr, errs = run(t / "src")
                    v = ("translator: " + tr[0].split("]: ", 1)[-1][:80]) if tr else \
                        ("proof breaks: " + errs[0].split("Lemmas/")[-1][:60]) if errs else "NOT DETECTED"
                    bad += v == "NOT DETECTED"
                    print(f"{name[:50]:50s} | {v}")
                finally:
                    shutil.rmtree(t, ignore_errors=True)
    finally:
        subprocess.run([sys.executable, str(HERE / "py2lean.py"), str(REPO / "src"), str(ROOT / "lean/Asynkit/Gen")],
                       capture_output=True)
    return 1 if bad else 0


if __name__ == "__main__":
    sys.exit(main())
