#!/usr/bin/env python3
"""py2lean — regenerate lean/Asynkit/Gen/*.lean from /repo/src on every run (DESIGN §3.3).

Translates a whitelist of straight-line arithmetic / decision functions from the Python AST into
Lean definitions.  `Asynkit/Lemmas/GenEq.lean` proves each generated definition equal to the
hand-written model definition that the property theorems are about, so a change of the code
changes the generated text and either the equality still proves (harmless rewrite) or a proof
obligation breaks.  Anything outside the supported subset makes the translator fail loudly
(exit 1), which the check treats as a broken obligation.

usage: py2lean.py <repo>/src <out-dir>
"""
import ast
import os
import sys
from pathlib import Path

# The stdlib units read the standard library *of the interpreter that runs this script*; the checks run
# asynkit under /venv/bin/python (harness/core.py calls this script with sys.executable), so any other
# way of starting the translator (MANIFEST.setup_cmd, tools/sweep.sh, by hand) is redirected to the same
# interpreter — otherwise the generated files would describe another Python version's stdlib.
_CHECK_PY = os.environ.get("ASYNKIT_CHECK_PYTHON", "/venv/bin/python")
if __name__ == "__main__" and os.path.exists(_CHECK_PY) and \
        os.path.realpath(sys.executable) != os.path.realpath(_CHECK_PY) and not os.environ.get("_PY2LEAN_REEXEC"):
    os.environ["_PY2LEAN_REEXEC"] = "1"
    os.execv(_CHECK_PY, [_CHECK_PY] + sys.argv)


class Unsupported(Exception):
    pass


# ---- type-directed expression translation ------------------------------------------------

class Tr:
    def __init__(self, fields, locals_, methods=None, self_name="self", self_var="self"):
        self.fields = fields        # python attribute -> (lean field, type)
        self.locals = dict(locals_)  # python name -> (lean expr, type)
        self.methods = methods or {}  # python method name -> (lean function, result type)
        self.self_name = self_name
        self.self_var = self_var

    def expr(self, e):
        """-> (lean text, type) ; types: prio nat rat bool"""
        if isinstance(e, ast.Constant):
            if isinstance(e.value, bool):
                return ("true" if e.value else "false"), "bool"
            if isinstance(e.value, int):
                return str(e.value), "num"
            if isinstance(e.value, float) and e.value == int(e.value):
                return str(int(e.value)), "num"
            raise Unsupported(f"constant {e.value!r}")
        if isinstance(e, ast.Name):
            if e.id in self.locals:
                return self.locals[e.id]
            raise Unsupported(f"name {e.id}")
        if isinstance(e, ast.Attribute) and isinstance(e.value, ast.Name):
            base = e.value.id
            if e.attr not in self.fields:
                raise Unsupported(f"attribute .{e.attr}")
            lf, ty = self.fields[e.attr]
            if base == self.self_name:
                return f"{self.self_var}.{lf}", ty
            if base in self.locals:
                return f"{self.locals[base][0]}.{lf}", ty
            raise Unsupported(f"attribute of {base}")
        if isinstance(e, ast.Call):
            f = e.func
            if isinstance(f, ast.Name) and f.id in ("min", "max") and len(e.args) == 2:
                a, ta = self.expr(e.args[0])
                b, tb = self.expr(e.args[1])
                return f"({f.id} {self.paren(a)} {self.paren(b)})", self.join(ta, tb)
            if isinstance(f, ast.Name) and f.id == "len" and len(e.args) == 1:
                a = e.args[0]
                if isinstance(a, ast.Attribute) and a.attr in self.fields and self.fields[a.attr][1] == "lenof":
                    return f"{self.self_var}.{self.fields[a.attr][0]}", "nat"
                raise Unsupported("len() of something else")
            if isinstance(f, ast.Attribute) and isinstance(f.value, ast.Name) and not e.args:
                if f.attr in self.methods:
                    fn, ty = self.methods[f.attr]
                    base = f.value.id
                    arg = self.self_var if base == self.self_name else self.locals[base][0]
                    return f"({fn} {arg})", ty
                if f.value.id == "random" and f.attr == "random" and "random" in self.locals:
                    return self.locals["random"]
            raise Unsupported(f"call {ast.dump(e)[:80]}")
        if isinstance(e, ast.BinOp) and isinstance(e.op, (ast.Add, ast.Sub, ast.Mult)):
            a, ta = self.expr(e.left)
            b, tb = self.expr(e.right)
            op = {ast.Add: "+", ast.Sub: "-", ast.Mult: "*"}[type(e.op)]
            return f"({a} {op} {b})", self.join(ta, tb)
        if isinstance(e, ast.UnaryOp) and isinstance(e.op, ast.Not):
            a, _ = self.expr(e.operand)
            return f"(!{a})", "bool"
        if isinstance(e, ast.BoolOp):
            op = " && " if isinstance(e.op, ast.And) else " || "
            return "(" + op.join(self.expr(v)[0] for v in e.values) + ")", "bool"
        if isinstance(e, ast.Compare) and len(e.ops) == 1:
            a, ta = self.expr(e.left)
            b, tb = self.expr(e.comparators[0])
            op = e.ops[0]
            ty = self.join(ta, tb)
            if ty == "prio":
                if isinstance(op, ast.Lt):
                    return f"(plt {a} {b})", "bool"
                if isinstance(op, ast.Gt):
                    return f"(plt {b} {a})", "bool"
                raise Unsupported("only < is defined on priorities")
            sym = {ast.Lt: "<", ast.Gt: ">", ast.LtE: "≤", ast.GtE: "≥", ast.Eq: "=", ast.NotEq: "≠"}.get(type(op))
            if sym is None:
                raise Unsupported(f"comparison {op}")
            return f"(decide ({a} {sym} {b}))", "bool"
        raise Unsupported(ast.dump(e)[:100])

    @staticmethod
    def paren(s):
        return s

    @staticmethod
    def join(a, b):
        if a == "num":
            return b
        if b == "num":
            return a
        if a != b:
            raise Unsupported(f"type mismatch {a} vs {b}")
        return a


def find_func(tree, cls, name):
    for node in ast.walk(tree):
        if cls is None and isinstance(node, ast.FunctionDef) and node.name == name:
            return node
        if isinstance(node, ast.ClassDef) and node.name == cls:
            for n in node.body:
                if isinstance(n, ast.FunctionDef) and n.name == name:
                    return n
    raise Unsupported(f"{cls}.{name} not found")


def body_no_doc(fn):
    b = fn.body
    if b and isinstance(b[0], ast.Expr) and isinstance(getattr(b[0], "value", None), ast.Constant) \
            and isinstance(b[0].value.value, str):
        b = b[1:]
    return b


# ---- pure functions: (if ...: return e)* ; locals ; return e --------------------------------

def pure_body(tr, stmts, indent="  "):
    if not stmts:
        raise Unsupported("function may fall off its end")
    s, rest = stmts[0], stmts[1:]
    if isinstance(s, ast.Return):
        return indent + tr.expr(s.value)[0]
    if isinstance(s, ast.Assign) and len(s.targets) == 1 and isinstance(s.targets[0], ast.Name):
        v, ty = tr.expr(s.value)
        name = s.targets[0].id
        lean_name = name + "_"
        tr.locals[name] = (lean_name, ty)
        return f"{indent}let {lean_name} := {v}\n" + pure_body(tr, rest, indent)
    if isinstance(s, ast.If):
        c, _ = tr.expr(s.test)
        then = pure_body(tr, s.body + ([] if ends_in_return(s.body) else rest), indent + "  ")
        els = pure_body(tr, (s.orelse + ([] if ends_in_return(s.orelse) else rest)) if s.orelse else rest, indent + "  ")
        return f"{indent}if {c} then\n{then}\n{indent}else\n{els}"
    raise Unsupported(f"statement {type(s).__name__}")


def ends_in_return(stmts):
    return bool(stmts) and isinstance(stmts[-1], ast.Return)


# ---- state transformers over a record (update_counters) ------------------------------------

def state_lines(tr, stmts, state, fields_w, calls, counter):
    """Translate statements that assign to self.<field> into `let` lines (relative indentation)
    ending with the name of the final record."""
    out = []
    cur = state

    def fresh():
        counter[0] += 1
        return f"s{counter[0]}"

    for s in stmts:
        tr.self_var = cur
        if isinstance(s, ast.AugAssign) and isinstance(s.target, ast.Attribute) and isinstance(s.op, ast.Add):
            f = fields_w[s.target.attr]
            v, _ = tr.expr(s.value)
            nm = fresh()
            out.append(f"let {nm} := {{ {cur} with {f} := {cur}.{f} + {v} }}")
            cur = nm
        elif isinstance(s, ast.Assign):
            v, ty = tr.expr(s.value)
            if all(isinstance(t, ast.Attribute) for t in s.targets):
                nm = fresh()
                upd = ", ".join(f"{fields_w[t.attr]} := {v}" for t in s.targets)
                out.append(f"let {nm} := {{ {cur} with {upd} }}")
                cur = nm
            elif len(s.targets) == 1 and isinstance(s.targets[0], ast.Name):
                name = s.targets[0].id
                tr.locals[name] = (name + "_", ty)
                out.append(f"let {name}_ := {v}")
            else:
                raise Unsupported("assignment form")
        elif isinstance(s, ast.Expr) and isinstance(s.value, ast.Call) and isinstance(s.value.func, ast.Attribute) \
                and s.value.func.attr in calls:
            nm = fresh()
            out.append(f"let {nm} := {{ {cur} with {calls[s.value.func.attr]} := true }}")
            cur = nm
        elif isinstance(s, ast.If):
            c, _ = tr.expr(s.test)
            saved = dict(tr.locals)
            then = state_lines(tr, s.body, cur, fields_w, calls, counter)
            tr.locals = dict(saved)
            tr.self_var = cur
            els = state_lines(tr, s.orelse, cur, fields_w, calls, counter) if s.orelse else [cur]
            tr.locals = saved
            nm = fresh()
            out.append(f"let {nm} :=")
            out.append(f"  if {c} then")
            out += ["    " + ln for ln in then]
            out.append("  else")
            out += ["    " + ln for ln in els]
            cur = nm
        else:
            raise Unsupported(f"statement {ast.dump(s)[:80]}")
    out.append(cur)
    return out


def state_body(tr, stmts, state, fields_w, calls, indent="  "):
    return "\n".join(indent + ln for ln in state_lines(tr, stmts, state, fields_w, calls, [0]))



# ---- C18: lock coverage of PosPriorityQueue, primitives used by the deque helpers ------------

def _touches(node, attr="_pq"):
    for n in ast.walk(node):
        if isinstance(n, ast.Attribute) and n.attr == attr and isinstance(n.value, ast.Name) and n.value.id == "self":
            return True
    return False


def _is_lock_with(stmt):
    return isinstance(stmt, ast.With) and any(
        isinstance(i.context_expr, ast.Attribute) and i.context_expr.attr == "_lock" for i in stmt.items)


def _unlocked_touch(stmts, helpers):
    """statements (outside `with self._lock`) that touch self._pq or call an internal helper"""
    bad = []
    for st in stmts:
        if _is_lock_with(st):
            continue
        if isinstance(st, (ast.If, ast.For, ast.While, ast.Try, ast.With)):
            # look inside compound statements
            inner = []
            for field in ("body", "orelse", "finalbody"):
                inner += getattr(st, field, []) or []
            for hnd in getattr(st, "handlers", []) or []:
                inner += hnd.body
            hdr = [getattr(st, "test", None), getattr(st, "iter", None)]
            if any(h is not None and (_touches(h) or _calls_helper(h, helpers)) for h in hdr):
                bad.append(st)
            bad += _unlocked_touch(inner, helpers)
        elif _touches(st) or _calls_helper(st, helpers):
            bad.append(st)
    return bad


def _calls_helper(node, helpers):
    for n in ast.walk(node):
        if isinstance(n, ast.Call) and isinstance(n.func, ast.Attribute) and isinstance(n.func.value, ast.Name) \
                and n.func.value.id == "self" and n.func.attr in helpers:
            return True
    return False


def lock_coverage(prio_tree):
    """status per method of PosPriorityQueue:
       0 does not touch the heap; 1 every heap access is under `with self._lock`;
       2 internal helper, only ever called under the lock; 3 a single atomic read (len/bool);
       5 constructor; 4 UNPROTECTED"""
    cls = next(n for n in ast.walk(prio_tree) if isinstance(n, ast.ClassDef) and n.name == "PosPriorityQueue")
    methods = [n for n in cls.body if isinstance(n, ast.FunctionDef)]
    # candidates for internal helpers: methods that touch _pq without any lock of their own
    helpers = set()
    changed = True
    while changed:
        changed = False
        for m in methods:
            if m.name in helpers or m.name.startswith("__"):
                continue
            body = body_no_doc(m)
            if (_touches(m) or _calls_helper(m, helpers)) and not any(_is_lock_with(st) for st in ast.walk(m)):
                # a helper only if every call site in the class is under the lock or in another helper
                ok = True
                for other in methods:
                    if other is m:
                        continue
                    if _calls_helper(other, {m.name}):
                        if other.name in helpers:
                            continue
                        if _calls_in_unlocked(body_no_doc(other), m.name):
                            ok = False
                if ok and any(_calls_helper(o, {m.name}) for o in methods if o is not m):
                    helpers.add(m.name)
                    changed = True
    out = []
    for m in methods:
        body = body_no_doc(m)
        if m.name == "__init__":
            st = 5
        elif m.name in helpers:
            st = 2
        elif not _touches(m) and not _calls_helper(m, helpers):
            st = 0
        elif len(body) == 1 and isinstance(body[0], ast.Return) and isinstance(body[0].value, ast.Call) \
                and isinstance(body[0].value.func, ast.Name) and body[0].value.func.id in ("len", "bool"):
            st = 3
        elif not _unlocked_touch([b for b in body if not isinstance(b, ast.Assert)], helpers):
            st = 1
        else:
            st = 4
        out.append((m.name, st))
    return out


def _calls_in_unlocked(stmts, name):
    for st in stmts:
        if _is_lock_with(st):
            continue
        if isinstance(st, (ast.If, ast.For, ast.While, ast.Try, ast.With)):
            inner = []
            for field in ("body", "orelse", "finalbody"):
                inner += getattr(st, field, []) or []
            for hnd in getattr(st, "handlers", []) or []:
                inner += hnd.body
            if _calls_in_unlocked(inner, name):
                return True
            hdr = [getattr(st, "test", None), getattr(st, "iter", None)]
            if any(h is not None and _calls_helper(h, {name}) for h in hdr):
                return True
        elif _calls_helper(st, {name}):
            return True
    return False


def deque_primitives(default_tree):
    """which operations the deque helpers apply to the ready queue (`queue` / `loop._ready`)"""
    out = []
    for fname in ("queue_find", "queue_remove", "call_pos"):
        fn = find_func(default_tree, None, fname)
        prims = set()
        for n in ast.walk(fn):
            if isinstance(n, ast.Call) and isinstance(n.func, ast.Attribute) and isinstance(n.func.value, ast.Name) \
                    and n.func.value.id == "queue":
                prims.add(n.func.attr)
            if isinstance(n, ast.Subscript) and isinstance(n.value, ast.Name) and n.value.id == "queue":
                prims.add("subscript")
            if isinstance(n, ast.For) and isinstance(n.iter, ast.Name) and n.iter.id == "queue":
                prims.add("iterate-live")
            if isinstance(n, ast.Call) and isinstance(n.func, ast.Name) and n.func.id in ("reversed", "enumerate") \
                    and n.args and isinstance(n.args[0], ast.Name) and n.args[0].id == "queue":
                prims.add("iterate-live")
            if isinstance(n, ast.Call) and isinstance(n.func, ast.Name) and n.func.id == "deque_pop":
                prims.add("deque_pop")
            if isinstance(n, ast.Call) and isinstance(n.func, ast.Name) and n.func.id in ("list", "tuple") \
                    and n.args and isinstance(n.args[0], ast.Name) and n.args[0].id == "queue":
                prims.add("snapshot")
        out.append((fname, sorted(prims)))
    return out


# ---- C08/C09: statement-level translation of deque programs and task-state predicates ---------

class DequeProg:
    """Statement-level translation of a function that manipulates one deque (`dq`) with
    `rotate/popleft/pop/remove/insert/append`, integer locals, `len(dq)`, `if`, `return`, `raise`.
    The deque is a `List α`; every mutation binds a new list name; an exception is `none`.
    `if` without a returning branch is translated by duplicating the continuation, so local
    re-assignments need no merging."""

    def __init__(self, dq, ints, elems=(), ret="elem"):
        self.n = 0
        self.dq0 = dq
        self.ints0 = {k: k for k in ints}
        self.elems0 = {k: k for k in elems}
        self.ret = ret            # "elem": return (x, deque) ; "deque": return the deque

    def fresh(self, base):
        self.n += 1
        return f"{base}{self.n}"

    def iexpr(self, e, env):
        if isinstance(e, ast.Constant) and isinstance(e.value, int) and not isinstance(e.value, bool):
            return str(e.value) if e.value >= 0 else f"({e.value})"
        if isinstance(e, ast.Name):
            if e.id in env["ints"]:
                return env["ints"][e.id]
            raise Unsupported(f"integer name {e.id}")
        if isinstance(e, ast.UnaryOp) and isinstance(e.op, ast.USub):
            return f"(-{self.iexpr(e.operand, env)})"
        if isinstance(e, ast.BinOp) and isinstance(e.op, (ast.Add, ast.Sub)):
            op = "+" if isinstance(e.op, ast.Add) else "-"
            return f"({self.iexpr(e.left, env)} {op} {self.iexpr(e.right, env)})"
        if isinstance(e, ast.BinOp) and isinstance(e.op, ast.RShift) and isinstance(e.right, ast.Constant) \
                and isinstance(e.right.value, int) and 0 <= e.right.value < 32:
            # x >> k on Python ints is floor division by 2^k; Lean's Int `/` is Euclidean: same for a positive divisor
            return f"({self.iexpr(e.left, env)} / {2 ** e.right.value})"
        if isinstance(e, ast.BinOp) and isinstance(e.op, ast.FloorDiv) and isinstance(e.right, ast.Constant) \
                and isinstance(e.right.value, int) and e.right.value > 0:
            return f"({self.iexpr(e.left, env)} / {e.right.value})"
        if isinstance(e, ast.Call) and isinstance(e.func, ast.Name) and e.func.id == "len" and len(e.args) == 1 \
                and isinstance(e.args[0], ast.Name) and e.args[0].id == env["dqname"]:
            return f"({env['dq']}.length : Int)"
        raise Unsupported(f"integer expression {ast.dump(e)[:80]}")

    def cond(self, e, env):
        # a handle found by the search is never None
        if isinstance(e, ast.Compare) and len(e.ops) == 1 and isinstance(e.ops[0], (ast.Is, ast.IsNot)) \
                and isinstance(e.left, ast.Name) and e.left.id in env["elems"] \
                and isinstance(e.comparators[0], ast.Constant) and e.comparators[0].value is None:
            return "True" if isinstance(e.ops[0], ast.IsNot) else "False"
        if isinstance(e, ast.Name) and e.id in env["elems"]:
            return "True"                              # a Handle object is truthy
        if isinstance(e, ast.Compare) and len(e.ops) == 1:
            sym = {ast.Lt: "<", ast.Gt: ">", ast.LtE: "≤", ast.GtE: "≥", ast.Eq: "=", ast.NotEq: "≠"}.get(type(e.ops[0]))
            if sym is None:
                raise Unsupported("comparison")
            return f"{self.iexpr(e.left, env)} {sym} {self.iexpr(e.comparators[0], env)}"
        if isinstance(e, ast.Name) and e.id in env.get("bools", {}):
            return f"{env['bools'][e.id]} = true"
        if isinstance(e, ast.BoolOp):
            op = " ∧ " if isinstance(e.op, ast.And) else " ∨ "
            return op.join(f"({self.cond(v, env)})" for v in e.values)
        if isinstance(e, ast.UnaryOp) and isinstance(e.op, ast.Not):
            return f"¬ ({self.cond(e.operand, env)})"
        # a handle found by the search is never None
        if isinstance(e, ast.Compare) and len(e.ops) == 1 and isinstance(e.ops[0], (ast.Is, ast.IsNot)) \
                and isinstance(e.left, ast.Name) and e.left.id in env["elems"] \
                and isinstance(e.comparators[0], ast.Constant) and e.comparators[0].value is None:
            return "True" if isinstance(e.ops[0], ast.IsNot) else "False"
        raise Unsupported(f"condition {ast.dump(e)[:80]}")

    @staticmethod
    def _dq_call(e, env):
        """(method, args) when `e` is `<dq>.<method>(args)`"""
        if isinstance(e, ast.Call) and isinstance(e.func, ast.Attribute) and isinstance(e.func.value, ast.Name) \
                and e.func.value.id == env["dqname"] and not e.keywords:
            return e.func.attr, e.args
        return None

    def elem(self, e, env):
        if isinstance(e, ast.Name) and e.id in env["elems"]:
            return env["elems"][e.id]
        raise Unsupported(f"element expression {ast.dump(e)[:60]}")

    def block(self, stmts, env, ind):
        if not stmts:
            raise Unsupported("control can fall off the end of the function")
        s, rest = stmts[0], stmts[1:]
        env = {**env, "ints": dict(env["ints"]), "elems": dict(env["elems"])}
        if isinstance(s, ast.Raise):
            exc = s.exc.func.id if isinstance(s.exc, ast.Call) and isinstance(s.exc.func, ast.Name) else \
                (s.exc.id if isinstance(s.exc, ast.Name) else None)
            if exc not in ("IndexError", "ValueError"):
                raise Unsupported("raise of something else")
            return f"{ind}none"
        if isinstance(s, ast.Return):
            if self.ret == "elem":
                return f"{ind}some ({self.elem(s.value, env)}, {env['dq']})"
            if self.ret == "optelem":
                if isinstance(s.value, ast.Constant) and s.value.value is None:
                    return f"{ind}some (none, {env['dq']})"
                return f"{ind}some (some {self.elem(s.value, env)}, {env['dq']})"
            self.elem(s.value, env)      # `return handle`: the caller gets the deque
            return f"{ind}some {env['dq']}"
        if isinstance(s, ast.If):
            c = self.cond(s.test, env)
            then = self.block(s.body + ([] if ends_in_exit(s.body) else rest), env, ind + "  ")
            els_stmts = (s.orelse + ([] if ends_in_exit(s.orelse) else rest)) if s.orelse else rest
            els = self.block(els_stmts, env, ind + "  ")
            return f"{ind}if {c} then\n{then}\n{ind}else\n{els}"
        if isinstance(s, ast.AugAssign) and isinstance(s.target, ast.Name) and isinstance(s.op, (ast.Add, ast.Sub)) \
                and s.target.id in env["ints"]:
            op = "+" if isinstance(s.op, ast.Add) else "-"
            nm = self.fresh(s.target.id)
            v = f"{env['ints'][s.target.id]} {op} {self.iexpr(s.value, env)}"
            env["ints"][s.target.id] = nm
            return f"{ind}let {nm} : Int := {v}\n" + self.block(rest, env, ind)
        if isinstance(s, ast.Assign) and len(s.targets) == 1 and isinstance(s.targets[0], ast.Name):
            name = s.targets[0].id
            call = self._dq_call(s.value, env)
            if call and call[0] in ("popleft", "pop") and not call[1]:
                r, d2 = self.fresh(name), self.fresh("d")
                prim = "Deque.popleft" if call[0] == "popleft" else "Deque.pop"
                env2 = {**env, "dq": d2, "elems": {**env["elems"], name: r}}
                return (f"{ind}match {prim} {env['dq']} with\n{ind}| none => none\n{ind}| some ({r}, {d2}) =>\n"
                        + self.block(rest, env2, ind + "  "))
            nm = self.fresh(name)
            v = self.iexpr(s.value, env)
            env["ints"][name] = nm
            return f"{ind}let {nm} : Int := {v}\n" + self.block(rest, env, ind)
        if isinstance(s, ast.Expr):
            call = self._dq_call(s.value, env)
            if call and call[0] == "rotate" and len(call[1]) == 1:
                d2 = self.fresh("d")
                line = f"{ind}let {d2} := Deque.rotate {env['dq']} {self.iexpr(call[1][0], env)}\n"
                return line + self.block(rest, {**env, "dq": d2}, ind)
            if call and call[0] == "remove" and len(call[1]) == 1:
                d2 = self.fresh("d")
                return (f"{ind}match Deque.remove {env['dq']} {self.elem(call[1][0], env)} with\n{ind}| none => none\n"
                        f"{ind}| some {d2} =>\n" + self.block(rest, {**env, "dq": d2}, ind + "  "))
            if call and call[0] == "insert" and len(call[1]) == 2:
                d2 = self.fresh("d")
                line = (f"{ind}let {d2} := Deque.insert {env['dq']} {self.iexpr(call[1][0], env)} "
                        f"{self.elem(call[1][1], env)}\n")
                return line + self.block(rest, {**env, "dq": d2}, ind)
        raise Unsupported(f"statement {ast.dump(s)[:100]}")

    def start(self, dqname, bools=None):
        return {"dqname": dqname, "dq": self.dq0, "ints": dict(self.ints0), "elems": dict(self.elems0),
                "bools": dict(bools or {})}


def ends_in_exit(stmts):
    return bool(stmts) and isinstance(stmts[-1], (ast.Return, ast.Raise))


def gen_deque_pop(tools_tree):
    fn = find_func(tools_tree, None, "deque_pop")
    a = [x.arg for x in fn.args.args]
    if len(a) != 2:
        raise Unsupported("deque_pop signature")
    dp = DequeProg("d", ["pos"])
    env = dp.start(a[0])
    env["ints"] = {a[1]: "pos"}
    return dp.block(body_no_doc(fn), env, "  ")


def gen_queue_find(default_tree):
    """`for h in reversed(list(queue)): if key(h): [if remove: queue.remove(h)]; return h` / `return None`
    — the search-loop idiom: first element of the iterated sequence satisfying the test."""
    fn = find_func(default_tree, None, "queue_find")
    a = [x.arg for x in fn.args.args]
    if len(a) != 3:
        raise Unsupported("queue_find signature")
    qn, keyn, rmn = a
    body = [s for s in body_no_doc(fn) if not isinstance(s, ast.Expr) or not isinstance(s.value, ast.Constant)]
    seqvars = {}

    # a sequence of the queue's elements: reversed(list(queue)) | list(queue) | reversed(queue) | queue | a local snapshot
    def seq(e):
        if isinstance(e, ast.Name) and e.id == qn:
            return "q"
        if isinstance(e, ast.Name) and e.id in seqvars:
            return seqvars[e.id]
        if isinstance(e, ast.Call) and isinstance(e.func, ast.Name) and len(e.args) == 1 and not e.keywords:
            if e.func.id in ("list", "tuple"):
                return seq(e.args[0])
            if e.func.id == "reversed":
                return f"{seq(e.args[0])}.reverse"
        raise Unsupported("queue_find: iterated sequence")

    # local snapshots taken before the loop (nothing mutates the queue in between)
    while body:
        b0 = body[0]
        if isinstance(b0, ast.Assign) and len(b0.targets) == 1 and isinstance(b0.targets[0], ast.Name):
            try:
                seqvars[b0.targets[0].id] = seq(b0.value)
            except Unsupported:
                break                                   # not a snapshot: the search itself starts here
        elif isinstance(b0, ast.Expr) and isinstance(b0.value, ast.Call) and isinstance(b0.value.func, ast.Attribute) \
                and b0.value.func.attr == "reverse" and not b0.value.args and isinstance(b0.value.func.value, ast.Name) \
                and b0.value.func.value.id in seqvars:
            seqvars[b0.value.func.value.id] += ".reverse"      # in-place reversal of a local snapshot
        else:
            break
        body = body[1:]
    # the search written as `h = next((x for x in <seq> if key(x)), None)` followed by statements on `h`
    b0 = body[0] if body else None
    if isinstance(b0, ast.Assign) and len(b0.targets) == 1 and isinstance(b0.targets[0], ast.Name) \
            and isinstance(b0.value, ast.Call) and isinstance(b0.value.func, ast.Name) and b0.value.func.id == "next" \
            and len(b0.value.args) == 2 and isinstance(b0.value.args[0], ast.GeneratorExp) \
            and isinstance(b0.value.args[1], ast.Constant) and b0.value.args[1].value is None:
        g = b0.value.args[0]
        if not (len(g.generators) == 1 and isinstance(g.generators[0].target, ast.Name) and isinstance(g.elt, ast.Name)
                and g.elt.id == g.generators[0].target.id and len(g.generators[0].ifs) == 1 and not g.generators[0].is_async):
            raise Unsupported("queue_find: generator expression")
        x = g.elt.id
        t = g.generators[0].ifs[0]
        if not (isinstance(t, ast.Call) and isinstance(t.func, ast.Name) and t.func.id == keyn and len(t.args) == 1
                and isinstance(t.args[0], ast.Name) and t.args[0].id == x):
            raise Unsupported("queue_find: the generator does not filter by key(x)")
        hn = b0.targets[0].id
        rest = body[1:]
        if not (rest and isinstance(rest[-1], ast.Return) and isinstance(rest[-1].value, ast.Name) and rest[-1].value.id == hn):
            raise Unsupported("queue_find: does not end with `return <found>`")

        def guarded_by_found(test):
            """is `test` false when the found value is None?"""
            if isinstance(test, ast.Name) and test.id == hn:
                return True
            if isinstance(test, ast.Compare) and len(test.ops) == 1 and isinstance(test.ops[0], ast.IsNot) \
                    and isinstance(test.left, ast.Name) and test.left.id == hn \
                    and isinstance(test.comparators[0], ast.Constant) and test.comparators[0].value is None:
                return True
            if isinstance(test, ast.BoolOp) and isinstance(test.op, ast.And):
                return any(guarded_by_found(v) for v in test.values)
            return False
        for st_ in rest[:-1]:
            if not (isinstance(st_, ast.If) and not st_.orelse and guarded_by_found(st_.test)):
                raise Unsupported("queue_find: a statement that is not guarded by `<found> is not None`")
        dp = DequeProg("q", [], elems=["h"], ret="optelem")
        env = dp.start(qn, bools={rmn: "rm"})
        env["elems"] = {hn: "h"}
        found = dp.block(rest, env, "    ")
        return (f"  match ({seq(g.generators[0].iter)}).find? key with\n  | none => some (none, q)\n  | some h =>\n{found}")
    if len(body) != 2 or not isinstance(body[0], ast.For) or body[0].orelse:
        raise Unsupported("queue_find is no longer `for ...: ...` followed by a return")
    loop, tail = body
    if not (isinstance(tail, ast.Return) and isinstance(tail.value, ast.Constant) and tail.value.value is None):
        raise Unsupported("queue_find: statement after the loop")
    it = loop.iter
    if not isinstance(loop.target, ast.Name):
        raise Unsupported("queue_find: loop target")
    hn = loop.target.id

    def is_key_test(t):
        return (isinstance(t, ast.Call) and isinstance(t.func, ast.Name) and t.func.id == keyn
                and len(t.args) == 1 and isinstance(t.args[0], ast.Name) and t.args[0].id == hn)

    lb = loop.body
    first = lb[0] if lb else None
    if len(lb) == 1 and isinstance(first, ast.If) and not first.orelse and is_key_test(first.test):
        inner = first.body                                   # if key(handle): …; return handle
    elif isinstance(first, ast.If) and not first.orelse and isinstance(first.test, ast.UnaryOp) \
            and isinstance(first.test.op, ast.Not) and is_key_test(first.test.operand) \
            and len(first.body) == 1 and isinstance(first.body[0], ast.Continue):
        inner = lb[1:]                                       # if not key(handle): continue; …; return handle
    else:
        raise Unsupported("queue_find: loop body is neither `if key(handle): …` nor a `continue` guard on it")
    if not ends_in_exit(inner):
        raise Unsupported("queue_find: the match branch does not return")
    dp = DequeProg("q", [], elems=["h"], ret="optelem")
    env = dp.start(qn, bools={rmn: "rm"})
    env["elems"] = {hn: "h"}
    found = dp.block(inner, env, "    ")
    return (f"  match ({seq(it)}).find? key with\n  | none => some (none, q)\n  | some h =>\n{found}")


def gen_call_pos(default_tree):
    """`handle = call_soon(...)` appends the new handle; then the deque statements"""
    fn = find_func(default_tree, None, "call_pos")
    pos = [x.arg for x in fn.args.args][1]
    body = body_no_doc(fn)
    if not (len(body) >= 2 and isinstance(body[0], ast.Assign) and isinstance(body[0].value, ast.Call)
            and isinstance(body[0].value.func, ast.Name) and body[0].value.func.id == "call_soon"
            and isinstance(body[0].targets[0], ast.Name)):
        raise Unsupported("call_pos no longer starts with handle = call_soon(...)")
    hn = body[0].targets[0].id
    if not (isinstance(body[1], ast.Assign) and isinstance(body[1].targets[0], ast.Name)
            and isinstance(body[1].value, ast.Attribute) and body[1].value.attr == "_ready"):
        raise Unsupported("call_pos: queue = loop._ready expected")
    qn = body[1].targets[0].id
    dp = DequeProg("q1", [pos], elems=["h"], ret="deque")
    env = dp.start(qn)
    env["ints"] = {pos: "pos"}
    env["elems"] = {hn: "h"}
    rest = [s for s in body[2:] if not isinstance(s, ast.Assert)]
    return "  let q1 := q ++ [h]\n" + dp.block(rest, env, "  ")


class PredTr:
    """boolean functions of a task view: `task._fut_waiter` (None or a future, of which only
    `.done()` is read), `task.done()`, calls of already translated predicates"""

    def __init__(self, task, known):
        self.task, self.known = task, known
        self.opts = {}

    def expr(self, e, bound=None):
        bound = bound or {}
        if isinstance(e, ast.Constant) and isinstance(e.value, bool):
            return "true" if e.value else "false"
        if isinstance(e, ast.IfExp):
            t = self._is_none_test(e.test)
            if t is not None:                      # `A if X is None else B` / `A if X is not None else B`
                x, none_first = t
                nb, sb = (e.body, e.orelse) if none_first else (e.orelse, e.body)
                return (f"(match {self.opts[x]} with | none => {self.expr(nb, bound)} "
                        f"| some {x}_v => {self.expr(sb, {**bound, x: f'{x}_v'})})")
            return f"(if {self.expr(e.test, bound)} = true then {self.expr(e.body, bound)} else {self.expr(e.orelse, bound)})"
        if isinstance(e, ast.UnaryOp) and isinstance(e.op, ast.Not):
            return f"(!{self.expr(e.operand, bound)})"
        if isinstance(e, ast.BoolOp) and isinstance(e.op, ast.Or):
            t = self._is_none_test(e.values[0])
            if t is not None and t[1] and len(e.values) >= 2:      # `X is None or <rest, where X is not None>`
                rest = e.values[1] if len(e.values) == 2 else ast.BoolOp(op=ast.Or(), values=e.values[1:])
                inner = self.expr(rest, {**bound, t[0]: f"{t[0]}_v"})
                return f"(match {self.opts[t[0]]} with | none => true | some {t[0]}_v => {inner})"
            return "(" + " || ".join(self.expr(v, bound) for v in e.values) + ")"
        if isinstance(e, ast.BoolOp) and isinstance(e.op, ast.And):
            first, rest = e.values[0], e.values[1:]
            x = self._is_not_none(first)
            if x is not None:
                inner = self.expr(rest[0] if len(rest) == 1 else ast.BoolOp(op=ast.And(), values=rest),
                                  {**bound, x: f"{x}_v"})
                return f"(match {self.opts[x]} with | none => false | some {x}_v => {inner})"
            return "(" + " && ".join(self.expr(v, bound) for v in e.values) + ")"
        x = self._is_not_none(e)
        if x is not None:
            return f"{self.opts[x]}.isSome"
        t = self._is_none_test(e)
        if t is not None and t[1]:
            return f"(!{self.opts[t[0]]}.isSome)"
        if isinstance(e, ast.Call) and not e.args and isinstance(e.func, ast.Attribute) and e.func.attr == "done" \
                and isinstance(e.func.value, ast.Name):
            base = e.func.value.id
            if base == self.task:
                return f"{self.task}.done"
            if base in bound:
                return bound[base]
            raise Unsupported(f".done() of {base}, which may be None here")
        if isinstance(e, ast.Call) and isinstance(e.func, ast.Name) and e.func.id in self.known and len(e.args) == 1 \
                and isinstance(e.args[0], ast.Name) and e.args[0].id == self.task:
            return f"({self.known[e.func.id]} {self.task})"
        raise Unsupported(f"predicate expression {ast.dump(e)[:80]}")

    def _is_not_none(self, e):
        if isinstance(e, ast.Compare) and len(e.ops) == 1 and isinstance(e.ops[0], ast.IsNot) \
                and isinstance(e.left, ast.Name) and e.left.id in self.opts \
                and isinstance(e.comparators[0], ast.Constant) and e.comparators[0].value is None:
            return e.left.id
        return None

    def _is_none_test(self, e):
        """(name, positive?) for `X is None` (True) / `X is not None` (False) on an optional local"""
        if isinstance(e, ast.Compare) and len(e.ops) == 1 and isinstance(e.ops[0], (ast.Is, ast.IsNot)) \
                and isinstance(e.left, ast.Name) and e.left.id in self.opts \
                and isinstance(e.comparators[0], ast.Constant) and e.comparators[0].value is None:
            return e.left.id, isinstance(e.ops[0], ast.Is)
        return None

    def body(self, stmts, bound=None, ind="  "):
        """statements: optional-local bindings, `if`s with early returns (guard clauses), `return`"""
        bound = dict(bound or {})
        if not stmts:
            raise Unsupported("predicate may fall off its end")
        s, rest = stmts[0], stmts[1:]
        tgt = val = None
        if isinstance(s, ast.AnnAssign) and isinstance(s.target, ast.Name) and s.value is not None:
            tgt, val = s.target.id, s.value
        elif isinstance(s, ast.Assign) and len(s.targets) == 1 and isinstance(s.targets[0], ast.Name):
            tgt, val = s.targets[0].id, s.value
        if tgt is not None:
            if isinstance(val, ast.Attribute) and isinstance(val.value, ast.Name) and val.value.id == self.task \
                    and val.attr == "_fut_waiter":
                self.opts[tgt] = f"{tgt}_"
                return f"{ind}let {tgt}_ := {self.task}.futWaiter\n" + self.body(rest, bound, ind)
            raise Unsupported("assignment in a predicate")
        if isinstance(s, ast.Return):
            return ind + self.expr(s.value, bound)
        if isinstance(s, ast.If):
            def cont(branch):
                return branch + ([] if (branch and isinstance(branch[-1], ast.Return)) else rest)
            t = self._is_none_test(s.test)
            if t is None and isinstance(s.test, ast.UnaryOp) and isinstance(s.test.op, ast.Not) \
                    and isinstance(s.test.operand, ast.Name) and s.test.operand.id in self.opts:
                t = (s.test.operand.id, True)          # `if not future:` — a Future object is always truthy
            if t is not None:
                x, is_none_branch = t
                nb, sb = (s.body, s.orelse) if is_none_branch else (s.orelse, s.body)
                none_txt = self.body(cont(nb), bound, ind + "  ")
                some_txt = self.body(cont(sb), {**bound, x: f"{x}_v"}, ind + "  ")
                return (f"{ind}match {self.opts[x]} with\n{ind}| none =>\n{none_txt}\n"
                        f"{ind}| some {x}_v =>\n{some_txt}")
            c = self.expr(s.test, bound)
            return (f"{ind}if {c} = true then\n{self.body(cont(s.body), bound, ind + '  ')}\n"
                    f"{ind}else\n{self.body(cont(s.orelse), bound, ind + '  ')}")
        raise Unsupported(f"statement {type(s).__name__} in a predicate")


def gen_sched(src: Path) -> str:
    tools = ast.parse((src / "asynkit/tools.py").read_text())
    dflt = ast.parse((src / "asynkit/loop/default.py").read_text())
    sched = ast.parse((src / "asynkit/scheduling.py").read_text())
    fb = find_func(sched, None, "task_is_blocked")
    fr = find_func(sched, None, "task_is_runnable")
    tb = fb.args.args[0].arg
    trn = fr.args.args[0].arg
    blocked = PredTr(tb, {}).body(body_no_doc(fb)).replace(f"{tb}.", "task.")
    runnable = PredTr(trn, {"task_is_blocked": "taskIsBlocked"}).body(body_no_doc(fr)) \
        .replace(f"{trn}.", "task.").replace(f"taskIsBlocked {trn}", "taskIsBlocked task")
    return f"""-- GENERATED by translator/py2lean.py from src/asynkit/tools.py, loop/default.py, scheduling.py — do not edit
import Asynkit.Model.Deque
namespace Asynkit.Gen
open Asynkit

/-- `tools.deque_pop(d, pos)`, statement by statement; `none` = IndexError -/
def dequePop {{α : Type}} (d : List α) (pos : Int) : Option (α × List α) :=
{gen_deque_pop(tools)}

/-- `default.queue_find(queue, key, remove)`; `none` = an exception escaped -/
def queueFind {{α : Type}} [BEq α] (q : List α) (key : α → Bool) (rm : Bool) : Option (Option α × List α) :=
{gen_queue_find(dflt)}

/-- `default.call_pos(loop, pos, callback)` with `h` the handle `call_soon` creates and appends;
    `none` = an exception escaped -/
def callPos {{α : Type}} [BEq α] (q : List α) (pos : Int) (h : α) : Option (List α) :=
{gen_call_pos(dflt)}

/-- what `task_is_blocked` / `task_is_runnable` read of a task: `_fut_waiter` (`none`, or whether
    that future is done) and `task.done()` -/
structure TaskView where
  futWaiter : Option Bool
  done : Bool

/-- `scheduling.task_is_blocked` -/
def taskIsBlocked (task : TaskView) : Bool :=
{blocked}

/-- `scheduling.task_is_runnable` -/
def taskIsRunnable (task : TaskView) : Bool :=
{runnable}
end Asynkit.Gen
"""


# ---- the whitelist ---------------------------------------------------------------------------

def unit_prientry(src: Path) -> dict:
    tools = ast.parse((src / "asynkit/tools.py").read_text())
    files = {}
    # tools.PriEntry.__lt__
    fn = find_func(tools, "PriEntry", "__lt__")
    other = fn.args.args[1].arg
    tr = Tr({"priority": ("pri", "prio"), "sequence": ("seq", "nat")}, {other: ("other", None)})
    files["PriEntry.lean"] = f"""-- GENERATED by translator/py2lean.py from src/asynkit/tools.py — do not edit
import Asynkit.Model.Heap
namespace Asynkit.Gen
/-- `PriEntry.__lt__` -/
def priEntryLt {{π : Type}} (plt : π → π → Bool) (self other : Entry π) : Bool :=
{pure_body(tr, body_no_doc(fn))}
end Asynkit.Gen
"""
    return files


def unit_priority(src: Path) -> dict:
    prio = ast.parse((src / "asynkit/experimental/priority.py").read_text())
    files = {}
    # priority.PriorityValue.priority / __lt__
    pv_fields = {"base_priority": ("base", "rat"), "priority_boost": ("boost", "rat"),
                 "priority_class": ("cls", "nat"), "inserted_at": ("insertedAt", "nat")}
    fn1 = find_func(prio, "PriorityValue", "priority")
    tr1 = Tr(pv_fields, {})
    fn2 = find_func(prio, "PriorityValue", "__lt__")
    other = fn2.args.args[1].arg
    tr2 = Tr(pv_fields, {other: ("other", None)}, methods={"priority": ("pvPriority", "rat")})
    # PosPriorityQueue.compute_priority_boost
    fn3 = find_func(prio, "PosPriorityQueue", "compute_priority_boost")
    a = [x.arg for x in fn3.args.args]
    tr3 = Tr({"priority_boost_factor": ("factor", "rat")},
             {a[1]: ("priority", "rat"), a[2]: ("minPri", "rat"), a[3]: ("maxPri", "rat"),
              "random": ("rand", "rat")}, self_var="q")
    # PosPriorityQueue.update_counters
    fn4 = find_func(prio, "PosPriorityQueue", "update_counters")
    top = body_no_doc(fn4)
    if len(top) != 1 or not isinstance(top[0], ast.If) or not isinstance(top[0].test, ast.Name):
        raise Unsupported("update_counters is no longer `if inserted: ... else: ...`")
    ctr_fields = {"n_inserted": ("nIns", "nat"), "n_removed": ("nRem", "nat"),
                  "last_maintenance": ("lastMaint", "nat"), "_pq": ("len", "lenof")}
    tr4 = Tr(ctr_fields, {fn4.args.args[1].arg: ("inserted", "bool")}, self_var="s")
    files["Priority.lean"] = f"""-- GENERATED by translator/py2lean.py from src/asynkit/experimental/priority.py — do not edit
import Asynkit.Model.PosPQ
namespace Asynkit.Gen
/-- `PriorityValue.priority()` -/
def pvPriority (self : PV) : Rat :=
{pure_body(tr1, body_no_doc(fn1))}

/-- `PriorityValue.__lt__` -/
def pvLt (self other : PV) : Bool :=
{pure_body(tr2, body_no_doc(fn2))}

structure BoostCfg where
  factor : Rat

/-- `PosPriorityQueue.compute_priority_boost` with `random.random()` as the parameter `rand` -/
def computeBoost (q : BoostCfg) (priority minPri maxPri rand : Rat) : Rat :=
{pure_body(tr3, body_no_doc(fn3))}

/-- the counters `update_counters` reads and writes; `len` = len(self._pq); `maint` records that
    `do_maintenance()` was called -/
structure Ctr where
  nIns : Nat
  nRem : Nat
  lastMaint : Nat
  len : Nat
  maint : Bool := false

/-- `PosPriorityQueue.update_counters` (decision part) -/
def updateCounters (s : Ctr) (inserted : Bool) : Ctr :=
  if inserted then
{state_body(tr4, body_no_doc(fn4)[0].body, "s", {"n_inserted": "nIns", "n_removed": "nRem", "last_maintenance": "lastMaint"}, {"do_maintenance": "maint"}, "    ")}
  else
{state_body(Tr(ctr_fields, {fn4.args.args[1].arg: ("inserted", "bool")}, self_var="s"), body_no_doc(fn4)[0].orelse, "s", {"n_inserted": "nIns", "n_removed": "nRem", "last_maintenance": "lastMaint"}, {"do_maintenance": "maint"}, "    ")}
end Asynkit.Gen
"""
    return files


def unit_lockcov(src: Path) -> dict:
    prio = ast.parse((src / "asynkit/experimental/priority.py").read_text())
    files = {}
    dflt = ast.parse((src / "asynkit/loop/default.py").read_text())
    cov = lock_coverage(prio)
    prims = deque_primitives(dflt)
    lean_str = lambda x: '"' + x + '"'
    files["LockCoverage.lean"] = (
        "-- GENERATED by translator/py2lean.py from src/asynkit/experimental/priority.py and loop/default.py — do not edit\n"
        "namespace Asynkit.Gen\n"
        "/-- per method of `PosPriorityQueue`: 0 does not touch the heap, 1 every heap access is under\n"
        "    `with self._lock`, 2 internal helper only called under the lock, 3 single atomic read,\n"
        "    5 constructor, 4 UNPROTECTED -/\n"
        "def lockCoverage : List (String × Nat) :=\n  ["
        + ", ".join(f"({lean_str(n)}, {st})" for n, st in cov) + "]\n\n"
        "/-- operations the deque helpers of loop/default.py apply to the ready queue -/\n"
        "def dequePrimitives : List (String × List String) :=\n  ["
        + ", ".join(f"({lean_str(n)}, [" + ", ".join(lean_str(p) for p in ps) + "])" for n, ps in prims) + "]\n"
        "end Asynkit.Gen\n")
    return files


# ---- units: each regenerates its own files; a unit that cannot translate poisons only those ------

UNITS = [
    ("PriEntry.__lt__", ["PriEntry.lean"], unit_prientry),
    ("lock coverage, deque primitives", ["LockCoverage.lean"], unit_lockcov),
    ("deque_pop, queue_find, call_pos, task predicates", ["Sched.lean"], lambda src: {"Sched.lean": gen_sched(src)}),
    ("tools.PriorityQueue", ["PQ.lean"], lambda src: __import__("pq2lean").generate(src)),
    ("heapq.py of the running interpreter", ["Heapq.lean"], lambda src: __import__("heapq2lean").generate(src)),
    ("PosPriorityQueue", ["PosPQ.lean"], lambda src: __import__("pospq2lean").generate(src)),
    ("task_throw, task_interrupt prefix", ["Interrupt.lean"], lambda src: __import__("interrupt2lean").generate(src)),
    ("scheduling ops", ["SchedOps.lean"], lambda src: __import__("sched2lean").generate(src)),
    ("coroutine state helpers", ["CoroState.lean"], lambda src: __import__("corostate2lean").generate(src)),
    ("context selection", ["CtxResume.lean"], lambda src: __import__("ctxresume2lean").generate(src)),
    ("await-protocol wrappers (coro_iter, coro_await, awaitmethod*, await_sync, syncfunction, aiter_sync)",
     ["Wrappers.lean"], lambda src: __import__("wrappers2lean").generate(src)),
    ("condition variables", ["Cond.lean"], lambda src: __import__("cond2lean").generate(src)),
    ("task_timeout", ["Timeout.lean"], lambda src: __import__("timeout2lean").generate(src)),
    ("asyncio.base_events / events (stdlib): call_soon, call_at, _run_once, Handle", ["BaseEvents.lean"],
     lambda src: __import__("baseevents2lean").generate(src)),
    ("asyncio.locks (stdlib)", ["AsyncioLocks.lean"], lambda src: __import__("asynciolocks2lean").generate(src)),
    ("contextlib (stdlib)", ["Contextlib.lean"], lambda src: __import__("contextlib2lean").generate(src)),
    ("asyncio.futures / asyncio.tasks (stdlib, pure-Python Future and Task)", ["AsyncioKernel.lean"],
     lambda src: __import__("asynciokernel2lean").generate(src)),
    ("PriorityLock / PriorityTask lock layer", ["Lock.lean"], lambda src: __import__("lock2lean").generate(src)),
    ("CoroStart, _Continuation, coro_eager, cancelling", ["CoroStart.lean"], lambda src: __import__("corostart2lean").generate(src)),
    ("collections.abc mixins inherited by asynkit classes (stdlib)", ["CollectionsAbc.lean"],
     lambda src: __import__("collectionsabc2lean").generate(src)),
    ("monitor.py: Monitor, BoundMonitor, GeneratorObject(Iterator)", ["Monitor.lean"],
     lambda src: __import__("monitor2lean").generate(src)),
]


def poison(unit: str, why: str) -> str:
    msg = why.replace("-/", "- /").replace("\n", " ")[:1500]
    return ("-- GENERATED by translator/py2lean.py — TRANSLATION FAILED for: " + unit + "\n"
            "/- " + msg + " -/\n"
            "namespace Asynkit.Gen\n"
            "theorem translation_failed : False := by\n"
            "  exact translation_of_this_unit_failed_see_comment_above\n"
            "end Asynkit.Gen\n")


def generate(src: Path):
    """-> (files, failures).  A unit that leaves the supported subset (or whose source cannot be read)
    gets its files replaced by one that does not compile and carries the message, so that only the
    proof obligations that depend on that unit break."""
    files, failures = {}, []
    for unit, names, fn in UNITS:
        try:
            got = fn(src)
            missing = [n for n in names if n not in got]
            if missing:
                raise Unsupported(f"unit produced no {missing}")
            files.update(got)
        except (Exception, SystemExit) as e:   # noqa: BLE001
            why = f"{type(e).__name__}: {e}"
            failures.append((unit, why))
            for n in names:
                files[n] = poison(unit, why)
    return files, failures


def main():
    src, out = Path(sys.argv[1]), Path(sys.argv[2])
    out.mkdir(parents=True, exist_ok=True)
    files, failures = generate(src)
    for unit, why in failures:
        print(f"py2lean: CANNOT TRANSLATE [{unit}]: {why}")
    for name, text in files.items():
        p = out / name
        if not p.exists() or p.read_text() != text:
            p.write_text(text)
            print(f"py2lean: wrote {p.name}")
    for p in out.glob("*.lean"):
        if p.name not in files:
            p.unlink()
    print("py2lean: ok" if not failures else f"py2lean: {len(failures)} unit(s) not translated (their Gen files do not compile)")
    return 0


if __name__ == "__main__":
    sys.exit(main())
