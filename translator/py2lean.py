#!/usr/bin/env python3
"""py2lean — regenerate lean/Asynkit/Gen/*.lean from /repo/src on every run (DESIGN §3.3).

Translates a whitelist of straight-line arithmetic / decision functions from the Python AST into
Lean definitions.  `Asynkit/Lemmas/GenEq.lean` proves each generated definition equal to the
hand-written model definition that the property theorems are about, so a change of the code
changes the generated text and either the equality still proves (harmless rewrite) or a proof
obligation breaks.  Anything outside the supported subset makes the translator fail loudly
(exit 1), which the check treats as a broken obligation.

usage: py2lean.py <repo>/src <out-dir>
"""
import ast
import sys
from pathlib import Path


class Unsupported(Exception):
    pass


# ---- type-directed expression translation ------------------------------------------------

class Tr:
    def __init__(self, fields, locals_, methods=None, self_name="self", self_var="self"):
        self.fields = fields        # python attribute -> (lean field, type)
        self.locals = dict(locals_)  # python name -> (lean expr, type)
        self.methods = methods or {}  # python method name -> (lean function, result type)
        self.self_name = self_name
        self.self_var = self_var

    def expr(self, e):
        """-> (lean text, type) ; types: prio nat rat bool"""
        if isinstance(e, ast.Constant):
            if isinstance(e.value, bool):
                return ("true" if e.value else "false"), "bool"
            if isinstance(e.value, int):
                return str(e.value), "num"
            if isinstance(e.value, float) and e.value == int(e.value):
                return str(int(e.value)), "num"
            raise Unsupported(f"constant {e.value!r}")
        if isinstance(e, ast.Name):
            if e.id in self.locals:
                return self.locals[e.id]
            raise Unsupported(f"name {e.id}")
        if isinstance(e, ast.Attribute) and isinstance(e.value, ast.Name):
            base = e.value.id
            if e.attr not in self.fields:
                raise Unsupported(f"attribute .{e.attr}")
            lf, ty = self.fields[e.attr]
            if base == self.self_name:
                return f"{self.self_var}.{lf}", ty
            if base in self.locals:
                return f"{self.locals[base][0]}.{lf}", ty
            raise Unsupported(f"attribute of {base}")
        if isinstance(e, ast.Call):
            f = e.func
            if isinstance(f, ast.Name) and f.id in ("min", "max") and len(e.args) == 2:
                a, ta = self.expr(e.args[0])
                b, tb = self.expr(e.args[1])
                return f"({f.id} {self.paren(a)} {self.paren(b)})", self.join(ta, tb)
            if isinstance(f, ast.Name) and f.id == "len" and len(e.args) == 1:
                a = e.args[0]
                if isinstance(a, ast.Attribute) and a.attr in self.fields and self.fields[a.attr][1] == "lenof":
                    return f"{self.self_var}.{self.fields[a.attr][0]}", "nat"
                raise Unsupported("len() of something else")
            if isinstance(f, ast.Attribute) and isinstance(f.value, ast.Name) and not e.args:
                if f.attr in self.methods:
                    fn, ty = self.methods[f.attr]
                    base = f.value.id
                    arg = self.self_var if base == self.self_name else self.locals[base][0]
                    return f"({fn} {arg})", ty
                if f.value.id == "random" and f.attr == "random" and "random" in self.locals:
                    return self.locals["random"]
            raise Unsupported(f"call {ast.dump(e)[:80]}")
        if isinstance(e, ast.BinOp) and isinstance(e.op, (ast.Add, ast.Sub, ast.Mult)):
            a, ta = self.expr(e.left)
            b, tb = self.expr(e.right)
            op = {ast.Add: "+", ast.Sub: "-", ast.Mult: "*"}[type(e.op)]
            return f"({a} {op} {b})", self.join(ta, tb)
        if isinstance(e, ast.UnaryOp) and isinstance(e.op, ast.Not):
            a, _ = self.expr(e.operand)
            return f"(!{a})", "bool"
        if isinstance(e, ast.BoolOp):
            op = " && " if isinstance(e.op, ast.And) else " || "
            return "(" + op.join(self.expr(v)[0] for v in e.values) + ")", "bool"
        if isinstance(e, ast.Compare) and len(e.ops) == 1:
            a, ta = self.expr(e.left)
            b, tb = self.expr(e.comparators[0])
            op = e.ops[0]
            ty = self.join(ta, tb)
            if ty == "prio":
                if isinstance(op, ast.Lt):
                    return f"(plt {a} {b})", "bool"
                if isinstance(op, ast.Gt):
                    return f"(plt {b} {a})", "bool"
                raise Unsupported("only < is defined on priorities")
            sym = {ast.Lt: "<", ast.Gt: ">", ast.LtE: "≤", ast.GtE: "≥", ast.Eq: "=", ast.NotEq: "≠"}.get(type(op))
            if sym is None:
                raise Unsupported(f"comparison {op}")
            return f"(decide ({a} {sym} {b}))", "bool"
        raise Unsupported(ast.dump(e)[:100])

    @staticmethod
    def paren(s):
        return s

    @staticmethod
    def join(a, b):
        if a == "num":
            return b
        if b == "num":
            return a
        if a != b:
            raise Unsupported(f"type mismatch {a} vs {b}")
        return a


def find_func(tree, cls, name):
    for node in ast.walk(tree):
        if cls is None and isinstance(node, ast.FunctionDef) and node.name == name:
            return node
        if isinstance(node, ast.ClassDef) and node.name == cls:
            for n in node.body:
                if isinstance(n, ast.FunctionDef) and n.name == name:
                    return n
    raise Unsupported(f"{cls}.{name} not found")


def body_no_doc(fn):
    b = fn.body
    if b and isinstance(b[0], ast.Expr) and isinstance(getattr(b[0], "value", None), ast.Constant) \
            and isinstance(b[0].value.value, str):
        b = b[1:]
    return b


# ---- pure functions: (if ...: return e)* ; locals ; return e --------------------------------

def pure_body(tr, stmts, indent="  "):
    if not stmts:
        raise Unsupported("function may fall off its end")
    s, rest = stmts[0], stmts[1:]
    if isinstance(s, ast.Return):
        return indent + tr.expr(s.value)[0]
    if isinstance(s, ast.Assign) and len(s.targets) == 1 and isinstance(s.targets[0], ast.Name):
        v, ty = tr.expr(s.value)
        name = s.targets[0].id
        lean_name = name + "_"
        tr.locals[name] = (lean_name, ty)
        return f"{indent}let {lean_name} := {v}\n" + pure_body(tr, rest, indent)
    if isinstance(s, ast.If):
        c, _ = tr.expr(s.test)
        then = pure_body(tr, s.body + ([] if ends_in_return(s.body) else rest), indent + "  ")
        els = pure_body(tr, (s.orelse + ([] if ends_in_return(s.orelse) else rest)) if s.orelse else rest, indent + "  ")
        return f"{indent}if {c} then\n{then}\n{indent}else\n{els}"
    raise Unsupported(f"statement {type(s).__name__}")


def ends_in_return(stmts):
    return bool(stmts) and isinstance(stmts[-1], ast.Return)


# ---- state transformers over a record (update_counters) ------------------------------------

def state_lines(tr, stmts, state, fields_w, calls, counter):
    """Translate statements that assign to self.<field> into `let` lines (relative indentation)
    ending with the name of the final record."""
    out = []
    cur = state

    def fresh():
        counter[0] += 1
        return f"s{counter[0]}"

    for s in stmts:
        tr.self_var = cur
        if isinstance(s, ast.AugAssign) and isinstance(s.target, ast.Attribute) and isinstance(s.op, ast.Add):
            f = fields_w[s.target.attr]
            v, _ = tr.expr(s.value)
            nm = fresh()
            out.append(f"let {nm} := {{ {cur} with {f} := {cur}.{f} + {v} }}")
            cur = nm
        elif isinstance(s, ast.Assign):
            v, ty = tr.expr(s.value)
            if all(isinstance(t, ast.Attribute) for t in s.targets):
                nm = fresh()
                upd = ", ".join(f"{fields_w[t.attr]} := {v}" for t in s.targets)
                out.append(f"let {nm} := {{ {cur} with {upd} }}")
                cur = nm
            elif len(s.targets) == 1 and isinstance(s.targets[0], ast.Name):
                name = s.targets[0].id
                tr.locals[name] = (name + "_", ty)
                out.append(f"let {name}_ := {v}")
            else:
                raise Unsupported("assignment form")
        elif isinstance(s, ast.Expr) and isinstance(s.value, ast.Call) and isinstance(s.value.func, ast.Attribute) \
                and s.value.func.attr in calls:
            nm = fresh()
            out.append(f"let {nm} := {{ {cur} with {calls[s.value.func.attr]} := true }}")
            cur = nm
        elif isinstance(s, ast.If):
            c, _ = tr.expr(s.test)
            saved = dict(tr.locals)
            then = state_lines(tr, s.body, cur, fields_w, calls, counter)
            tr.locals = dict(saved)
            tr.self_var = cur
            els = state_lines(tr, s.orelse, cur, fields_w, calls, counter) if s.orelse else [cur]
            tr.locals = saved
            nm = fresh()
            out.append(f"let {nm} :=")
            out.append(f"  if {c} then")
            out += ["    " + ln for ln in then]
            out.append("  else")
            out += ["    " + ln for ln in els]
            cur = nm
        else:
            raise Unsupported(f"statement {ast.dump(s)[:80]}")
    out.append(cur)
    return out


def state_body(tr, stmts, state, fields_w, calls, indent="  "):
    return "\n".join(indent + ln for ln in state_lines(tr, stmts, state, fields_w, calls, [0]))


# ---- the whitelist ---------------------------------------------------------------------------

def generate(src: Path) -> dict:
    tools = ast.parse((src / "asynkit/tools.py").read_text())
    prio = ast.parse((src / "asynkit/experimental/priority.py").read_text())
    files = {}

    # tools.PriEntry.__lt__
    fn = find_func(tools, "PriEntry", "__lt__")
    other = fn.args.args[1].arg
    tr = Tr({"priority": ("pri", "prio"), "sequence": ("seq", "nat")}, {other: ("other", None)})
    files["PriEntry.lean"] = f"""-- GENERATED by translator/py2lean.py from src/asynkit/tools.py — do not edit
import Asynkit.Model.Heap
namespace Asynkit.Gen
/-- `PriEntry.__lt__` -/
def priEntryLt {{π : Type}} (plt : π → π → Bool) (self other : Entry π) : Bool :=
{pure_body(tr, body_no_doc(fn))}
end Asynkit.Gen
"""

    # priority.PriorityValue.priority / __lt__
    pv_fields = {"base_priority": ("base", "rat"), "priority_boost": ("boost", "rat"),
                 "priority_class": ("cls", "nat"), "inserted_at": ("insertedAt", "nat")}
    fn1 = find_func(prio, "PriorityValue", "priority")
    tr1 = Tr(pv_fields, {})
    fn2 = find_func(prio, "PriorityValue", "__lt__")
    other = fn2.args.args[1].arg
    tr2 = Tr(pv_fields, {other: ("other", None)}, methods={"priority": ("pvPriority", "rat")})
    # PosPriorityQueue.compute_priority_boost
    fn3 = find_func(prio, "PosPriorityQueue", "compute_priority_boost")
    a = [x.arg for x in fn3.args.args]
    tr3 = Tr({"priority_boost_factor": ("factor", "rat")},
             {a[1]: ("priority", "rat"), a[2]: ("minPri", "rat"), a[3]: ("maxPri", "rat"),
              "random": ("rand", "rat")}, self_var="q")
    # PosPriorityQueue.update_counters
    fn4 = find_func(prio, "PosPriorityQueue", "update_counters")
    ctr_fields = {"n_inserted": ("nIns", "nat"), "n_removed": ("nRem", "nat"),
                  "last_maintenance": ("lastMaint", "nat"), "_pq": ("len", "lenof")}
    tr4 = Tr(ctr_fields, {fn4.args.args[1].arg: ("inserted", "bool")}, self_var="s")
    files["Priority.lean"] = f"""-- GENERATED by translator/py2lean.py from src/asynkit/experimental/priority.py — do not edit
import Asynkit.Model.PosPQ
namespace Asynkit.Gen
/-- `PriorityValue.priority()` -/
def pvPriority (self : PV) : Rat :=
{pure_body(tr1, body_no_doc(fn1))}

/-- `PriorityValue.__lt__` -/
def pvLt (self other : PV) : Bool :=
{pure_body(tr2, body_no_doc(fn2))}

structure BoostCfg where
  factor : Rat

/-- `PosPriorityQueue.compute_priority_boost` with `random.random()` as the parameter `rand` -/
def computeBoost (q : BoostCfg) (priority minPri maxPri rand : Rat) : Rat :=
{pure_body(tr3, body_no_doc(fn3))}

/-- the counters `update_counters` reads and writes; `len` = len(self._pq); `maint` records that
    `do_maintenance()` was called -/
structure Ctr where
  nIns : Nat
  nRem : Nat
  lastMaint : Nat
  len : Nat
  maint : Bool := false

/-- `PosPriorityQueue.update_counters` (decision part) -/
def updateCounters (s : Ctr) (inserted : Bool) : Ctr :=
  if inserted then
{state_body(tr4, body_no_doc(fn4)[0].body, "s", {"n_inserted": "nIns", "n_removed": "nRem", "last_maintenance": "lastMaint"}, {"do_maintenance": "maint"}, "    ")}
  else
{state_body(Tr(ctr_fields, {fn4.args.args[1].arg: ("inserted", "bool")}, self_var="s"), body_no_doc(fn4)[0].orelse, "s", {"n_inserted": "nIns", "n_removed": "nRem", "last_maintenance": "lastMaint"}, {"do_maintenance": "maint"}, "    ")}
end Asynkit.Gen
"""
    top = body_no_doc(fn4)
    if len(top) != 1 or not isinstance(top[0], ast.If) or not isinstance(top[0].test, ast.Name):
        raise Unsupported("update_counters is no longer `if inserted: ... else: ...`")
    return files


def main():
    src, out = Path(sys.argv[1]), Path(sys.argv[2])
    out.mkdir(parents=True, exist_ok=True)
    try:
        files = generate(src)
    except (Unsupported, SyntaxError, OSError, IndexError, KeyError) as e:
        print(f"py2lean: cannot translate: {type(e).__name__}: {e}")
        return 1
    for name, text in files.items():
        p = out / name
        if not p.exists() or p.read_text() != text:
            p.write_text(text)
            print(f"py2lean: wrote {p.name}")
    for p in out.glob("*.lean"):
        if p.name not in files:
            p.unlink()
    print("py2lean: ok")
    return 0


if __name__ == "__main__":
    sys.exit(main())
