"""wrappers2lean — the await-protocol wrappers of src/asynkit/coroutine.py that properties C02/C05 rest on,
regenerated into lean/Asynkit/Gen/Wrappers.lean on every run (unit of py2lean.UNITS; DESIGN §3.3).

Translated, statement by statement, by one generic continuation-passing compiler (nothing is chosen by
function name except the Lean identifier):

  coro_iter         generator: segment `start` (entry → first yield) and segment `resume` (the yield resumed
                    by send(v) / throw(e); close() is throw(GeneratorExit) + the envelope) → next yield or exit
  coro_await        coroutine with `return await cs` in tail position: segment `start` (create the CoroStart,
                    first delegation step) and `resume` (every later delegation step)
  awaitmethod, awaitmethod_iter, syncfunction      the inner wrapper of the decorator, with `func(*args,
                    **kwargs)` standing for "the coroutine object the decorated function returns"
  await_sync        whole (CoroStart, done()/result(), throw(SynchronousAbort()), `raise … from err`, finally)
  aiter_sync        generator: segments `start` / `resume` around `yield await_sync(helper())`

Supported statements: assignment, expression statement, `return`, bare `raise`, `raise E(..) [from name]`,
`pass`, `if`/`else` on a boolean call, `try/except*/else/finally` (handlers tested in order, `as name`,
`exc.value`), `while True:` whose every iteration passes a suspension point, `yield` as a statement or the
right-hand side of an assignment, nested `async def f(): return await <expr>`, `return await <expr>` in
tail position.  Supported calls: see `Compiler.call`.  Everything else raises `Unsupported` → the unit is
poisoned → `Lemmas/GenEqC02.lean` / `GenEqC05.lean` (and so C02/C05) no longer build.

Meaning of the calls = lean/Asynkit/Model/WrapRt.lean (trusted, stated there).  `CoroStart` itself is
translated by another unit; here its constructor and methods are calls of the model's transformer.
"""
import ast
import re
from pathlib import Path


class Unsupported(KeyError):
    def __str__(self):
        return str(self.args[0]) if self.args else "unsupported"


def find_func(tree, name):
    for node in tree.body:
        if isinstance(node, (ast.FunctionDef, ast.AsyncFunctionDef)) and node.name == name:
            return node
    raise Unsupported(f"{name} not found")


def body_no_doc(fn):
    b = fn.body
    if b and isinstance(b[0], ast.Expr) and isinstance(getattr(b[0], "value", None), ast.Constant) \
            and isinstance(b[0].value.value, str):
        b = b[1:]
    return b


class V:
    """a translated value: Lean text + type tag (+ the static object it belongs to)"""

    def __init__(self, lean, ty, static=None, **kw):
        self.lean, self.ty, self.static = lean, ty, static
        self.kw = kw

    def with_lean(self, lean):
        return V(lean, self.ty, self.static, **self.kw)


def leantype(v):
    return {"obj": lambda: f"{v.static}.σ", "cs": lambda: f"CS {v.static}.σ", "val": lambda: "Val",
            "y": lambda: "Y", "exc": lambda: "Exc", "aiter": lambda: f"{v.static}.τ",
            "it": lambda: v.kw.get("ittype") or f"{v.static}.σ"}[v.ty]()


OBJ_TYPES = ("obj", "cs", "aiter", "it")


class Frame:
    def __init__(self, kind, outer, node=None, k_after=None, exc=None):
        self.kind, self.outer, self.node, self.k_after, self.exc = kind, outer, node, k_after, exc


def ind(text, n=2):
    pad = " " * n
    return "\n".join(pad + ln if ln else ln for ln in text.split("\n"))


class Compiler:
    """Compiles one Python function into Lean text (one definition per segment)."""

    def __init__(self, fn, kind, params, statics, yield_ty="Y", others=None):
        self.fn, self.kind = fn, kind          # kind: sync | gen | coro
        self.params = params                   # [(pyname, V)]
        self.statics = statics                 # Lean binder text, e.g. "{ι : Type} (I : Obj ι)"
        self.yield_ty = yield_ty
        self.others = others or {}             # other translated functions callable from here
        self.n = 0
        self.points = {}                       # id(node) -> dict(name, env_names, text)
        self.loops_entered = set()
        self.wtypes = None                     # world: [(pyname, type text)]
        self.result = None

    def fresh(self, base):
        self.n += 1
        return f"{re.sub(r'[^A-Za-z0-9_]', '_', base)}{self.n}"

    # ---- exits ---------------------------------------------------------------------------
    def world(self, env):
        ws = [(n, v) for n, v in env.items() if isinstance(v, V) and v.ty in OBJ_TYPES and not v.kw.get("moved")
              and not v.kw.get("awaited")]
        sig = [(n, leantype(v)) for n, v in ws]
        if self.wtypes is None:
            self.wtypes = sig
        elif [t for _, t in sig] != [t for _, t in self.wtypes]:
            raise Unsupported(f"{self.fn.name}: exits disagree on the live objects: {sig} vs {self.wtypes}")
        if not ws:
            return "()"
        return "(" + ", ".join(v.lean for _, v in ws) + ")"

    def exit_returned(self, v, env):
        c = ".returned" if self.kind != "sync" else ".returned"
        return f"{c} {v.lean} {self.world(env)}"

    def exit_raised(self, e, cause, env):
        return f".raised {e} {cause} {self.world(env)}"

    # ---- exceptions ----------------------------------------------------------------------
    def do_raise(self, e, cause, env, ctx):
        """Lean text for: exception `e` (Lean term : Exc, `cause` : Option Exc) propagates from here."""
        f = ctx
        if f is None:
            return self.exit_raised(e, cause, env)
        if f.kind == "try":
            return self.dispatch(e, cause, env, f, list(f.node.handlers))
        if f.kind in ("handler", "else"):
            return self.run_finally(f, env, lambda env2: self.do_raise(e, cause, env2, f.outer))
        return self.do_raise(e, cause, env, f.outer)       # loop / finally frames

    def run_finally(self, f, env, k):
        if not f.node.finalbody:
            return k(env)
        return self.block(f.node.finalbody, env, Frame("finally", f.outer), k)

    def dispatch(self, e, cause, env, f, handlers):
        if not handlers:
            return self.run_finally(f, env, lambda env2: self.do_raise(e, cause, env2, f.outer))
        h, rest = handlers[0], handlers[1:]
        if isinstance(h.type, ast.Tuple):      # `except (A, B):` = the same body for A, then for B
            alts = [ast.ExceptHandler(type=t, name=h.name, body=h.body) for t in h.type.elts]
            return self.dispatch(e, cause, env, f, alts + rest)
        otherwise = lambda: self.dispatch(e, cause, env, f, rest)   # noqa: E731
        kind, pat, bind = self.exc_test(h.type)
        env_h = dict(env)
        hf = Frame("handler", f.outer, f.node, f.k_after, exc=(e, cause))

        def after_handler(env2):
            return self.run_finally(hf, env2, f.k_after)
        if kind == "all":
            if h.name:
                env_h[h.name] = V(e, "exc")
            return self.block(h.body, env_h, hf, after_handler)
        if kind == "pattern":
            if bind:
                v = self.fresh("v")
                pat = pat.replace("_v", v)
                if h.name:
                    env_h[h.name] = V(e, "exc", value=v)
            elif h.name:
                env_h[h.name] = V(e, "exc")
            body = self.block(h.body, env_h, hf, after_handler)
            return f"match {e} with\n| {pat} =>\n{ind(body)}\n| _ =>\n{ind(otherwise())}"
        if kind == "guard":
            if h.name:
                env_h[h.name] = V(e, "exc")
            body = self.block(h.body, env_h, hf, after_handler)
            return f"if {pat} {e} then\n{ind(body)}\nelse\n{ind(otherwise())}"
        raise Unsupported(f"exception test {kind}")

    @staticmethod
    def exc_test(t):
        if t is None:
            return "all", None, False
        name = t.id if isinstance(t, ast.Name) else (t.attr if isinstance(t, ast.Attribute) else None)
        table = {
            "BaseException": ("all", None, False),
            "StopIteration": ("pattern", ".stopIter _v", True),
            "GeneratorExit": ("pattern", ".genExit", False),
            "StopAsyncIteration": ("pattern", ".stopAsync", False),
            "InvalidStateError": ("pattern", ".other 9002", False),
            "SynchronousError": ("pattern", ".runtime 6", False),
            "SynchronousAbort": ("pattern", ".syncAbort", False),
            "Exception": ("guard", "isExceptionB", False),
        }
        if name not in table:
            raise Unsupported(f"except clause for {ast.dump(t)[:60]}")
        return table[name]

    # ---- statements ----------------------------------------------------------------------
    def block(self, stmts, env, ctx, k):
        if not stmts:
            return k(env)
        s, rest = stmts[0], stmts[1:]
        nxt = lambda env2: self.block(rest, env2, ctx, k)   # noqa: E731
        if isinstance(s, ast.Pass):
            return nxt(env)
        if isinstance(s, ast.Expr) and isinstance(s.value, ast.Constant):
            return nxt(env)
        if isinstance(s, (ast.Assign, ast.AnnAssign)):
            tgt = s.targets[0] if isinstance(s, ast.Assign) else s.target
            if isinstance(s, ast.Assign) and len(s.targets) != 1 or not isinstance(tgt, ast.Name):
                raise Unsupported("assignment target")
            if isinstance(s.value, ast.Yield):
                return self.do_yield(s.value, tgt.id, env, ctx, nxt)

            def bound(v, env2):
                env3 = dict(env2)
                if v.ty in OBJ_TYPES and v.kw.get("alias"):
                    # a second name for the same object: the old name is dropped
                    env3.pop(v.kw["alias"], None)
                    v = V(v.lean, v.ty, v.static)
                if v.ty in OBJ_TYPES and not re.fullmatch(r"[A-Za-z_][A-Za-z0-9_]*", v.lean):
                    nm = self.fresh(tgt.id)
                    env3[tgt.id] = v.with_lean(nm)
                    return f"let {nm} := {v.lean}\n" + nxt(env3)
                env3[tgt.id] = v
                return nxt(env3)
            return self.ev(s.value, env, ctx, bound)
        if isinstance(s, ast.Expr):
            if isinstance(s.value, ast.Yield):
                return self.do_yield(s.value, None, env, ctx, nxt)
            return self.ev(s.value, env, ctx, lambda v, env2: nxt(env2))
        if isinstance(s, ast.Return):
            if isinstance(s.value, ast.Await):
                if self.kind != "coro":
                    raise Unsupported("await outside a coroutine")
                return self.ev(s.value.value, env, ctx, lambda v, env2: self.do_await_tail(s, v, env2, ctx))
            if s.value is None:
                return self.do_return(V("0", "val"), env, ctx)
            c = s.value
            if ctx is None and self.kind == "sync" and isinstance(c, ast.Call) and isinstance(c.func, ast.Name) \
                    and c.func.id in self.others and self.others[c.func.id]["kind"] == "sync" \
                    and len(c.args) == 1 and not c.keywords:
                # tail call: the callee's exit (and the objects it leaves) is ours
                def tail(a, env2):
                    if a.ty == "sobj":
                        obj, st = a.lean, f"{a.lean}.init"
                    elif a.ty == "obj":
                        obj, st = a.static, a.lean
                    else:
                        raise Unsupported(f"{c.func.id}() of a {a.ty}")
                    self.result = ("exit", f"Exit Empty Unit (CS {obj}.σ)")
                    return f"{self.others[c.func.id]['lean']} {obj} {st}"
                return self.ev(c.args[0], env, ctx, tail)
            return self.ev(s.value, env, ctx, lambda v, env2: self.do_return(v, env2, ctx))
        if isinstance(s, ast.Raise):
            if s.exc is None:
                f = ctx
                while f is not None and f.kind != "handler":
                    if f.kind in ("try", "else"):
                        raise Unsupported("bare raise outside a handler")
                    f = f.outer
                if f is None:
                    raise Unsupported("bare raise outside a handler")
                return self.do_raise(f.exc[0], f.exc[1], env, ctx)
            cause = "none"
            if s.cause is not None:
                if not (isinstance(s.cause, ast.Name) and s.cause.id in env and env[s.cause.id].ty == "exc"):
                    raise Unsupported("raise … from <non-name>")
                cause = f"(some {env[s.cause.id].lean})"
            return self.ev(s.exc, env, ctx, lambda v, env2: self.do_raise(self.need(v, "exc").lean, cause, env2, ctx))
        if isinstance(s, ast.If):
            return self.ev(s.test, env, ctx, lambda c, env2: (
                f"if {self.need(c, 'bool').lean} then\n{ind(self.block(s.body, env2, ctx, nxt))}\n"
                f"else\n{ind(self.block(s.orelse, env2, ctx, nxt))}"))
        if isinstance(s, ast.Try):
            f = Frame("try", ctx, s, nxt)

            def after_body(env2):
                fe = Frame("else", ctx, s, nxt)
                return self.block(s.orelse, env2, fe, lambda env3: self.run_finally(fe, env3, nxt))
            return self.block(s.body, env, f, after_body)
        if isinstance(s, ast.While):
            if not (isinstance(s.test, ast.Constant) and s.test.value is True) or s.orelse:
                raise Unsupported("only `while True:` loops")
            if rest:
                pass        # code after an endless loop is dead
            key = id(s)
            if key in self.loops_entered:
                raise Unsupported("a loop iteration that passes no suspension point")
            self.loops_entered.add(key)
            try:
                return self.block(s.body, env, Frame("loop", ctx, s), lambda env2: self.block([s], env2, ctx, k))
            finally:
                self.loops_entered.discard(key)
        if isinstance(s, ast.AsyncFunctionDef):
            env2 = dict(env)
            env2[s.name] = V(s.name, "asyncdef", node=s)
            return nxt(env2)
        raise Unsupported(f"statement {type(s).__name__} at line {s.lineno}")

    def need(self, v, ty):
        if v.ty != ty:
            raise Unsupported(f"expected a {ty}, got {v.ty} ({v.lean})")
        return v

    def do_return(self, v, env, ctx):
        """`return v`: run the pending finally blocks, innermost first."""
        f = ctx
        while f is not None:
            if f.kind in ("try", "handler", "else") and f.node.finalbody:
                outer = f.outer
                return self.block(f.node.finalbody, env, Frame("finally", outer),
                                  lambda env2: self.do_return(v, env2, outer))
            f = f.outer
        if v.ty == "sobj":
            self.result = ("obj", "Obj ι")
            return v.lean
        return self.exit_returned(self.need(v, "val"), env)

    # ---- suspension points ---------------------------------------------------------------
    def suspend_blob(self, point, y, env):
        items = ",".join(f"{n}={v.lean}" for n, v in env.items()
                         if isinstance(v, V) and v.ty in OBJ_TYPES + ("val", "y", "exc") and not v.kw.get("moved"))
        return f".suspend {y} ⟪{point}|{items}⟫"

    def do_yield(self, node, target, env, ctx, k):
        if self.kind != "gen":
            raise Unsupported("yield outside a generator")
        if node.value is None:
            raise Unsupported("bare yield")

        def with_value(y, env2):
            key = id(node)
            if key not in self.points:
                name = f"p{len(self.points)}"
                self.points[key] = {"name": name, "env": env2, "text": None}
                penv = {n: (v.with_lean(n) if isinstance(v, V) and v.ty in OBJ_TYPES + ("val", "y", "exc")
                            and not v.kw.get("moved") else v) for n, v in env2.items()}
                saved, self.loops_entered = self.loops_entered, set()
                e = self.fresh("e")
                xv = self.fresh(target or "sent")
                env_send = dict(penv)
                if target:
                    env_send[target] = V(xv, "val")
                send = k(env_send)
                thrown = self.do_raise(e, "none", penv, ctx)
                self.loops_entered = saved
                self.points[key]["text"] = (f"match r with\n| .send {xv} =>\n{ind(send)}\n"
                                            f"| .throw {e} =>\n{ind(thrown)}")
            if y.ty not in ("y", "val"):
                raise Unsupported(f"yield of a {y.ty}")
            return self.suspend_blob(self.points[key]["name"], y.lean, env2)
        return self.ev(node.value, env, ctx, with_value)

    def do_await_tail(self, ret_stmt, x, env, ctx):
        """`return await x`: PEP-380 delegation to x's iterator until it finishes; its value is returned."""
        if x.ty == "cs":
            J = f"(coroStartAwaitO {x.static} {x.lean})"
            jty = f"CS.AwaitSt {x.static}"
        elif x.ty == "sobj":
            J = f"(Obj.pyAwaitIter {x.lean})"
            jty = f"{J}.σ"
        else:
            raise Unsupported(f"await of a {x.ty}")
        key = id(ret_stmt)
        env = {n: (V(v.lean, v.ty, v.static, awaited=True) if v is x else v) for n, v in env.items()}
        self.it_type = jty

        def handle(call, it, envx):
            v, e = self.fresh("v"), self.fresh("e")
            envy = dict(envx)
            envy["_it"] = V(it, "it", J, ittype=jty)
            y = self.fresh("y")
            return (f"match {call} with\n"
                    f"| ({it}, .yielded {y}) =>\n{ind(self.suspend_blob(self.points[key]['name'], y, envy))}\n"
                    f"| ({it}, .done {v}) =>\n{ind(self.do_return(V(v, 'val'), envy, ctx))}\n"
                    f"| ({it}, .raised {e}) =>\n{ind(self.do_raise(e, 'none', envy, ctx))}")
        if key not in self.points:
            self.points[key] = {"name": f"p{len(self.points)}", "env": env, "text": None}
            penv = {n: (v.with_lean(n) if isinstance(v, V) and v.ty in OBJ_TYPES + ("val", "y", "exc") else v)
                    for n, v in env.items()}
            # inside the resumption the iterator object is named through the parameters
            Jp = J
            for n, v in env.items():
                if isinstance(v, V) and v.ty in OBJ_TYPES:
                    Jp = re.sub(rf"\b{re.escape(v.lean)}\b", n, Jp)
            self.points[key]["text"] = handle(f"Obj.pyDelegate {Jp} _it r", self.fresh("it"), penv)
        return handle(f"Obj.pyDelegate {J} {J}.init (.send 0)", self.fresh("it"), env)

    # ---- expressions ---------------------------------------------------------------------
    def ev(self, e, env, ctx, k):
        if isinstance(e, ast.Constant) and e.value is None:
            return k(V("0", "val"), env)
        if isinstance(e, ast.Name):
            if e.id not in env:
                raise Unsupported(f"name {e.id}")
            return k(env[e.id], env)
        if isinstance(e, ast.Attribute) and isinstance(e.value, ast.Name) and e.attr == "value":
            x = env.get(e.value.id)
            if x is None or x.ty != "exc" or "value" not in x.kw:
                raise Unsupported(f"{e.value.id}.value")
            return k(V(x.kw["value"], "val"), env)
        if isinstance(e, ast.Attribute) and isinstance(e.value, ast.Name) and e.value.id in env \
                and env[e.value.id].ty in ("obj", "cs") and e.attr in ("send", "throw", "close", "done", "result"):
            return k(V(e.value.id, "bound", None, attr=e.attr), env)
        if isinstance(e, ast.UnaryOp) and isinstance(e.op, ast.Not):
            return self.ev(e.operand, env, ctx, lambda v, env2: k(V(f"(!{self.need(v, 'bool').lean})", "bool"), env2))
        if isinstance(e, ast.Call):
            return self.call(e, env, ctx, k)
        raise Unsupported(f"expression {ast.dump(e)[:80]}")

    def call(self, e, env, ctx, k):
        f = e.func
        # cast(T, x)
        if isinstance(f, ast.Name) and f.id == "cast" and len(e.args) == 2:
            return self.ev(e.args[1], env, ctx, k)
        # exception constructors
        simple = {"SynchronousAbort": ".syncAbort", "GeneratorExit": ".genExit", "StopAsyncIteration": ".stopAsync"}
        if isinstance(f, ast.Name) and f.id in simple and not e.args and not e.keywords:
            return k(V(simple[f.id], "exc"), env)
        if isinstance(f, ast.Name) and f.id == "SynchronousError" and all(isinstance(a, ast.Constant) for a in e.args):
            return k(V("excSyncError", "exc"), env)
        # CoroStart(coro) / CoroStart[T](coro) / CoroStart(coro, context=<parameter defaulting to None>)
        g = f.value if isinstance(f, ast.Subscript) else f
        if isinstance(g, ast.Name) and g.id == "CoroStart":
            for kw in e.keywords:
                ok = kw.arg == "context" and isinstance(kw.value, ast.Name) and \
                    self.kwdefault_none(kw.value.id)
                if not ok:
                    raise Unsupported("CoroStart(...) with a context that is not the caller's None default")
            if len(e.args) != 1 or not isinstance(e.args[0], ast.Name):
                raise Unsupported("CoroStart(<expression>)")
            c = env.get(e.args[0].id)
            if c is None or c.ty != "obj":
                raise Unsupported("CoroStart of a non-coroutine")
            env2 = dict(env)
            env2[e.args[0].id] = V(c.lean, c.ty, c.static, moved=True)
            return k(V(f"(CS.newAt {c.static} {c.lean})", "cs", c.static), env2)
        # func(*args, **kwargs): the coroutine object the decorated function returns
        if isinstance(f, ast.Name) and f.id in env and env[f.id].ty == "pyfunc":
            if not (len(e.args) == 1 and isinstance(e.args[0], ast.Starred) and len(e.keywords) == 1
                    and e.keywords[0].arg is None):
                raise Unsupported("decorated function must be called as func(*args, **kwargs)")
            return k(V(env[f.id].static, "sobj", None), env)
        # helper(): nested `async def helper(): return await <expr>`
        if isinstance(f, ast.Name) and f.id in env and env[f.id].ty == "asyncdef":
            node = env[f.id].kw["node"]
            b = body_no_doc(node)
            if e.args or e.keywords or node.args.args or len(b) != 1 or not isinstance(b[0], ast.Return) \
                    or not isinstance(b[0].value, ast.Await):
                raise Unsupported(f"nested coroutine {node.name} is not `return await <expr>`")
            return self.ev(b[0].value.value, env, ctx, lambda v, env2: k(
                V(f"(Obj.pyAsyncReturnAwait {self.need(v, 'sobj').lean})", "sobj", None, **v.kw), env2))
        # a bound method taken earlier: `send = coro.send; …; send(x)`
        if isinstance(f, ast.Name) and f.id in env and env[f.id].ty == "bound":
            b = env[f.id]
            if b.lean not in env or env[b.lean].kw.get("moved"):
                raise Unsupported(f"bound method of a consumed object {b.lean}")
            fake = ast.Attribute(value=ast.Name(id=b.lean, ctx=ast.Load()), attr=b.kw["attr"], ctx=ast.Load())
            return self.method(b.kw["attr"], env[b.lean], fake.value, e, env, ctx, k)
        # calls of other translated functions
        if isinstance(f, ast.Name) and f.id in self.others and len(e.args) == 1 and not e.keywords:
            return self.ev(e.args[0], env, ctx, lambda a, env2: self.call_other(f.id, a, env2, ctx, k))
        if isinstance(f, ast.Attribute):
            return self.ev(f.value, env, ctx, lambda o, env2: self.method(f.attr, o, f.value, e, env2, ctx, k))
        raise Unsupported(f"call {ast.dump(e)[:90]}")

    def kwdefault_none(self, name):
        a = self.fn.args
        for arg, d in zip(a.kwonlyargs, a.kw_defaults):
            if arg.arg == name and isinstance(d, ast.Constant) and d.value is None:
                return True
        return False

    def call_other(self, name, a, env, ctx, k):
        o = self.others[name]
        if o["kind"] == "genobj":          # coro_iter(x): the generator object
            return k(V(f"({o['lean']} {self.need(a, 'sobj').lean})", "sobj", None), env)
        if o["kind"] == "sync":            # await_sync(x)
            if a.ty == "sobj":
                obj, st = a.lean, f"{a.lean}.init"
            elif a.ty == "obj":
                obj, st = a.static, a.lean
            else:
                raise Unsupported(f"{name}() of a {a.ty}")
            if ctx is None and self.kind == "sync" and not self.in_progress_bindings:
                pass
            v, w, e, c = self.fresh("v"), self.fresh("w"), self.fresh("e"), self.fresh("c")
            env_ok = dict(env)
            origin = a.kw.get("origin")
            if origin:
                t = env[origin]
                env_ok[origin] = V(f"(AIter.advance {t.static} {t.lean} {w})", t.ty, t.static)
            call = f"{o['lean']} {obj} {st}"
            self.last_call = call
            return (f"match {call} with\n"
                    f"| .returned {v} {w} =>\n{ind(k(V(v, 'val'), env_ok))}\n"
                    f"| .raised {e} {c} {w} =>\n{ind(self.do_raise(e, c, env, ctx))}\n"
                    f"| .suspend y _ => nomatch y")
        raise Unsupported(f"call of {name}")

    in_progress_bindings = False

    def method(self, m, o, onode, e, env, ctx, k):
        name = onode.id if isinstance(onode, ast.Name) else None

        def rebind(newlean):
            env2 = dict(env)
            if name:
                env2[name] = o.with_lean(newlean)
            return env2

        def two_way(call, st, valty, valname="x"):
            x, ex = self.fresh(valname), self.fresh("e")
            envv = rebind(st)
            okv = V(x, valty) if valty != "unit" else V("()", "unit")
            pat = x if valty != "unit" else "_"
            return (f"match {call} with\n| ({st}, .value {pat}) =>\n{ind(k(okv, envv))}\n"
                    f"| ({st}, .raised {ex}) =>\n{ind(self.do_raise(ex, 'none', envv, ctx))}")
        if o.ty == "obj" and name:
            st = self.fresh(name)
            if m == "send" and len(e.args) == 1:
                return self.ev(e.args[0], env, ctx, lambda a, _e: two_way(
                    f"Obj.pySend {o.static} {o.lean} {self.need(a, 'val').lean}", st, "y", "out"))
            if m == "throw" and len(e.args) == 1:
                return self.ev(e.args[0], env, ctx, lambda a, _e: two_way(
                    f"Obj.pyThrow {o.static} {o.lean} {self.need(a, 'exc').lean}", st, "y", "out"))
            if m == "close" and not e.args:
                return two_way(f"Obj.pyClose {o.static} {o.lean}", st, "unit")
        if o.ty == "cs" and name:
            st = self.fresh(name)
            if m == "done" and not e.args:
                return k(V(f"(CS.done {o.lean})", "bool"), env)
            if m == "result" and not e.args:
                x, ex = self.fresh("x"), self.fresh("e")
                return (f"match CS.pyResult {o.lean} with\n| .value {x} =>\n{ind(k(V(x, 'val'), env))}\n"
                        f"| .raised {ex} =>\n{ind(self.do_raise(ex, 'none', env, ctx))}")
            if m == "throw" and len(e.args) == 1:
                return self.ev(e.args[0], env, ctx, lambda a, _e: two_way(
                    f"CS.pyThrow {o.static} {o.lean} {self.need(a, 'exc').lean}", st, "val"))
            if m == "close" and not e.args:
                return two_way(f"CS.pyClose {o.static} {o.lean}", st, "unit")
        if o.ty == "sobj" and m == "__await__" and not e.args:
            return k(V(f"(Obj.pyAwaitIter {o.lean})", "sobj", None), env)
        if o.ty == "aiter" and m == "__aiter__" and not e.args and name:
            return k(V(o.lean, "aiter", o.static, alias=name), env)
        if o.ty == "aiter" and m == "__anext__" and not e.args and name:
            return k(V(f"(AIter.anextObj {o.static} {o.lean})", "sobj", None, origin=name), env)
        raise Unsupported(f".{m}() on a {o.ty}")

    # ---- assembling ----------------------------------------------------------------------
    def compile(self, lean_name):
        env = {n: v for n, v in self.params}
        body = self.block(body_no_doc(self.fn), env, None,
                          lambda env2: self.exit_returned(V("0", "val"), env2))
        return self.finish(lean_name, body)

    def finish(self, lean_name, start_text):
        pts = list(self.points.values())
        if len(pts) > 1:
            raise Unsupported("more than one suspension point")
        blob = re.compile(r"⟪(p\d+)\|([^⟫]*)⟫")

        def outside(text):
            return blob.sub("", text)
        live = {}
        for p in pts:
            cand = [n for n, v in p["env"].items() if isinstance(v, V) and v.ty in OBJ_TYPES + ("val", "y", "exc")
                    and not v.kw.get("moved")]
            if "_it" in p["text"]:
                cand.append("_it")
            live[p["name"]] = [n for n in cand if re.search(rf"\b{re.escape(n)}\b", outside(p["text"]))]

        def render(text):
            def sub(m):
                entries = dict(x.split("=", 1) for x in m.group(2).split(",") if x)
                names = live[m.group(1)]
                missing = [n for n in names if n not in entries]
                if missing:
                    raise Unsupported(f"{missing} not defined on every path to the suspension point")
                vals = [entries[n] for n in names]
                return "(" + ", ".join(vals) + ")" if vals else "()"
            return blob.sub(sub, text)
        wty = " × ".join(t for _, t in (self.wtypes or [])) or "Unit"
        out = []
        args = " ".join(f"({n} : {leantype(v)})" for n, v in self.params
                        if isinstance(v, V) and v.ty in OBJ_TYPES + ("val",))
        if not pts:
            if self.kind != "sync":
                raise Unsupported("generator/coroutine without a suspension point")
            out.append(f"def {lean_name} {self.statics} {args} : Exit Empty Unit ({wty}) :=\n{ind(render(start_text))}")
            return "\n\n".join(out), None
        p = pts[0]
        types = {}
        for n, v in p["env"].items():
            if isinstance(v, V) and v.ty in OBJ_TYPES + ("val", "y", "exc"):
                types[n] = leantype(v)
        if "_it" in live[p["name"]]:
            types["_it"] = self.it_type
        names = live[p["name"]]
        sty = " × ".join(types[n] for n in names) or "Unit"
        pat = "(" + ", ".join(names) + ")" if len(names) != 1 else names[0]
        ex = f"Exit {self.yield_ty} ({sty}) ({wty})"
        out.append(f"def {lean_name}_start {self.statics} {args} : {ex} :=\n{ind(render(start_text))}")
        out.append(f"def {lean_name}_resume {self.statics} (s : {sty}) (r : Resume) : {ex} :=\n"
                   f"  match s with\n  | {pat} =>\n{ind(render(p['text']), 4)}")
        return "\n\n".join(out), {"names": names, "sty": sty, "wty": wty, "types": types}


# ---------------------------------------------------------------------------------------------

HEADER = """-- GENERATED by translator/wrappers2lean.py from src/asynkit/coroutine.py — do not edit
import Asynkit.Model.WrapRt
namespace Asynkit.Gen.Wrappers
open Asynkit.Proto

"""

STAT = "{ι : Type} (I : Obj ι)"


def decorator_inner(fn):
    """`def deco(func): @functools.wraps(func) def wrapper(*args, **kwargs): …; return wrapper`"""
    b = body_no_doc(fn)
    if len(b) != 2 or not isinstance(b[0], ast.FunctionDef) or not isinstance(b[1], ast.Return) \
            or not isinstance(b[1].value, ast.Name) or b[1].value.id != b[0].name:
        raise Unsupported(f"{fn.name}: not of the form `def wrapper(*args, **kwargs): …; return wrapper`")
    inner = b[0]
    if inner.args.args or inner.args.vararg is None or inner.args.kwarg is None:
        raise Unsupported(f"{fn.name}: wrapper must take (*args, **kwargs)")
    if len(fn.args.args) != 1:
        raise Unsupported(f"{fn.name}: decorator must take the function only")
    return inner, fn.args.args[0].arg


def generate(src: Path):
    tree = ast.parse((Path(src) / "asynkit" / "coroutine.py").read_text())
    parts = [HEADER]
    others = {}

    # coro_iter -------------------------------------------------------------------------------
    fn = find_func(tree, "coro_iter")
    if len(fn.args.args) != 1:
        raise Unsupported("coro_iter signature")
    c = Compiler(fn, "gen", [(fn.args.args[0].arg, V(fn.args.args[0].arg, "obj", "I"))], STAT)
    text, info = c.compile("coro_iter")
    if info["sty"] != "I.σ" or info["wty"] != "I.σ":
        raise Unsupported(f"coro_iter keeps {info['sty']} across its yield (expected the coroutine only)")
    parts.append("/-- `coro_iter(coro)`: entry → first `yield`, and the `yield` resumed -/\n" + text + "\n\n")
    parts.append("/-- the generator object `coro_iter(x)` -/\n"
                 "def coro_iter_obj {ι : Type} (I : Obj ι) : Obj ι :=\n"
                 "  genObj (segBody I.init (coro_iter_start I) (coro_iter_resume I))\n"
                 "    (fun st => match st with | .fresh a => I.view a | .at s => I.view s | .finished w => I.view w)\n\n")
    others["coro_iter"] = {"kind": "genobj", "lean": "coro_iter_obj"}

    # await_sync ------------------------------------------------------------------------------
    fn = find_func(tree, "await_sync")
    if len(fn.args.args) != 1 or fn.args.kwonlyargs:
        raise Unsupported("await_sync signature")
    c = Compiler(fn, "sync", [(fn.args.args[0].arg, V(fn.args.args[0].arg, "obj", "I"))], STAT)
    text, _ = c.compile("await_sync")
    if [t for _, t in c.wtypes] != ["CS I.σ"]:
        raise Unsupported(f"await_sync leaves {c.wtypes} behind (expected its CoroStart)")
    parts.append("/-- `await_sync(coro)` -/\n" + text + "\n\n")
    others["await_sync"] = {"kind": "sync", "lean": "await_sync"}

    # decorators ------------------------------------------------------------------------------
    for deco, doc in (("awaitmethod", "what `A().__await__()` returns for `__await__ = awaitmethod(f)`, "
                                       "given the coroutine object `f(...)`"),
                      ("awaitmethod_iter", "same for `awaitmethod_iter`"),
                      ("syncfunction", "`syncfunction(f)(...)`, given the coroutine object `f(...)`")):
        fn = find_func(tree, deco)
        inner, fname = decorator_inner(fn)
        c = Compiler(inner, "sync", [(fname, V(fname, "pyfunc", "I"))], STAT, others=others)
        c.result = None
        text = c.block(body_no_doc(inner), dict(c.params), None,
                       lambda env2: (_ for _ in ()).throw(Unsupported(f"{deco}: wrapper may fall off its end")))
        if c.points or c.result is None:
            raise Unsupported(f"{deco}: wrapper must return an object or the result of a translated call")
        lean = f"def {deco}_wrapper {STAT} : {c.result[1]} :=\n{ind(text)}"
        parts.append(f"/-- {doc} -/\n{lean}\n\n")

    # coro_await ------------------------------------------------------------------------------
    fn = find_func(tree, "coro_await")
    if not isinstance(fn, ast.AsyncFunctionDef) or len(fn.args.args) != 1:
        raise Unsupported("coro_await signature")
    c = Compiler(fn, "coro", [(fn.args.args[0].arg, V(fn.args.args[0].arg, "obj", "I"))], STAT)
    text, info = c.compile("coro_await")
    parts.append("/-- `coro_await(coro)`: first step (CoroStart + first delegation step), later steps -/\n" + text + "\n\n")

    # aiter_sync ------------------------------------------------------------------------------
    fn = find_func(tree, "aiter_sync")
    if len(fn.args.args) != 1:
        raise Unsupported("aiter_sync signature")
    c = Compiler(fn, "gen", [(fn.args.args[0].arg, V(fn.args.args[0].arg, "aiter", "A"))],
                 "(A : AIter)", yield_ty="Val", others=others)
    text, info = c.compile("aiter_sync")
    if info["sty"] != "A.τ":
        raise Unsupported(f"aiter_sync keeps {info['sty']} across its yield (expected the iterator only)")
    parts.append("/-- `aiter_sync(ai)`: entry → first item, and each `next()` after an item -/\n" + text + "\n\n")

    parts.append("end Asynkit.Gen.Wrappers\n")
    return {"Wrappers.lean": "".join(parts)}


if __name__ == "__main__":
    import sys
    print(generate(Path(sys.argv[1]))["Wrappers.lean"])
