"""contextlib2lean — `_GeneratorContextManager.__enter__/__exit__` and
`_AsyncGeneratorContextManager.__aenter__/__aexit__` of the *running interpreter's* `contextlib.py`, regenerated into
lean/Asynkit/Gen/Contextlib.lean on every run (unit of py2lean; DESIGN §3.3 / §4).  The file is found with
`importlib.util.find_spec("contextlib").origin`; its sha256 and the Python version are recorded in the generated
module.  For testing only, `ASYNKIT_STDLIB_CONTEXTLIB=<path>` substitutes another file.

The four methods are translated with segexec over an abstract generator object (`GenOps`: `next`, `throw`, `close`
of `Model/GenEnvelope.lean`; `await anext(..)`, `await ..athrow(..)`, `await ..aclose()` are taken big-step, PEP 492
delegation being transparent).  `Lemmas/GenEqContextlib.lean` proves from them the rule by which the other units
*inline* generator context managers into `with` / `async with` blocks.

Assumptions of the translation (the `with` statement's calling convention): `typ is None` iff `value is None`;
`exc.__traceback__ = …` and `del self.args, self.kwds, self.func` touch nothing that is modelled.
"""
import ast
import hashlib
import importlib.util
import os
import platform
from pathlib import Path

from segexec import Const, Dyn, Ent, Executor, Unsupported, find_func, paren

EXN = "Exn"
MESSAGES = {"generator didn't yield": "Exn.didntYield", "generator didn't stop": "Exn.didntStop",
            "generator didn't stop after throw()": "Exn.didntStopAfterThrow",
            "generator didn't stop after athrow()": "Exn.didntStopAfterThrow"}


def is_self_gen(e):
    return isinstance(e, ast.Attribute) and e.attr == "gen" and isinstance(e.value, ast.Name) and e.value.id == "self"


class CMDomain:
    exn_ty = EXN
    self_kind = "cm"
    allow_try_else = True

    def __init__(self, is_async):
        self.is_async = is_async

    def global_name(self, name):
        return None

    # -- expressions the domain understands as a whole
    def expr_hook(self, ex, e, scopes, cur, st, as_bool):
        # isinstance(value, StopIteration) / isinstance(value, (StopIteration, StopAsyncIteration))
        if isinstance(e, ast.Call) and isinstance(e.func, ast.Name) and e.func.id == "isinstance" and len(e.args) == 2:
            v = ex.ev(e.args[0], scopes, cur, st)
            if not (isinstance(v, Dyn) and v.ty == EXN):
                raise Unsupported(f"isinstance of {v}")
            cls = e.args[1]
            names = [ast.unparse(c) for c in (cls.elts if isinstance(cls, ast.Tuple) else [cls])]
            preds = {"StopIteration": "Exn.isStopIteration", "StopAsyncIteration": "Exn.isStopAsyncIteration"}
            if not names or any(n not in preds for n in names):
                raise Unsupported(f"isinstance(…, {ast.unparse(cls)})")
            return Dyn(" || ".join(f"{preds[n]} {paren(v.lean)}" for n in names), "Bool")
        # exc.__cause__ is value
        if isinstance(e, ast.Compare) and len(e.ops) == 1 and isinstance(e.ops[0], (ast.Is, ast.IsNot)) \
                and isinstance(e.left, ast.Attribute) and e.left.attr == "__cause__":
            a = ex.ev(e.left.value, scopes, cur, st)
            b = ex.ev(e.comparators[0], scopes, cur, st)
            if isinstance(a, Dyn) and isinstance(b, Dyn) and a.ty == EXN and b.ty == EXN:
                t = f"Exn.causeIs {paren(a.lean)} {paren(b.lean)}"
                return Dyn(t if isinstance(e.ops[0], ast.Is) else f"!{paren(t)}", "Bool")
            raise Unsupported(f"{ast.unparse(e)}")
        return None

    def call_hook(self, ex, e, scopes, cur, st):
        f = e.func
        # next(self.gen) / anext(self.gen)
        if isinstance(f, ast.Name) and f.id in ("next", "anext") and len(e.args) == 1 and is_self_gen(e.args[0]):
            if (f.id == "anext") != self.is_async:
                raise Unsupported(f"{f.id}() in the {'async' if self.is_async else 'sync'} context manager")
            return self.gen_op(ex, f"G.next {st}")
        if isinstance(f, ast.Attribute) and is_self_gen(f.value):
            if f.attr in ("throw", "athrow") and len(e.args) == 1:
                if (f.attr == "athrow") != self.is_async:
                    raise Unsupported(f".{f.attr}() in the {'async' if self.is_async else 'sync'} context manager")
                v = ex.ev(e.args[0], scopes, cur, st)
                if not (isinstance(v, Dyn) and v.ty == EXN):
                    raise Unsupported(f"throw of {v}")
                return self.gen_op(ex, f"G.throw {st} {paren(v.lean)}")
            if f.attr in ("close", "aclose") and not e.args:
                if (f.attr == "aclose") != self.is_async:
                    raise Unsupported(f".{f.attr}()")
                return ("eff", f"G.close {st}", Const(None))
        return None

    def gen_op(self, ex, scrut):
        s2, x = ex.new(), ex.new("x")
        return ("choice", scrut,
                [(f"({s2}, .yielded)", lambda ind: (s2, ("normal", Ent("yielded-value")), "")),
                 (f"({s2}, .raised {x})", lambda ind: (s2, ("raise", Dyn(x, EXN)), ""))])

    def await_as_call(self, e):
        return isinstance(e, ast.Call) and (
            (isinstance(e.func, ast.Name) and e.func.id == "anext")
            or (isinstance(e.func, ast.Attribute) and e.func.attr in ("athrow", "aclose")))

    def attr(self, base, attr):
        raise Unsupported(f"attribute .{attr} of {base}")

    def lean_of(self, v):
        if isinstance(v, Dyn):
            return v.lean
        if isinstance(v, Const) and isinstance(v.v, bool):
            return "true" if v.v else "false"
        raise Unsupported(f"no Lean value for {v}")

    def const_ty(self, v):
        raise Unsupported(f"type of {v}")

    def method(self, ex, base, name, args, kw, st):
        raise Unsupported(f"call .{name}() on {base}")

    def function(self, ex, name, args, kw, st):
        raise Unsupported(f"call of {name}()")

    def call_closure(self, ex, ent, args, kw, st):
        raise Unsupported("nested function call")

    def identical(self, a, b):
        if isinstance(a, Dyn) and isinstance(b, Dyn) and a.ty == EXN and b.ty == EXN:
            return Dyn(f"decide ({a.lean} = {b.lean})", "Bool")
        return None

    def make_exn(self, cls):
        return None

    def make_exn_call(self, e):
        if ast.unparse(e.func) == "RuntimeError" and len(e.args) == 1 and isinstance(e.args[0], ast.Constant) \
                and e.args[0].value in MESSAGES:
            return Dyn(MESSAGES[e.args[0].value], EXN, "own")
        raise Unsupported(f"raise {ast.unparse(e)}")

    def exn_match(self, exn, cls):
        table = {"StopIteration": "Exn.isStopSync", "StopAsyncIteration": "Exn.isStopAsync",
                 "RuntimeError": "Exn.isRuntimeError"}
        if cls == "BaseException":
            return True
        if cls not in table:
            raise Unsupported(f"except {cls}")
        if isinstance(exn, Dyn) and exn.ctor == "own":
            return cls == "RuntimeError"
        return f"{table[cls]} {paren(exn.lean)}"

    def assign(self, ex, scopes, cur, name, val):
        return ex.bind(scopes, cur, name, val)

    def assign_eff(self, ex, scopes, cur, targets, val, st, ind):
        for t in targets:
            if isinstance(t, ast.Name):
                scopes = ex.bind(scopes, cur, t.id, val)
            elif isinstance(t, ast.Attribute) and t.attr == "__traceback__":
                pass        # tracebacks are in no model state
            else:
                raise Unsupported(f"assignment to {ast.unparse(t)}")
        return scopes, "", st

    def delete(self, ex, targets):
        return all(isinstance(t, ast.Attribute) and isinstance(t.value, ast.Name) and t.value.id == "self"
                   and t.attr in ("args", "kwds", "func") for t in targets)

    def iterate(self, ex, seq, st):
        return None

    def bind_loop_target(self, ex, scopes, cur, target, x):
        raise Unsupported("for loop")

    def await_kind(self, ex, e, scopes, cur, st, ind):
        raise Unsupported(f"await {ast.unparse(e)}")

    def resumes(self, ex, p):
        return []

    def finish(self, ex, o):
        if o[0] == "normal":
            return ".ret false" if self.exit_method else ".ret ()"
        if o[0] == "return":
            v = o[1]
            if isinstance(v, Ent) and v.kind == "yielded-value":
                return ".ret ()"
            if isinstance(v, Const) and v.v is None:
                return ".ret false"
            return f".ret {paren(self.lean_of(v))}"
        if o[0] == "raise":
            return f".raised {paren(self.lean_of(o[1]))}"
        raise Unsupported(f"{o[0]} at function level")

    exit_method = False


def exit_params(fn):
    names = [a.arg for a in fn.args.args]
    if len(names) != 4:
        raise Unsupported(f"{fn.name}: expected (self, typ, value, traceback)")
    return names


class RenameTyp(ast.NodeTransformer):
    """the `with` statement calls `__exit__(type(e), e, tb)` or `(None, None, None)`: `typ is None` iff `value is None`"""

    def __init__(self, typ, value):
        self.typ, self.value = typ, value

    def visit_Name(self, node):
        if node.id == self.typ:
            return ast.copy_location(ast.Name(id=self.value, ctx=node.ctx), node)
        return node


def method_def(tree, cls, name, lean_name, is_async, doc):
    fn = find_func(tree, cls, name)
    dom = CMDomain(is_async)
    if name in ("__exit__", "__aexit__"):
        dom.exit_method = True
        _, typ, value, tb = exit_params(fn)
        fn = RenameTyp(typ, value).visit(fn)
        ast.fix_missing_locations(fn)
        params = {"self": Ent("cm"), value: Dyn("value", "Option Exn"), tb: Ent("traceback")}
        sig, ret = "(value : Option Exn) ", "Fin Bool"
    else:
        params = {"self": Ent("cm")}
        sig, ret = "", "Fin Unit"
    ex = Executor(dom, fn, params, ident=f"{cls}.{name}")
    body = ex.entry()
    if ex.order:
        raise Unsupported(f"{cls}.{name}: suspension point left (an await that is not a delegation to the generator)")
    return (f"/-- {doc} -/\ndef {lean_name} {{σ : Type}} (G : GenOps σ) (s : σ) {sig}: σ × {ret} :=\n{body}\n")


def generate(src):
    path = os.environ.get("ASYNKIT_STDLIB_CONTEXTLIB") or importlib.util.find_spec("contextlib").origin
    data = Path(path).read_bytes()
    tree = ast.parse(data.decode())
    sha = hashlib.sha256(data).hexdigest()
    text = (f"-- GENERATED by translator/contextlib2lean.py from {path}\n"
            f"-- Python {platform.python_version()}  sha256 {sha} — do not edit\n"
            "import Asynkit.Model.GenEnvelope\n"
            "set_option linter.unusedVariables false\n"
            "namespace Asynkit.Gen.Contextlib\nopen Asynkit.GenEnv\n\n"
            f"def sourceSha256 : String := \"{sha}\"\n"
            f"def pythonVersion : String := \"{platform.python_version()}\"\n\n")
    text += method_def(tree, "_GeneratorContextManager", "__enter__", "enter", False,
                       "`_GeneratorContextManager.__enter__`")
    text += method_def(tree, "_GeneratorContextManager", "__exit__", "exit", False,
                       "`_GeneratorContextManager.__exit__(typ, value, traceback)` (`typ is None` iff `value is None`)")
    text += method_def(tree, "_AsyncGeneratorContextManager", "__aenter__", "aenter", True,
                       "`_AsyncGeneratorContextManager.__aenter__` (awaits taken big-step)")
    text += method_def(tree, "_AsyncGeneratorContextManager", "__aexit__", "aexit", True,
                       "`_AsyncGeneratorContextManager.__aexit__(typ, value, traceback)` (awaits taken big-step)")
    text += "end Asynkit.Gen.Contextlib\n"
    return {"Contextlib.lean": text}


if __name__ == "__main__":
    print(generate(None)["Contextlib.lean"])
