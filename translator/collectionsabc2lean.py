"""collectionsabc2lean — the mixin methods of `collections.abc` that asynkit classes INHERIT (do not override),
translated from `_collections_abc.py` of the *running interpreter* into lean/Asynkit/Gen/CollectionsAbc.lean.

`generate(src)`:
  1. reads the interpreter's `_collections_abc.py` (`importlib.util.find_spec("_collections_abc")`: the module is
     frozen on 3.11+, its source file is `loader_state.filename`; `ASYNKIT_STDLIB_COLLECTIONS_ABC=<file>`
     substitutes a scratch copy, for mutation testing only) and records path, sha256 and Python version;
  2. reads asynkit's `coroutine.py` and `monitor.py` and, for every class with a base among the ABCs
     (`Coroutine`, `Generator`, `AsyncGenerator`, `Awaitable`, `Iterator`, `AsyncIterator`, … — the `typing`
     aliases are these classes), computes the concrete (non-abstract) methods of that ABC and of its ABC bases
     which the asynkit class does not define itself: `inherited : List (String × String)`;
  3. translates each such method, statement by statement, over an abstract object `σ` whose *other* methods are
     parameters (`throw : σ → Exc → σ × Out`, …); a method outside the small supported subset raises `Unsupported`
     (poisoned unit).

Supported subset (what the mixins are made of): `try: <call> except (E1, E2): pass else: raise RuntimeError(msg)`,
`return self`, `return self.m(None)`, `return await self.m(None)`, `[await] self.m(<ExceptionClass>)`.
Protocol conventions: a method of the object answers `σ × Out` — `.yield y` = it returned the value `y`,
`.ret v` = it raised `StopIteration(v)`, `.raise e` = it raised `e` (`.raise (.stopIter v)` is the same as `.ret v`).
Lemmas/GenEqAbcStd.lean proves `inherited` is what the models assume (only `_Continuation.close`) and that
`Coroutine.close` is the close rule of the models (`Wrappers.envClosed` / `Proto.Coro.close`).
"""
from __future__ import annotations

import ast
import hashlib
import importlib.util
import os
import platform
import sys
from pathlib import Path


class Unsupported(KeyError):
    def __str__(self):
        return str(self.args[0]) if self.args else "unsupported"


ABCS = ["Awaitable", "Coroutine", "AsyncIterable", "AsyncIterator", "AsyncGenerator", "Iterable", "Iterator",
        "Generator", "Reversible", "Sized", "Container", "Collection", "Hashable", "Callable"]
IGNORED = {"__subclasshook__", "__class_getitem__", "__init_subclass__"}
ASYNKIT_FILES = ["coroutine.py", "monitor.py"]
EXC = {"GeneratorExit": "Exc.genExit", "StopAsyncIteration": "Exc.stopAsync"}
RT_MSG = {"coroutine ignored GeneratorExit": "rtIgnoredGenExit", "generator ignored GeneratorExit": "rtIgnoredGenExit",
          "asynchronous generator ignored GeneratorExit": "rtIgnoredGenExit"}


def stdlib_source():
    p = os.environ.get("ASYNKIT_STDLIB_COLLECTIONS_ABC")
    if p:
        return Path(p), True
    spec = importlib.util.find_spec("_collections_abc")
    cand = None
    if spec is not None:
        if spec.origin and spec.origin.endswith(".py"):
            cand = spec.origin
        elif getattr(spec, "loader_state", None) is not None and getattr(spec.loader_state, "filename", None):
            cand = spec.loader_state.filename       # frozen module: the file it was frozen from
    if not cand or not Path(cand).exists():
        raise Unsupported(f"_collections_abc of the running interpreter has no readable Python source: {spec}")
    return Path(cand), False


def class_defs(tree):
    return {c.name: c for c in tree.body if isinstance(c, ast.ClassDef)}


def base_names(c):
    out = []
    for b in c.bases:
        if isinstance(b, ast.Subscript):
            b = b.value
        if isinstance(b, ast.Name):
            out.append(b.id)
        elif isinstance(b, ast.Attribute):
            out.append(b.attr)
    return out


def is_abstract(fn):
    return any(ast.unparse(d).endswith("abstractmethod") for d in fn.decorator_list)


def defined_names(c):
    names = set()
    for n in c.body:
        if isinstance(n, (ast.FunctionDef, ast.AsyncFunctionDef)):
            names.add(n.name)
        elif isinstance(n, ast.Assign):
            for t in n.targets:
                if isinstance(t, ast.Name):
                    names.add(t.id)
        elif isinstance(n, ast.AnnAssign) and isinstance(n.target, ast.Name):
            names.add(n.target.id)
    return names


def abc_chain(std, name, seen=None):
    """the ABC and its ABC bases, most derived first"""
    seen = seen or []
    if name in seen or name not in std:
        return seen
    seen.append(name)
    for b in base_names(std[name]):
        if b in ABCS:
            abc_chain(std, b, seen)
    return seen


def inherited_mixins(std, asynkit_classes):
    """[(asynkit class, ABC, method node)] — concrete ABC methods the asynkit class relies on without defining them"""
    out = []
    for cname, c in asynkit_classes:
        own = defined_names(c)
        for b in base_names(c):
            if b not in ABCS:
                continue
            if b not in std:
                raise Unsupported(f"{cname}: base {b} not found in _collections_abc.py")
            provided = set(own)
            for abc in abc_chain(std, b):
                for n in std[abc].body:
                    if isinstance(n, (ast.FunctionDef, ast.AsyncFunctionDef)) and n.name not in IGNORED \
                            and n.name not in provided:
                        provided.add(n.name)
                        if is_abstract(n):
                            continue        # not a mixin: a concrete class cannot be instantiated without it
                        out.append((cname, abc, n))
    return out


# ---- the tiny statement translator --------------------------------------------------------------------------------

def body_of(fn):
    b = fn.body
    if b and isinstance(b[0], ast.Expr) and isinstance(b[0].value, ast.Constant) and isinstance(b[0].value.value, str):
        b = b[1:]
    return b


class M:
    def __init__(self, abc, fn):
        self.abc, self.fn = abc, fn
        self.used = []          # abstract methods of the object that are called: parameters of the definition
        self.n = 0

    def fresh(self, b):
        self.n += 1
        return f"{b}{self.n}"

    def U(self, what, node=None):
        return Unsupported(f"{self.abc}.{self.fn.name}: {what}" + (f" (line {node.lineno})" if node is not None else ""))

    def call(self, e):
        """`[await] self.m(arg)` -> (method, lean argument text)"""
        if isinstance(e, ast.Await):
            if not isinstance(self.fn, ast.AsyncFunctionDef):
                raise self.U("await outside async def", e)
            e = e.value
        if not (isinstance(e, ast.Call) and isinstance(e.func, ast.Attribute) and isinstance(e.func.value, ast.Name)
                and e.func.value.id == "self" and len(e.args) == 1 and not e.keywords):
            raise self.U(f"expression {ast.unparse(e)[:60]}", e)
        m = e.func.attr
        a = e.args[0]
        if isinstance(a, ast.Constant) and a.value is None:
            arg, kind = "0", "val"
        elif isinstance(a, ast.Name) and a.id in EXC:
            arg, kind = EXC[a.id], "exc"        # a class is instantiated by throw()
        else:
            raise self.U(f"argument {ast.unparse(a)}", a)
        if (m, kind) not in self.used:
            self.used.append((m, kind))
        return m, arg

    def catches(self, handler):
        """-> set of caught classes among GeneratorExit / StopIteration / StopAsyncIteration"""
        t = handler.type
        names = [t] if isinstance(t, ast.Name) else list(t.elts) if isinstance(t, ast.Tuple) else None
        if names is None or not all(isinstance(x, ast.Name) for x in names):
            raise self.U("except clause", handler)
        got = {x.id for x in names}
        if not got <= {"GeneratorExit", "StopIteration", "StopAsyncIteration"}:
            raise self.U(f"except {sorted(got)}", handler)
        if handler.name is not None:
            raise self.U("`except … as name`", handler)
        return got

    def raise_expr(self, s):
        e = s.exc
        if isinstance(e, ast.Call) and isinstance(e.func, ast.Name) and e.func.id == "RuntimeError" and len(e.args) == 1 \
                and isinstance(e.args[0], ast.Constant) and e.args[0].value in RT_MSG:
            return f"Exc.runtime {RT_MSG[e.args[0].value]}"
        raise self.U(f"raise {ast.unparse(e)[:60] if e else ''}", s)

    def block(self, stmts, s, k):
        """text of type σ × Out; `s` = Lean name of the current object state; k(s) continues after the block"""
        if not stmts:
            return k(s)
        st, rest = stmts[0], stmts[1:]
        nxt = lambda s2: self.block(rest, s2, k)    # noqa: E731
        if isinstance(st, ast.Pass):
            return nxt(s)
        if isinstance(st, ast.Return):
            if st.value is None:
                return f"({s}, Out.ret 0)"
            if isinstance(st.value, ast.Name) and st.value.id == "self":
                return f"({s}, Out.yield (Y.tok 0))"        # the object itself
            m, arg = self.call(st.value)
            return f"({m}_ {s} {arg})"                      # its answer is ours (return value / exception alike)
        if isinstance(st, ast.Raise):
            return f"({s}, Out.raise ({self.raise_expr(st)}))"
        if isinstance(st, ast.Try):
            if st.finalbody or len(st.body) != 1 or not isinstance(st.body[0], ast.Expr):
                raise self.U("try statement of this shape", st)
            m, arg = self.call(st.body[0].value)
            caught = set()
            for h in st.handlers:
                if len(h.body) != 1 or not isinstance(h.body[0], ast.Pass):
                    raise self.U("except body other than `pass`", h)
                caught |= self.catches(h)
            s1, e1 = self.fresh("s"), self.fresh("e")
            alts = [f" | ({s1}, .yield _) => {self.block(st.orelse, s1, nxt)}"]
            alts.append(f" | ({s1}, .ret _) => " + (nxt(s1) if "StopIteration" in caught
                                                     else f"({s1}, Out.raise (Exc.stopIter 0))"))
            inner = []
            if "GeneratorExit" in caught:
                inner.append(f"  | .genExit => {nxt(s1)}")
            if "StopIteration" in caught:
                inner.append(f"  | .stopIter _ => {nxt(s1)}")
            if "StopAsyncIteration" in caught:
                inner.append(f"  | .stopAsync => {nxt(s1)}")
            inner.append(f"  | _ => ({s1}, Out.raise {e1})")
            alts.append(f" | ({s1}, .raise {e1}) =>\n  (match {e1} with\n" + "\n".join(inner) + ")")
            return f"(match {m}_ {s} {arg} with\n" + "\n".join(alts) + ")"
        raise self.U(f"statement {type(st).__name__}", st)

    def text(self, lean):
        body = self.block(body_of(self.fn), "s", lambda s: f"({s}, Out.ret 0)")
        params = " ".join(f"({m}_ : σ → {'Val' if k == 'val' else 'Exc'} → σ × Out)" for m, k in self.used)
        kind = "coroutine function: its single segment (the awaited method's answer is passed through)" \
            if isinstance(self.fn, ast.AsyncFunctionDef) else "method"
        return (f"/-- `{self.abc}.{self.fn.name}` ({kind}) -/\n"
                f"def {lean} {{σ : Type}} {params} (s : σ) : σ × Out :=\n  {body}\n")


def lean_name(abc, meth):
    return abc[0].lower() + abc[1:] + "".join(p.capitalize() for p in meth.strip("_").split("_"))


def generate(src: Path):
    path, substituted = stdlib_source()
    data = path.read_bytes()
    sha = hashlib.sha256(data).hexdigest()
    std = class_defs(ast.parse(data.decode()))
    classes = []
    for f in ASYNKIT_FILES:
        t = ast.parse((Path(src) / "asynkit" / f).read_text())
        for c in t.body:
            if isinstance(c, ast.ClassDef) and any(b in ABCS for b in base_names(c)):
                classes.append((c.name, c))
    inh = inherited_mixins(std, classes)
    out = ["-- GENERATED by translator/collectionsabc2lean.py — do not edit",
           f"-- source: {path}" + ("   (substituted through ASYNKIT_STDLIB_COLLECTIONS_ABC: self-validation only)"
                                   if substituted else ""),
           f"-- sha256: {sha}",
           f"-- interpreter: {platform.python_implementation()} {platform.python_version()} ({sys.executable})",
           "-- asynkit classes deriving from a collections.abc ABC: "
           + ", ".join(f"{n}({', '.join(b for b in base_names(c) if b in ABCS)})" for n, c in classes),
           "import Asynkit.Model.Proto", "set_option linter.unusedVariables false",
           "namespace Asynkit.Gen.CollectionsAbc", "open Asynkit.Proto", "",
           "/-- (asynkit class, `ABC.method`): the concrete ABC methods the class inherits without defining them -/",
           "def inherited : List (String × String) :=",
           "  [" + ", ".join(f'("{c}", "{a}.{n.name}")' for c, a, n in inh) + "]", ""]
    done = set()
    for c, a, n in inh:
        if (a, n.name) in done:
            continue
        done.add((a, n.name))
        out.append(M(a, n).text(lean_name(a, n.name)))
    out.append("end Asynkit.Gen.CollectionsAbc\n")
    return {"CollectionsAbc.lean": "\n".join(out)}


if __name__ == "__main__":
    print(generate(Path(sys.argv[1]))["CollectionsAbc.lean"])
