#!/venv/bin/python
"""Regression sets for the translation ties of C20 (corostate2lean) and C04 (ctxresume2lean).

    translator/check_harmless.py [c20|c04] [extra.diff ...]

For every `translator/harmless_<unit>/*.diff` (behaviour-preserving refactorings; must RE-PROVE)
and every `translator/breaking_<unit>/*.diff` (semantic changes; must NOT prove: a GenEq proof
breaks or the translator raises Unsupported) the diff is applied to a scratch copy of
$ASYNKIT_REPO (default /repo) `src/`, the unit is re-translated, and the generated text is
elaborated together with lean/Asynkit/Lemmas/GenEq<UNIT>.lean in ONE temporary Lean file
(`lake env lean`), so neither lean/Asynkit/Gen nor the build products are touched and checks may
run concurrently.  Extra diffs given on the command line (e.g. /verif/harmless/h7/patch.diff) are
treated as harmless.  Exit status 0 iff every expectation is met.
"""
from __future__ import annotations

import importlib
import os
import re
import shutil
import subprocess
import sys
import tempfile
from pathlib import Path

HERE = Path(__file__).resolve().parent
ROOT = HERE.parent
LEAN = ROOT / "lean"
REPO = Path(os.environ.get("ASYNKIT_REPO", "/repo"))
UNITS = {
    "c20": ("corostate2lean", "CoroState.lean", "Asynkit/Lemmas/GenEqC20.lean"),
    "c04": ("ctxresume2lean", "CtxResume.lean", "Asynkit/Lemmas/GenEqC04.lean"),
}
sys.path.insert(0, str(HERE))


def elaborate(gen_text: str, geneq: Path) -> tuple[bool, str]:
    imports, body = [], []
    for text in (gen_text, geneq.read_text()):
        for line in text.split("\n"):
            m = re.match(r"\s*import\s+(\S+)", line)
            if m:
                if not m.group(1).startswith("Asynkit.Gen.") and m.group(1) not in imports:
                    imports.append(m.group(1))
            else:
                body.append(line)
    with tempfile.NamedTemporaryFile("w", suffix=".lean", dir="/tmp", delete=False) as f:
        f.write("\n".join(f"import {i}" for i in imports) + "\n" + "\n".join(body))
        tmp = f.name
    try:
        r = subprocess.run(["lake", "env", "lean", tmp], cwd=LEAN, capture_output=True, text=True, timeout=900)
    finally:
        os.unlink(tmp)
    errs = [ln for ln in r.stdout.split("\n") if ": error" in ln]
    return r.returncode == 0, (errs[0][:160] if errs else "")


def theorem_at(geneq: Path, gen_text: str, msg: str) -> str:
    return msg


def run_one(unit: str, diff: Path | None) -> str:
    modname, outname, geneq = UNITS[unit]
    work = Path(tempfile.mkdtemp(prefix="tie_", dir="/tmp"))
    try:
        shutil.copytree(REPO / "src", work / "src")
        if diff is not None:
            r = subprocess.run(["git", "apply", str(diff)], cwd=work, capture_output=True, text=True)
            if r.returncode:
                r = subprocess.run(["patch", "-p1", "-s", "-F3", "-i", str(diff)], cwd=work, capture_output=True, text=True)
                if r.returncode:
                    return "DOES NOT APPLY"
        mod = importlib.import_module(modname)
        try:
            text = mod.generate(work / "src")[outname]
        except Exception as e:  # noqa: BLE001
            return f"unsupported: {type(e).__name__}: {e}"[:200]
        ok, err = elaborate(text, LEAN / geneq)
        return "re-proves" if ok else "proof breaks: " + err
    finally:
        shutil.rmtree(work, ignore_errors=True)


def main():
    args = sys.argv[1:]
    units = [a for a in args if a in UNITS] or list(UNITS)
    extra = [Path(a).resolve() for a in args if a not in UNITS]
    bad = 0
    for unit in units:
        base = run_one(unit, None)
        print(f"[{unit}] unchanged source: {base}")
        bad += base != "re-proves"
        sets = [("harmless", sorted((HERE / f"harmless_{unit}").glob("*.diff")) + (extra if len(units) == 1 else [])),
                ("breaking", sorted((HERE / f"breaking_{unit}").glob("*.diff")))]
        for kind, diffs in sets:
            for d in diffs:
                res = run_one(unit, d)
                ok = (res == "re-proves") if kind == "harmless" else (res.startswith(("proof breaks", "unsupported")))
                bad += not ok
                print(f"[{unit}] {kind:8s} {d.name if d.parent.parent == HERE else d.parent.name + '/' + d.name:42s} "
                      f"{'ok ' if ok else 'BAD'} {res}")
    return 1 if bad else 0


if __name__ == "__main__":
    sys.exit(main())
