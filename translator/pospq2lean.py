#!/usr/bin/env python3
"""pospq2lean — statement-level translation of `asynkit.experimental.priority.PosPriorityQueue`
into Lean (`lean/Asynkit/Gen/PosPQ.lean`), regenerated from the source on every run.

Every method `m(self, a…) -> R` of the class becomes

    def m (H : HeapLib (Entry PV)) (gp : Nat → Rat) (draw : Nat → Rat) (s : PosPQ) (a…) :
        PosPQ × Except PyExc R

over the model state `PosPQ` (`Model/PosPQ.lean`): the state after the call (also when an exception
escapes) and the result or the exception.  The translation is generic over the statements it
meets (there is no Lean text chosen by function name):

* `self.<counter>` reads/writes, `+=`, chained assignment            -> record updates of `s`
* `self._pq.<method>(…)`                                            -> the `PQ` model's operation
  (binding table `PQ_API`; IndexError/ValueError as the `none` results of the model)
* `self._get_priority(x)` -> `gp x`;  `with self._lock:` is transparent (C18's subject)
* `random.random()` -> a parameter `rand`; a method that draws is called from inside a loop over
  queue entries with `draw (sequence number of the current entry)` (the model's convention)
* `self.<sibling>(…)` with defaults from the `def`                   -> call of the translated sibling
* `PriorityValue(kw=…)` with the defaults of the dataclass           -> `PV` record, every field explicit
* locals, tuples, `Optional` with `is None` narrowing, lists with `append`/`len`/truthiness
* `if/else`, `return`, `assert`, `continue`, `break`, `try/except <Name>` — in continuation-passing
  style: what follows a statement is translated once per control path that reaches it
* `for … in self._pq.items()` -> structural recursion over the array with an index; the `pri` of a
  pair is a *reference* (the index): attribute reads go through the current state (`pvAt`),
  attribute writes are `setPV` (a `List.modify`); references die when the array is restructured
* `for x in <list>` -> structural recursion; `while a > b` -> recursion on fuel `a - b` measured at
  loop entry (`outOfFuel` if it does not suffice; the equality proofs show it does)
* generators: `yield from <list>` accumulates the produced list

Anything else raises `Unsupported`.  `generate()` reports it loudly and leaves the method (and every
method that calls it) out of the generated file, so that `Lemmas/GenEqPosPQ.lean` — which proves
every generated method equal to the hand-written model — no longer builds: a broken obligation.
"""
import ast
import copy
import sys
from fractions import Fraction
from pathlib import Path

try:
    from py2lean import Unsupported, body_no_doc
except ImportError:  # imported as translator.pospq2lean
    from .py2lean import Unsupported, body_no_doc  # type: ignore

CLASS = "PosPriorityQueue"
PV_CLASS = "PriorityValue"
MAX_CHARS = 200_000

# attribute of self -> (field of the model state, type)
SELF_FIELDS = {"n_inserted": ("nIns", "nat"), "n_removed": ("nRem", "nat"),
               "last_maintenance": ("lastMaint", "nat"), "priority_boost_factor": ("factor", "rat")}
# attribute of a PriorityValue -> (field of PV, type)
PV_FIELDS = {"base_priority": ("base", "rat"), "inserted_at": ("insertedAt", "nat"),
             "priority_boost": ("boost", "rat"), "priority_class": ("cls", "nat")}
EXC = {"IndexError": "indexError", "ValueError": "valueError", "AssertionError": "assertionError"}

# self._pq.<method>: (parameter names, defaults, structural?)  — the emission is in `pq_call`
PQ_API = {
    "add": (["pri", "obj"], {}, True), "pop": ([], {}, True), "popitem": ([], {}, True),
    "peek": ([], {}, False), "peekitem": ([], {}, False), "remove": (["obj"], {}, True),
    "find": (["key", "remove"], {"remove": ast.Constant(False)}, True),
    "reschedule": (["key", "new_priority"], {}, True),
    "refresh": ([], {}, True), "sort": ([], {}, True), "clear": ([], {}, True),
}


def lean_ty(t):
    if isinstance(t, tuple):
        if t[0] == "opt":
            return f"Option {paren_ty(t[1])}"
        if t[0] == "list":
            if t[1] is None:
                raise Unsupported("a list whose element type is never determined")
            return f"List {paren_ty(t[1])}"
        if t[0] == "tuple":
            return "(" + " × ".join(lean_ty(x) for x in t[1:]) + ")"
    return {"nat": "Nat", "int": "Int", "rat": "Rat", "bool": "Bool", "obj": "Nat", "pv": "PV",
            "pvref": "Nat", "none": "Unit", "key": "(Nat → Bool)", "num": "Nat"}[t]


def paren_ty(t):
    s = lean_ty(t)
    return f"({s})" if " " in s and not s.startswith("(") else s


def has_ref(t):
    return t == "pvref" or (isinstance(t, tuple) and any(has_ref(x) for x in t[1:] if x is not None))


def has_pv(t):
    return t == "pv" or (isinstance(t, tuple) and any(has_pv(x) for x in t[1:] if x is not None))


def ind(lines, n=2):
    return [" " * n + ln for ln in lines]


class Var:
    def __init__(self, lean, ty, decl=None, sep=None, wep=None):
        self.lean, self.ty, self.decl = lean, ty, decl if decl is not None else ty
        self.sep, self.wep = sep, wep


class Env:
    def __init__(self):
        self.vars = {}
        self.s = "s"
        self.sep = 0          # bumped when the heap array is restructured (references die)
        self.wep = 0          # bumped when a PriorityValue in the queue is written (snapshots die)
        self.cur_ref = None   # index expression of the entry the innermost entry loop is at
        self.ref_loop = False
        self.rand_used = False

    def copy(self):
        e = Env()
        e.vars = dict(self.vars)
        e.s, e.sep, e.wep = self.s, self.sep, self.wep
        e.cur_ref, e.ref_loop, e.rand_used = self.cur_ref, self.ref_loop, self.rand_used
        return e


class K:
    """the continuations of a statement: each yields the Lean lines of the rest of the computation"""

    def __init__(self, fall, ret, exc, cont=None, brk=None):
        self.fall, self.ret, self.exc, self.cont, self.brk = fall, ret, exc, cont, brk

    def with_(self, **kw):
        k = K(self.fall, self.ret, self.exc, self.cont, self.brk)
        for a, b in kw.items():
            setattr(k, a, b)
        return k


def _stores(fn, name):
    n = 0
    for x in ast.walk(fn):
        if isinstance(x, ast.Name) and x.id == name and isinstance(x.ctx, (ast.Store, ast.Del)):
            n += 1
        if isinstance(x, ast.arg) and x.arg == name:
            n += 1
    return n


def expand_aliases(fn):
    """`f = xs.append` / `pop = self._pq.pop` / `upd = self.update_counters` … `f(v)`:
    a local name bound once to a bound method of a local container, of `self._pq` or of `self`, and only ever
    called, is replaced by the attribute it stands for (the container itself must not be re-bound: a bound
    method keeps the object, a re-bound name would not)."""
    cands = {}
    for st in ast.walk(fn):
        if isinstance(st, ast.Assign) and len(st.targets) == 1 and isinstance(st.targets[0], ast.Name) \
                and isinstance(st.value, ast.Attribute):
            v = st.value
            base = v.value
            ok = (isinstance(base, ast.Name)
                  or (isinstance(base, ast.Attribute) and isinstance(base.value, ast.Name) and base.value.id == "self"
                      and base.attr == "_pq"))
            if ok:
                cands[st.targets[0].id] = st
    if not cands:
        return fn
    calls = {id(c.func) for c in ast.walk(fn) if isinstance(c, ast.Call)}
    for name, st in list(cands.items()):
        loads = [x for x in ast.walk(fn) if isinstance(x, ast.Name) and x.id == name and isinstance(x.ctx, ast.Load)]
        base = st.value.value
        if not loads or any(id(x) not in calls for x in loads):
            del cands[name]          # not (only) called: an ordinary attribute read, handled or refused later
            continue
        if _stores(fn, name) != 1:
            raise Unsupported(f"`{name}` is bound to a method and re-assigned")
        if isinstance(base, ast.Name) and base.id != "self" and _stores(fn, base.id) != 1:
            raise Unsupported(f"`{name} = {base.id}.{st.value.attr}` while `{base.id}` is re-bound")
        if isinstance(base, ast.Name) and base.id == "self" and st.value.attr in SELF_FIELDS:
            del cands[name]

    class Tr(ast.NodeTransformer):
        def visit_Assign(self, node):
            if any(node is st for st in cands.values()):
                return None
            return self.generic_visit(node)

        def visit_Call(self, node):
            self.generic_visit(node)
            if isinstance(node.func, ast.Name) and node.func.id in cands:
                node.func = copy.deepcopy(cands[node.func.id].value)
            return node
    fn = Tr().visit(fn)
    for node in ast.walk(fn):
        for field in ("body", "orelse", "finalbody"):
            if isinstance(getattr(node, field, None), list) and not getattr(node, field) and field == "body":
                node.body = [ast.Pass()]
    return fn


class WhileTrue(ast.NodeTransformer):
    """`while True: if C: break; rest`  ==  `while not C: rest`  (no other break in `rest`)"""

    def visit_While(self, node):
        self.generic_visit(node)
        if isinstance(node.test, ast.Constant) and node.test.value is True and not node.orelse and node.body:
            b0 = node.body[0]
            if isinstance(b0, ast.If) and not b0.orelse and len(b0.body) == 1 and isinstance(b0.body[0], ast.Break) \
                    and not any(isinstance(x, ast.Break) for st in node.body[1:] for x in ast.walk(st)):
                node.test = ast.UnaryOp(ast.Not(), b0.test)
                node.body = node.body[1:] or [ast.Pass()]
        return node


def _replace_node(tree, old, new):
    """a copy of `tree` in which the node `old` (by identity) is replaced by `new`"""
    if tree is old:
        return new
    if isinstance(tree, ast.AST):
        c = copy.copy(tree)
        for f, v in ast.iter_fields(tree):
            setattr(c, f, _replace_node(v, old, new))
        return c
    if isinstance(tree, list):
        return [_replace_node(x, old, new) for x in tree]
    return tree


def normalize_function(fn):
    fn = copy.deepcopy(fn)
    fn = expand_aliases(fn)
    fn = WhileTrue().visit(fn)
    return fn


class MethodInfo:
    def __init__(self, fn, source):
        self.fn, self.name = fn, fn.name
        self.lean = lean_name(fn.name)
        self.source = source
        self.generator = any(isinstance(n, (ast.Yield, ast.YieldFrom)) for n in ast.walk(fn))
        self.calls = set()          # sibling methods called
        self.structural = False     # may restructure the heap array
        self.writes_pv = False      # may write an attribute of a PriorityValue in the queue
        self.rand_direct = False    # calls random.random() itself
        self.params = []            # (python name, type, default ast or None)
        self.ret = None
        self.nat_asserts = set()
        self.pv_mode = False        # a method of PriorityValue: `self` is a PV value


RESERVED = {"s", "H", "gp", "draw", "rand", "self", "at", "end", "fun", "open", "from", "have", "show", "then",
            "match", "with", "do", "in", "let", "by", "instance", "structure", "class", "where", "macro", "syntax",
            "namespace", "section", "variable", "universe", "theorem", "def", "example", "import", "export",
            "extends", "deriving", "mutual", "private", "protected", "local", "attribute", "notation", "prefix",
            "postfix", "infix", "using", "calc", "obtain", "suffices", "exists", "forall", "Type", "Prop", "Sort",
            "if", "else", "return", "for", "unless", "try", "catch", "finally", "mut", "nomatch", "sorry"}


def binder(py):
    """a Python name used as a Lean binder"""
    if py == "__yield__":
        return "yielded"
    return py + "_v" if (py in RESERVED or py.endswith("_") or not py.isidentifier() or not py.isascii()) else py


def lean_name(py):
    if py.startswith("__") and py.endswith("__"):
        return py[2:-2] + "_"
    return py


def is_self_attr(e, attr=None):
    return isinstance(e, ast.Attribute) and isinstance(e.value, ast.Name) and e.value.id == "self" \
        and (attr is None or e.attr == attr)


def is_pq_call(e):
    """`self._pq.<m>(…)` -> m"""
    if isinstance(e, ast.Call) and isinstance(e.func, ast.Attribute) and is_self_attr(e.func.value, "_pq"):
        return e.func.attr
    return None


def is_sibling_call(e):
    if isinstance(e, ast.Call) and is_self_attr(e.func) and e.func.attr not in ("_get_priority",):
        return e.func.attr
    return None


def is_random_call(e):
    return isinstance(e, ast.Call) and isinstance(e.func, ast.Attribute) and e.func.attr == "random" \
        and isinstance(e.func.value, ast.Name) and e.func.value.id == "random"


# ---- annotations ---------------------------------------------------------------------------

def ann_type(a, nested=False):
    if a is None:
        raise Unsupported("parameter without annotation")
    if isinstance(a, ast.Constant) and a.value is None:
        return "none"
    if isinstance(a, ast.Constant) and isinstance(a.value, str):
        return ann_type(ast.parse(a.value, mode="eval").body, nested)
    if isinstance(a, ast.Name):
        if a.id == PV_CLASS:
            return "pvref" if nested else "pv"
        t = {"T": "obj", "float": "rat", "int": "int", "bool": "bool"}.get(a.id)
        if t:
            return t
    if isinstance(a, ast.Subscript) and isinstance(a.value, ast.Name):
        base = a.value.id
        sl = a.slice
        if base == "Optional":
            return ("opt", ann_type(sl, nested))
        if base in ("List", "list"):
            return ("list", ann_type(sl, True))
        if base in ("Tuple", "tuple") and isinstance(sl, ast.Tuple):
            return ("tuple",) + tuple(ann_type(x, nested) for x in sl.elts)
        if base == "Callable" and isinstance(sl, ast.Tuple) and len(sl.elts) == 2 \
                and isinstance(sl.elts[0], ast.List) and len(sl.elts[0].elts) == 1 \
                and ann_type(sl.elts[0].elts[0]) == "obj" and ann_type(sl.elts[1]) == "bool":
            return "key"
        if base in ("Iterator", "Iterable", "Generator"):
            inner = sl.elts[0] if isinstance(sl, ast.Tuple) else sl
            return ("list", ann_type(inner, True))
    raise Unsupported(f"annotation {ast.dump(a)[:80]}")


# ---- one method ------------------------------------------------------------------------------

class MethodTr:
    def __init__(self, cls_tr, info):
        self.c, self.m = cls_tr, info
        self.counters = {}
        self.aux = []              # auxiliary loop definitions (text), inner loops first
        self.loop_cache = {}
        self.list_elem = cls_tr.list_elem.setdefault(info.name, {})   # resolved element types of `x = []`

    # -- names
    def fresh(self, base):
        base = "yielded" if base == "__yield__" else (base.strip("_") or "v")
        n = self.counters.get(base, 0) + 1
        self.counters[base] = n
        return f"{base}_{n}"

    # -- typing helpers
    def unify(self, a, ta, b, tb, what="operands"):
        if ta == "num" and tb == "num":
            return a, b, "num"
        if ta == "num":
            return a, b, tb
        if tb == "num":
            return a, b, ta
        if ta == tb and ta in ("nat", "int", "rat", "obj", "bool"):
            return a, b, ta
        if {ta, tb} == {"nat", "int"}:
            return (f"({a} : Int)" if ta == "nat" else a), (f"({b} : Int)" if tb == "nat" else b), "int"
        raise Unsupported(f"{what} of types {ta} and {tb}")

    def coerce(self, text, ty, to, what="value"):
        """text of type `ty` as a value of type `to`"""
        if ty == to:
            return text
        if ty == "num" and to in ("nat", "int", "rat"):
            return f"({text} : {lean_ty(to)})"
        if isinstance(to, tuple) and to[0] == "opt":
            if ty == "none":
                return "none"
            return f"(some {self.coerce(text, ty, to[1], what)})"
        if isinstance(to, tuple) and to[0] == "list" and isinstance(ty, tuple) and ty[0] == "list" and ty[1] is None:
            return text
        if isinstance(to, tuple) and to[0] == "tuple" and isinstance(ty, tuple) and ty[0] == "tuple" \
                and len(to) == len(ty):
            return text if all(a == b or b == "num" for a, b in zip(to[1:], ty[1:])) else self._bad(ty, to, what)
        return self._bad(ty, to, what)

    @staticmethod
    def _bad(ty, to, what):
        raise Unsupported(f"{what}: a {ty} where a {to} is expected")

    # -- pure expressions -> (text, type)
    def const(self, e):
        v = e.value
        if v is None:
            return "none", "none"
        if isinstance(v, bool):
            return ("true" if v else "false"), "bool"
        if isinstance(v, int):
            return (str(v) if v >= 0 else f"({v})"), "num"
        if isinstance(v, float):
            seg = ast.get_source_segment(self.m.source, e)
            fr = Fraction(seg) if seg else Fraction(v)
            if fr.denominator == 1:
                return f"({fr.numerator} : Rat)", "rat"
            return f"(({fr.numerator} : Rat) / {fr.denominator})", "rat"
        raise Unsupported(f"constant {v!r}")

    def lookup(self, name, env):
        if name not in env.vars:
            raise Unsupported(f"name `{name}` (unknown here, or out of scope after a loop)")
        return env.vars[name]

    def pv_of(self, base_expr, env):
        """PV value text of an expression denoting a PriorityValue (value or reference)"""
        if not isinstance(base_expr, ast.Name):
            x, t = self.pure(base_expr, env)       # e.g. `head[0]`; staleness is checked at the names inside
            if t == "pvref":
                return f"(PosPQ.pvAt {env.s} {self.atom(x)})"
            if t == "pv":
                return self.atom(x)
            raise Unsupported(f"attribute of a {t}")
        v = self.lookup(base_expr.id, env)
        if v.ty == "pvref":
            if v.sep != env.sep:
                raise Unsupported(f"`{base_expr.id}` refers into the heap array, which was restructured since")
            return f"(PosPQ.pvAt {env.s} {v.lean})"
        if v.ty == "pv":
            if v.wep is not None and v.wep != env.wep:
                raise Unsupported(f"`{base_expr.id}` is a PriorityValue read before a later in-place write")
            return v.lean
        raise Unsupported(f"attribute of `{base_expr.id}` : {v.ty}")

    def pure(self, e, env):
        if isinstance(e, ast.Constant):
            return self.const(e)
        if isinstance(e, ast.Name):
            v = self.lookup(e.id, env)
            if has_ref(v.ty) and v.sep != env.sep:
                raise Unsupported(f"`{e.id}` holds references into the heap array, which was restructured since")
            if has_pv(v.ty) and v.wep is not None and v.wep != env.wep:
                raise Unsupported(f"`{e.id}` holds a PriorityValue read before a later in-place write")
            return v.lean, v.ty
        if isinstance(e, ast.Attribute):
            if is_self_attr(e) and not self.m.pv_mode:
                if e.attr in SELF_FIELDS:
                    f, ty = SELF_FIELDS[e.attr]
                    return f"{env.s}.{f}", ty
                raise Unsupported(f"self.{e.attr} as a value")
            if e.attr in PV_FIELDS:
                f, ty = PV_FIELDS[e.attr]
                return f"{self.pv_of(e.value, env)}.{f}", ty
            raise Unsupported(f"attribute .{e.attr}")
        if isinstance(e, ast.Subscript) and isinstance(e.slice, ast.Constant) and isinstance(e.slice.value, int) \
                and not isinstance(e.slice.value, bool):
            x, tx = self.pure(e.value, env)
            k = e.slice.value
            if isinstance(tx, tuple) and tx[0] == "tuple":
                n = len(tx) - 1
                if k < 0:
                    k += n
                if not 0 <= k < n:
                    raise Unsupported("tuple index out of range")
                proj = ".2" * k + (".1" if k < n - 1 else "")
                return f"{self.atom(x)}{proj}", tx[1 + k]
            raise Unsupported(f"subscript of a {tx}")
        if isinstance(e, ast.Tuple):
            parts = [self.pure(x, env) for x in e.elts]
            return "(" + ", ".join(p[0] for p in parts) + ")", ("tuple",) + tuple(p[1] for p in parts)
        if isinstance(e, ast.List):
            if not e.elts:
                return "[]", ("list", None)
            parts = [self.pure(x, env) for x in e.elts]
            ty = parts[0][1]
            for _, t2 in parts[1:]:
                if t2 != ty:
                    raise Unsupported("list literal with elements of different types")
            return "[" + ", ".join(p[0] for p in parts) + "]", ("list", "nat" if ty == "num" else ty)
        if isinstance(e, ast.ListComp):
            return self.list_comp(e, env)
        if isinstance(e, ast.IfExp):
            node = self.decide_tree(e.test, env,
                                    lambda e2: ("leaf", self.pure(e.body, e2)),
                                    lambda e2: ("leaf", self.pure(e.orelse, e2)))
            to = self.join_types(self.leaf_types(node))
            if to == "num":
                return self.render_expr(node, "num"), "num"
            return self.render_expr(node, to), to
        if isinstance(e, ast.BinOp) and isinstance(e.op, (ast.Add, ast.Sub, ast.Mult)):
            a, ta = self.pure(e.left, env)
            b, tb = self.pure(e.right, env)
            if isinstance(e.op, ast.Add) and isinstance(ta, tuple) and ta[0] == "list" and isinstance(tb, tuple):
                return f"({a} ++ {b})", ta
            a, b, t = self.unify(a, ta, b, tb)
            if isinstance(e.op, ast.Sub) and t in ("nat", "num"):
                # Python integers do not truncate
                return f"(({a} : Int) - ({b} : Int))", "int"
            op = {ast.Add: "+", ast.Sub: "-", ast.Mult: "*"}[type(e.op)]
            if t == "bool":
                raise Unsupported("arithmetic on booleans")
            return f"({a} {op} {b})", t
        if isinstance(e, ast.UnaryOp) and isinstance(e.op, ast.USub):
            a, ta = self.pure(e.operand, env)
            if ta in ("nat", "num"):
                return f"(-({a} : Int))", "int"
            return f"(-{a})", ta
        if isinstance(e, (ast.Compare, ast.BoolOp)) or (isinstance(e, ast.UnaryOp) and isinstance(e.op, ast.Not)):
            return f"(decide ({self.cond(e, env)}))", "bool"
        if isinstance(e, ast.Call):
            return self.pure_call(e, env)
        raise Unsupported(f"expression {ast.dump(e)[:80]}")

    def join_branches(self, x, tx, y, ty_):
        if tx == ty_:
            return x, y, tx
        if tx == "none" and ty_ != "none":
            return "none", f"(some {y})", ("opt", ty_)
        if ty_ == "none":
            return f"(some {x})", "none", ("opt", tx)
        x, y, t = self.unify(x, tx, y, ty_, "branches of a conditional expression")
        return x, y, t

    def list_comp(self, e, env):
        """`[elt for x in <list> if c]` over a list value (or `self._pq`): filter + map"""
        if len(e.generators) != 1 or e.generators[0].is_async:
            raise Unsupported("comprehension with several generators")
        g = e.generators[0]
        xs, t = self.iterable(g.iter, env)
        if not (isinstance(t, tuple) and t[0] == "list" and t[1] is not None):
            raise Unsupported(f"comprehension over a {t}")
        x = self.fresh("x")
        env2 = env.copy()
        lets = ""
        if isinstance(g.target, ast.Name):
            if g.target.id != "_":
                env2.vars[g.target.id] = Var(x, t[1], t[1], env.sep if has_ref(t[1]) else None,
                                             env.wep if has_pv(t[1]) else None)
        elif isinstance(g.target, ast.Tuple) and isinstance(t[1], tuple) and t[1][0] == "tuple" \
                and len(g.target.elts) == len(t[1]) - 1 == 2 and all(isinstance(a, ast.Name) for a in g.target.elts):
            for i, (a, et) in enumerate(zip(g.target.elts, t[1][1:])):
                if a.id == "_":
                    continue
                nm = self.fresh(a.id)
                lets += f"let {nm} := {x}.{i + 1}; "
                env2.vars[a.id] = Var(nm, et, et, env.sep if has_ref(et) else None, env.wep if has_pv(et) else None)
        else:
            raise Unsupported("comprehension target")
        src = self.atom(xs)
        for c in g.ifs:
            if self.effectful(c):
                raise Unsupported("comprehension condition with side effects")
            src = f"({src}.filter (fun {x} => {lets}decide ({self.cond(c, env2)})))"
        if self.effectful(e.elt):
            raise Unsupported("comprehension element with side effects")
        y, ty = self.pure(e.elt, env2)
        ty = "nat" if ty == "num" else ty
        return f"({src}.map (fun {x} => {lets}{y}))", ("list", ty)

    def iterable(self, e, env):
        """an expression that is iterated: a list, or `self._pq` (PriorityQueue.__iter__: objects in array order)"""
        if is_self_attr(e, "_pq"):
            return f"({env.s}.q.pq.map (·.obj))", ("list", "obj")
        return self.pure(e, env)

    def pure_call(self, e, env):
        f = e.func
        if isinstance(f, ast.Name) and f.id in ("min", "max") and len(e.args) == 2 and not e.keywords:
            a, ta = self.pure(e.args[0], env)
            b, tb = self.pure(e.args[1], env)
            a, b, t = self.unify(a, ta, b, tb)
            return f"({f.id} {a} {b})", t
        if isinstance(f, ast.Name) and f.id == "len" and len(e.args) == 1:
            a = e.args[0]
            if is_self_attr(a, "_pq"):
                return f"(PQ.len {env.s}.q)", "nat"
            x, tx = self.pure_shape(a, env)
            if isinstance(tx, tuple) and tx[0] == "list":
                return f"{x}.length", "nat"
            raise Unsupported("len() of a non-list")
        if isinstance(f, ast.Name) and f.id == "bool" and len(e.args) == 1:
            return f"(decide ({self.truth(e.args[0], env)}))", "bool"
        if isinstance(f, ast.Name) and f.id in ("list", "tuple") and len(e.args) == 1:
            a = e.args[0]
            if is_self_attr(a, "_pq"):
                # PriorityQueue.__iter__: the objects in array order
                return f"({env.s}.q.pq.map (·.obj))", ("list", "obj")
            x, tx = self.pure(a, env)
            if isinstance(tx, tuple) and tx[0] == "list":
                return x, tx
            raise Unsupported("list() of a non-list")
        if is_self_attr(f, "_get_priority") and len(e.args) == 1 and not e.keywords:
            a, ta = self.pure(e.args[0], env)
            if ta != "obj":
                raise Unsupported("_get_priority of a non-object")
            return f"(gp {a})", "rat"
        if is_random_call(e) and not e.args:
            if not self.m.rand_direct:
                raise Unsupported("random.random() inside a loop")
            return "rand", "rat"
        if isinstance(f, ast.Attribute) and f.attr in self.c.pv_methods and not e.keywords \
                and isinstance(f.value, ast.Name) and f.value.id in env.vars \
                and self.lookup(f.value.id, env).ty in ("pv", "pvref"):
            fn, ptys, ty = self.c.pv_methods[f.attr]
            if len(e.args) != len(ptys):
                raise Unsupported(f"arguments of PriorityValue.{f.attr}")
            args = []
            for a, pt in zip(e.args, ptys):
                x, tx = self.pure(a, env)
                args.append(self.atom(self.coerce(x, tx, pt, f"argument of PriorityValue.{f.attr}")))
            return "(" + " ".join([fn, self.pv_of(f.value, env)] + args) + ")", ty
        if isinstance(f, ast.Name) and f.id == PV_CLASS:
            args = self.bind_args(e, self.c.pv_params, self.c.pv_defaults, "PriorityValue")
            vals = [self.pure(a, env) for a in args]
            return self.mk_pv(vals, env), "pv"
        raise Unsupported(f"call {ast.dump(e)[:90]}")

    def mk_pv(self, vals, env):
        parts = []
        for name, (x, tx) in zip(self.c.pv_params, vals):
            f, ty = PV_FIELDS[name]
            parts.append(f"{f} := {self.coerce(x, tx, ty, 'PriorityValue.' + name)}")
        return "({ " + ", ".join(parts) + " } : PV)"

    @staticmethod
    def bind_args(call, params, defaults, what):
        """positional + keyword arguments and defaults -> one expression per parameter"""
        if any(isinstance(a, ast.Starred) for a in call.args) or any(k.arg is None for k in call.keywords):
            raise Unsupported(f"star arguments in a call of {what}")
        if len(call.args) > len(params):
            raise Unsupported(f"too many arguments for {what}")
        got = dict(zip(params, call.args))
        for k in call.keywords:
            if k.arg not in params or k.arg in got:
                raise Unsupported(f"argument {k.arg} of {what}")
            got[k.arg] = k.value
        out = []
        for p in params:
            if p in got:
                out.append(got[p])
            elif p in defaults and defaults[p] is not None:
                out.append(defaults[p])
            else:
                raise Unsupported(f"missing argument {p} of {what}")
        return out

    # -- conditions -> Prop text
    def pure_shape(self, e, env):
        """like `pure`, for uses that only look at the length of a list (truth value, len()): a list of
        references that died with a restructuring of the heap array is still a list of that length"""
        if isinstance(e, ast.Name) and e.id in env.vars and isinstance(env.vars[e.id].ty, tuple) \
                and env.vars[e.id].ty[0] == "list":
            v = env.vars[e.id]
            return v.lean, v.ty
        return self.pure(e, env)

    def truth(self, e, env):
        if is_self_attr(e, "_pq"):
            return f"0 < PQ.len {env.s}.q"
        if isinstance(e, ast.Constant) and isinstance(e.value, bool):
            return "True" if e.value else "False"
        x, t = self.pure_shape(e, env)
        if t == "bool":
            return f"{x} = true"
        if t in ("nat", "int", "rat", "num"):
            return f"{x} ≠ 0"
        if isinstance(t, tuple) and t[0] == "list":
            return f"{x} ≠ []"
        if isinstance(t, tuple) and t[0] == "opt":
            return f"{x} ≠ none"
        raise Unsupported(f"truth value of a {t}")

    def cond(self, e, env):
        if isinstance(e, ast.UnaryOp) and isinstance(e.op, ast.Not):
            return f"¬ ({self.cond(e.operand, env)})"
        if isinstance(e, ast.BoolOp):
            op = " ∧ " if isinstance(e.op, ast.And) else " ∨ "
            return "(" + op.join(f"({self.cond(v, env)})" for v in e.values) + ")"
        if isinstance(e, ast.Compare) and len(e.ops) == 1:
            op, r = e.ops[0], e.comparators[0]
            if isinstance(op, (ast.Is, ast.IsNot)) and isinstance(r, ast.Constant) and isinstance(r.value, bool):
                x, t = self.pure(e.left, env)
                if t != "bool":
                    raise Unsupported(f"`is {r.value}` test of a {t}")
                b = "true" if r.value else "false"
                return f"{x} = {b}" if isinstance(op, ast.Is) else f"{x} ≠ {b}"
            if isinstance(op, (ast.Is, ast.IsNot)):
                if not (isinstance(r, ast.Constant) and r.value is None):
                    raise Unsupported("`is` with something other than None")
                x, t = self.pure(e.left, env)
                if not (isinstance(t, tuple) and t[0] == "opt"):
                    raise Unsupported(f"`is None` test of a {t}")
                return f"{x} = none" if isinstance(op, ast.Is) else f"{x} ≠ none"
            a, ta = self.pure(e.left, env)
            b, tb = self.pure(r, env)
            a, b, t = self.unify(a, ta, b, tb, "comparison")
            if t == "num":
                a = f"({a} : Nat)"
            sym = {ast.Lt: "<", ast.Gt: ">", ast.LtE: "≤", ast.GtE: "≥", ast.Eq: "=", ast.NotEq: "≠"}.get(type(op))
            if sym is None or (t == "bool" and sym not in ("=", "≠")):
                raise Unsupported(f"comparison {type(op).__name__} on {t}")
            return f"{a} {sym} {b}"
        return self.truth(e, env)

    def none_atom(self, t, env):
        """(name, True) for `name is None`, (name, False) for `name is not None`, name an Optional local"""
        if isinstance(t, ast.Compare) and len(t.ops) == 1 and isinstance(t.ops[0], (ast.Is, ast.IsNot)) \
                and isinstance(t.left, ast.Name) and isinstance(t.comparators[0], ast.Constant) \
                and t.comparators[0].value is None and t.left.id in env.vars \
                and isinstance(env.vars[t.left.id].ty, tuple) and env.vars[t.left.id].ty[0] == "opt":
            return t.left.id, isinstance(t.ops[0], ast.Is)
        return None

    def has_narrowing(self, test, env):
        """does the test compare an Optional local with None (possibly under not / and / or)?"""
        if isinstance(test, ast.UnaryOp) and isinstance(test.op, ast.Not):
            return self.has_narrowing(test.operand, env)
        if isinstance(test, ast.BoolOp):
            # a later operand may mention a name that only a preceding operand narrows
            return any(self.none_atom_syntactic(v) for v in ast.walk(test))
        return self.none_atom(test, env) is not None

    @staticmethod
    def none_atom_syntactic(t):
        return isinstance(t, ast.Compare) and len(t.ops) == 1 and isinstance(t.ops[0], (ast.Is, ast.IsNot)) \
            and isinstance(t.left, ast.Name) and isinstance(t.comparators[0], ast.Constant) \
            and t.comparators[0].value is None

    def decide_tree(self, test, env, T, F):
        """Decision tree of a test, following Python's short-circuit evaluation; `T(env)` / `F(env)` build
        the sub-tree of each outcome in the environment that holds there (an Optional local is narrowed
        in the branch where it is known not to be None).
        node = ("match", scrutinee, none-node, bound name, some-node) | ("if", prop, then, else) | ("leaf", x)"""
        if isinstance(test, ast.UnaryOp) and isinstance(test.op, ast.Not):
            return self.decide_tree(test.operand, env, F, T)
        if isinstance(test, ast.BoolOp) and self.has_narrowing(test, env):
            first, rest = test.values[0], test.values[1:]
            rest_t = rest[0] if len(rest) == 1 else ast.BoolOp(test.op, rest)
            if isinstance(test.op, ast.And):
                return self.decide_tree(first, env, lambda e2: self.decide_tree(rest_t, e2, T, F), F)
            return self.decide_tree(first, env, T, lambda e2: self.decide_tree(rest_t, e2, T, F))
        atom = self.none_atom(test, env)
        if atom:
            name, is_none = atom
            v = env.vars[name]
            nm = self.fresh(name)
            env2 = env.copy()
            env2.vars[name] = Var(nm, v.ty[1], v.decl, v.sep, v.wep)
            n_node = (T if is_none else F)(env)
            s_node = (F if is_none else T)(env2)
            return ("match", v.lean, n_node, nm, s_node)
        c = self.cond(test, env)
        return ("if", c, T(env), F(env))

    def render_lines(self, node):
        if node[0] == "leaf":
            return node[1]
        if node[0] == "match":
            return ([f"match {node[1]} with", "| none =>"] + ind(self.render_lines(node[2]))
                    + [f"| some {node[3]} =>"] + ind(self.render_lines(node[4])))
        return [f"if {node[1]} then"] + ind(self.render_lines(node[2])) + ["else"] + ind(self.render_lines(node[3]))

    def leaf_types(self, node):
        if node[0] == "leaf":
            return [node[1][1]]
        if node[0] == "match":
            return self.leaf_types(node[2]) + self.leaf_types(node[4])
        return self.leaf_types(node[2]) + self.leaf_types(node[3])

    def render_expr(self, node, to):
        if node[0] == "leaf":
            return self.coerce(node[1][0], node[1][1], to, "branch of a conditional expression")
        if node[0] == "match":
            return (f"(match {node[1]} with | none => {self.render_expr(node[2], to)} "
                    f"| some {node[3]} => {self.render_expr(node[4], to)})")
        return f"(if {node[1]} then {self.render_expr(node[2], to)} else {self.render_expr(node[3], to)})"

    @staticmethod
    def join_types(tys):
        """the common type of the leaves of a conditional expression"""
        base = [t for t in tys if t not in ("none", "num")]
        opt = any(t == "none" or (isinstance(t, tuple) and t[0] == "opt") for t in tys)
        inner = {t[1] if (isinstance(t, tuple) and t[0] == "opt") else t for t in base}
        if len(inner) > 1:
            if inner == {"nat", "int"}:
                raise Unsupported("conditional expression mixing naturals and integers")
            raise Unsupported(f"conditional expression with branches of types {sorted(map(str, inner))}")
        if not inner:
            if "none" in tys and "num" not in tys:
                raise Unsupported("conditional expression that is always None")
            return ("opt", "nat") if opt else "num"
        t = inner.pop()
        return ("opt", t) if opt else t

    # -- effectful expressions, continuation-passing
    def effectful(self, e):
        if self.m.pv_mode:
            return False
        for n in ast.walk(e):
            if is_pq_call(n) or is_sibling_call(n):
                return True
        return False

    def eval(self, e, env, kk, k):
        """k(text, type, env) -> lines.  `kk` supplies the exception continuation."""
        if not self.effectful(e):
            x, t = self.pure(e, env)
            return k(x, t, env)
        if isinstance(e, ast.Call):
            m = is_pq_call(e)
            if m:
                return self.pq_call(e, m, env, kk, k)
            m = is_sibling_call(e)
            if m:
                return self.sibling_call(e, m, env, kk, k)
            if isinstance(e.func, ast.Name) and e.func.id == PV_CLASS:
                args = self.bind_args(e, self.c.pv_params, self.c.pv_defaults, "PriorityValue")
                self.check_order(e, args)
                return self.eval_many(args, env, kk,
                                      lambda vals, env2: k(self.mk_pv(vals, env2), "pv", env2))
        raise Unsupported(f"a call with side effects inside {type(e).__name__}: {ast.dump(e)[:80]}")

    def check_order(self, call, bound):
        """Python evaluates arguments in source order; `bound` is in parameter order"""
        src = list(call.args) + [kw.value for kw in call.keywords]
        if any(self.effectful(a) for a in src):
            explicit = [b for b in bound if any(b is x for x in src)]
            if [id(x) for x in explicit] != [id(x) for x in src]:
                raise Unsupported("keyword arguments with side effects given in another order than the parameters")

    def eval_many(self, exprs, env, kk, k, acc=None):
        acc = acc or []
        if not exprs:
            return k(acc, env)
        return self.eval(exprs[0], env, kk,
                         lambda x, t, env2: self.eval_many(exprs[1:], env2, kk, k, acc + [(x, t)]))

    def set_state(self, env, text):
        """bind a new state; returns (line, env')"""
        env = env.copy()
        nm = self.fresh("s")
        env.s = nm
        return f"let {nm} : PosPQ := {text}", env

    def plt(self):
        """the comparison the heap applies to priorities: the translated `PriorityValue.__lt__`"""
        if "__lt__" not in self.c.pv_methods:
            raise Unsupported("the heap compares priorities with PriorityValue.__lt__, which is not translated")
        return self.c.pv_methods["__lt__"][0]

    def pq_call(self, e, m, env, kk, k):
        if m not in PQ_API:
            raise Unsupported(f"self._pq.{m}(…) is not in the PriorityQueue binding table")
        params, defaults, structural = PQ_API[m]
        args = self.bind_args(e, params, defaults, f"PriorityQueue.{m}")
        self.check_order(e, args)

        def go(vals, env):
            env = env.copy()
            if structural:
                if env.ref_loop:
                    raise Unsupported(f"self._pq.{m}() restructures the heap array while its entries are iterated")
                env.sep += 1
            s = env.s
            q = f"{s}.q"
            if m == "add":
                pv = self.coerce(vals[0][0], vals[0][1], "pv", "add(pri)")
                ob = self.coerce(vals[1][0], vals[1][1], "obj", "add(obj)")
                ln, env2 = self.set_state(env, f"{{ {s} with q := PQ.add H {self.plt()} {q} {pv} {ob} }}")
                return [ln] + k("()", "none", env2)
            if m in ("refresh", "sort", "clear"):
                op = {"refresh": f"PQ.refresh H {self.plt()}", "sort": f"PQ.sort {self.plt()}", "clear": "PQ.clear"}[m]
                ln, env2 = self.set_state(env, f"{{ {s} with q := {op} {q} }}")
                return [ln] + k("()", "none", env2)
            if m in ("pop", "popitem"):
                en, qn = self.fresh("e"), self.fresh("q")
                ln, env2 = self.set_state(env, f"{{ {s} with q := {qn} }}")
                val = (f"{en}.obj", "obj") if m == "pop" else (f"({en}.pri, {en}.obj)", ("tuple", "pv", "obj"))
                return ([f"match PQ.popEntry H {self.plt()} {q} with", "| none =>"] + ind(kk.exc(env, "indexError"))
                        + [f"| some ({en}, {qn}) =>"] + ind([ln] + k(val[0], val[1], env2)))
            if m in ("peek", "peekitem"):
                en = self.fresh("e")
                val = (f"{en}.obj", "obj") if m == "peek" else (f"({en}.pri, {en}.obj)", ("tuple", "pv", "obj"))
                return ([f"match PQ.peek {q} with", "| none =>"] + ind(kk.exc(env, "indexError"))
                        + [f"| some {en} =>"] + ind(k(val[0], val[1], env)))
            if m == "remove":
                ob = self.coerce(vals[0][0], vals[0][1], "obj", "remove(obj)")
                en, qn = self.fresh("e"), self.fresh("q")
                ln, env2 = self.set_state(env, f"{{ {s} with q := {qn} }}")
                return ([f"match PQ.remove H {self.plt()} {q} {ob} with", "| none =>"] + ind(kk.exc(env, "valueError"))
                        + [f"| some ({en}, {qn}) =>"] + ind([ln] + k(f"{en}.pri", "pv", env2)))
            if m == "find":
                key = self.coerce(vals[0][0], vals[0][1], "key", "find(key)")
                rm = self.coerce(vals[1][0], vals[1][1], "bool", "find(remove)")
                r = self.fresh("r")
                ln, env2 = self.set_state(env, f"{{ {s} with q := {r}.2 }}")
                return ([f"let {r} := PQ.find H {self.plt()} {q} {key} {rm}", ln]
                        + k(f"({r}.1.map (fun e => (e.pri, e.obj)))", ("opt", ("tuple", "pv", "obj")), env2))
            if m == "reschedule":
                key = self.coerce(vals[0][0], vals[0][1], "key", "reschedule(key)")
                pv = self.coerce(vals[1][0], vals[1][1], "pv", "reschedule(new_priority)")
                r = self.fresh("r")
                ln, env2 = self.set_state(env, f"{{ {s} with q := {r}.2 }}")
                return ([f"let {r} := PQ.reschedule H {self.plt()} {q} {key} {pv}", ln]
                        + k(f"{r}.1", ("opt", "obj"), env2))
            raise Unsupported(m)
        return self.eval_many(args, env, kk, go)

    def sibling_call(self, e, m, env, kk, k):
        if m not in self.c.infos:
            raise Unsupported(f"self.{m}(…): no such method")
        callee = self.c.infos[m]
        if callee.ret is None or m not in self.c.done:
            raise Unsupported(f"self.{m}(…) could not be translated (or is recursive)")
        params = [p[0] for p in callee.params]
        defaults = {p[0]: p[2] for p in callee.params}
        args = self.bind_args(e, params, defaults, f"self.{m}")
        self.check_order(e, args)

        def go(vals, env):
            env = env.copy()
            if callee.structural:
                if env.ref_loop:
                    raise Unsupported(f"self.{m}() restructures the heap array while its entries are iterated")
                env.sep += 1
            if callee.writes_pv:
                env.wep += 1
            texts = []
            for (x, t), (pn, pt, _) in zip(vals, callee.params):
                texts.append(self.atom(self.coerce(x, t, pt, f"argument {pn} of self.{m}")))
            if callee.rand_direct:
                if env.cur_ref is None:
                    raise Unsupported(f"self.{m}() draws a random number outside a loop over queue entries")
                if env.rand_used:
                    raise Unsupported("two random draws for one entry")
                env.rand_used = True
                texts.append(f"(draw (PosPQ.seqAt {env.s} {env.cur_ref}))")
            s1, e1, v1 = self.fresh("s"), self.fresh("ex"), self.fresh("v")
            env2 = env.copy()
            env2.s = s1
            call = " ".join([f"{callee.lean} H gp draw {env.s}"] + texts)
            return ([f"match {call} with", f"| ({s1}, .error {e1}) =>"] + ind(kk.exc(env2, ("dyn", e1)))
                    + [f"| ({s1}, .ok {v1}) =>"] + ind(k(v1, callee.ret, env2)))
        return self.eval_many(args, env, kk, go)

    @staticmethod
    def atom(text):
        t = text.strip()
        if t.startswith("(") or t.startswith("[") or all(ch.isalnum() or ch in "_." for ch in t):
            return t
        return f"({t})"

    # -- statements
    def block(self, stmts, env, kk):
        if not stmts:
            return kk.fall(env)
        first, rest = stmts[0], stmts[1:]
        k1 = kk.with_(fall=lambda env2: self.block(rest, env2, kk))
        return self.stmt(first, env, k1)

    def bind_local(self, name, text, ty, env, wep_from=None):
        """assign to a local: -> (lines, env')"""
        env = env.copy()
        if name in env.vars:
            decl = env.vars[name].decl
            if decl == "num" and ty != "num":
                decl = ty
            text = self.coerce(text, ty, decl, f"assignment to `{name}`")
            ty2 = decl
        else:
            if ty == "none":
                raise Unsupported(f"`{name} = None` without an Optional annotation")
            ty2 = "nat" if ty == "num" else ty
            decl = ty2
            text = self.coerce(text, ty, ty2)
        if isinstance(ty2, tuple) and ty2[0] == "list" and ty2[1] is None:
            known = self.list_elem.get(name)
            if known is None:
                self.c.unresolved = True
                known = "obj"      # placeholder of the first pass
            ty2 = decl = ("list", known)
        nm = self.fresh(name)
        env.vars[name] = Var(nm, ty2, decl, env.sep if has_ref(ty2) else None, env.wep if has_pv(ty2) else None)
        return [f"let {nm} : {lean_ty(ty2)} := {text}"], env

    def assign_target(self, tgt, text, ty, env):
        """-> (lines, env')"""
        if isinstance(tgt, ast.Name):
            return self.bind_local(tgt.id, text, ty, env)
        if isinstance(tgt, ast.Tuple):
            if not (isinstance(ty, tuple) and ty[0] == "tuple" and len(ty) - 1 == len(tgt.elts)):
                raise Unsupported(f"unpacking a {ty}")
            lines = []
            for i, (t, et) in enumerate(zip(tgt.elts, ty[1:])):
                if isinstance(t, ast.Name) and t.id == "_":
                    continue
                proj = f"{text}.{i + 1}" if i + 1 < len(tgt.elts) or len(tgt.elts) == 2 else f"{text}.{i + 1}"
                if len(tgt.elts) > 2:
                    raise Unsupported("unpacking more than two values")
                ls, env = self.assign_target(t, proj, et, env)
                lines += ls
            return lines, env
        if is_self_attr(tgt):
            if tgt.attr not in SELF_FIELDS:
                raise Unsupported(f"assignment to self.{tgt.attr}")
            f, fty = SELF_FIELDS[tgt.attr]
            ln, env = self.set_state(env, f"{{ {env.s} with {f} := {self.coerce(text, ty, fty, 'self.' + tgt.attr)} }}")
            return [ln], env
        if isinstance(tgt, ast.Attribute) and isinstance(tgt.value, ast.Name) and tgt.attr in PV_FIELDS:
            v = self.lookup(tgt.value.id, env)
            if v.ty != "pvref":
                raise Unsupported(f"in-place write to `{tgt.value.id}.{tgt.attr}`, which is not an entry of the queue")
            if v.sep != env.sep:
                raise Unsupported(f"`{tgt.value.id}` refers into the heap array, which was restructured since")
            f, fty = PV_FIELDS[tgt.attr]
            val = self.coerce(text, ty, fty, f".{tgt.attr}")
            ln, env = self.set_state(
                env, f"PosPQ.setPV {env.s} {v.lean} {{ PosPQ.pvAt {env.s} {v.lean} with {f} := {val} }}")
            env.wep += 1
            return [ln], env
        raise Unsupported(f"assignment target {ast.dump(tgt)[:60]}")

    def stmt(self, st, env, kk):
        env = env.copy()
        if isinstance(st, ast.Pass):
            return kk.fall(env)
        if isinstance(st, ast.Expr):
            v = st.value
            if isinstance(v, ast.Constant):
                return kk.fall(env)
            if isinstance(v, ast.YieldFrom):
                return self.stmt(ast.Expr(ast.Call(ast.Attribute(ast.Name("__yield__"), "extend"), [v.value], [])), env, kk)
            if isinstance(v, ast.Yield) and v.value is not None:
                return self.stmt(ast.Expr(ast.Call(ast.Attribute(ast.Name("__yield__"), "append"), [v.value], [])), env, kk)
            if isinstance(v, ast.Call) and isinstance(v.func, ast.Attribute) and isinstance(v.func.value, ast.Name) \
                    and v.func.value.id != "self" and v.func.attr in ("append", "extend") and len(v.args) == 1 \
                    and not v.keywords:
                name = v.func.value.id
                var = self.lookup(name, env)
                if not (isinstance(var.ty, tuple) and var.ty[0] == "list"):
                    raise Unsupported(f"{name}.{v.func.attr}: not a list")

                def k(x, t, env2):
                    elem = var.ty[1]
                    if v.func.attr == "append":
                        if name in self.list_elem or name == "__yield__":
                            x = self.coerce(x, t, elem, f"{name}.append")
                        else:
                            self.list_elem[name] = "nat" if t == "num" else t
                        new = f"{var.lean} ++ [{x}]"
                    else:
                        if not (isinstance(t, tuple) and t[0] == "list"):
                            raise Unsupported("extend with a non-list")
                        if name not in self.list_elem and name != "__yield__":
                            self.list_elem[name] = t[1]
                        new = f"{var.lean} ++ {x}"
                    ls, env3 = self.bind_local(name, new, env2.vars[name].ty, env2)
                    return ls + kk.fall(env3)
                if v.func.attr == "extend" and is_self_attr(v.args[0], "_pq"):
                    x, t = self.iterable(v.args[0], env)
                    return k(x, t, env)
                return self.eval(v.args[0], env, kk, k)
            if isinstance(v, ast.Call) and (is_pq_call(v) or is_sibling_call(v)):
                return self.eval(v, env, kk, lambda x, t, env2: kk.fall(env2))
            raise Unsupported(f"expression statement {ast.dump(v)[:80]}")
        if isinstance(st, ast.Assign):
            def k(x, t, env2):
                lines = []
                for tgt in st.targets:
                    ls, env2 = self.assign_target(tgt, x, t, env2)
                    lines += ls
                return lines + kk.fall(env2)
            if len(st.targets) > 1 and self.effectful(st.value):
                raise Unsupported("chained assignment of a call with side effects")
            if isinstance(st.value, ast.Call) and self.effectful(st.value) and isinstance(st.targets[0], ast.Tuple):
                # bind the tuple first
                def k2(x, t, env2):
                    nm = self.fresh("t")
                    return [f"let {nm} := {x}"] + k(nm, t, env2)
                return self.eval(st.value, env, kk, k2)
            return self.eval(st.value, env, kk, k)
        if isinstance(st, ast.AnnAssign):
            if not isinstance(st.target, ast.Name) or st.value is None:
                raise Unsupported("annotated assignment form")
            decl = ann_type(st.annotation)
            name = st.target.id

            def k(x, t, env2):
                env2 = env2.copy()
                env2.vars.pop(name, None)
                text = self.coerce(x, t, decl, f"`{name}`")
                nm = self.fresh(name)
                env2.vars[name] = Var(nm, decl, decl, env2.sep if has_ref(decl) else None,
                                       env2.wep if has_pv(decl) else None)
                return [f"let {nm} : {lean_ty(decl)} := {text}"] + kk.fall(env2)
            return self.eval(st.value, env, kk, k)
        if isinstance(st, ast.AugAssign):
            if not isinstance(st.op, (ast.Add, ast.Sub, ast.Mult)):
                raise Unsupported("augmented assignment operator")
            load = ast.copy_location(
                ast.Attribute(st.target.value, st.target.attr, ast.Load()) if isinstance(st.target, ast.Attribute)
                else ast.Name(st.target.id, ast.Load()), st.target)
            return self.stmt(ast.Assign([st.target], ast.BinOp(load, st.op, st.value)), env, kk)
        if isinstance(st, ast.Return):
            if st.value is None:
                return kk.ret(env, "()", "none")
            return self.eval(st.value, env, kk, lambda x, t, env2: kk.ret(env2, x, t))
        if isinstance(st, ast.Continue):
            if kk.cont is None:
                raise Unsupported("continue outside a loop")
            return kk.cont(env)
        if isinstance(st, ast.Break):
            if kk.brk is None:
                raise Unsupported("break outside a loop")
            return kk.brk(env)
        if isinstance(st, ast.Raise):
            exc = st.exc.func if isinstance(st.exc, ast.Call) else st.exc
            if isinstance(exc, ast.Name) and exc.id in EXC:
                return kk.exc(env, EXC[exc.id])
            raise Unsupported("raise of an unknown exception")
        if isinstance(st, ast.With):
            if not all(is_self_attr(i.context_expr, "_lock") and i.optional_vars is None for i in st.items):
                raise Unsupported("with-statement other than `with self._lock`")
            return self.block(st.body + [], env, kk.with_(fall=kk.fall))
        if isinstance(st, ast.Assert):
            if self.is_nat_assert(st):
                return kk.fall(env)
            return self.stmt(ast.If(st.test, [ast.Pass()], [ast.Raise(ast.Name("AssertionError"), None)]), env, kk)
        if isinstance(st, ast.If):
            return self.stmt_if(st, env, kk)
        if isinstance(st, ast.Try):
            return self.stmt_try(st, env, kk)
        if isinstance(st, ast.For):
            return self.stmt_for(st, env, kk)
        if isinstance(st, ast.While):
            return self.stmt_while(st, env, kk)
        raise Unsupported(f"statement {type(st).__name__}")

    def is_nat_assert(self, st):
        t = st.test
        return isinstance(t, ast.Compare) and len(t.ops) == 1 and isinstance(t.ops[0], ast.GtE) \
            and isinstance(t.left, ast.Name) and t.left.id in self.m.nat_asserts \
            and isinstance(t.comparators[0], ast.Constant) and t.comparators[0].value == 0

    def simple_block(self, stmts):
        """only assignments of side-effect-free values to local names (and nested ifs of the same kind)"""
        for st in stmts:
            if isinstance(st, ast.Pass):
                continue
            if isinstance(st, ast.Assign):
                tg, val = st.targets, st.value
            elif isinstance(st, (ast.AugAssign, ast.AnnAssign)):
                tg, val = [st.target], st.value
            elif isinstance(st, ast.If):
                if self.effectful(st.test) or not self.simple_block(st.body) or not self.simple_block(st.orelse):
                    return False
                continue
            else:
                return False
            if val is None or self.effectful(val) or not all(isinstance(x, ast.Name) for x in tg):
                return False
            if isinstance(st, ast.AnnAssign):
                return False
        return True

    def hoist_test(self, st, env, kk):
        """`if self.m(…):` / `if not self._pq.pop():` …: the one call with side effects in the test is
        evaluated first (the test must not be able to skip it: no and/or/conditional around it)"""
        calls = [n for n in ast.walk(st.test) if isinstance(n, ast.Call) and (is_pq_call(n) or is_sibling_call(n))]
        outer = [c for c in calls if not any(c is not d and any(c is x for x in ast.walk(d)) for d in calls)]
        if len(outer) != 1:
            raise Unsupported("if-test with several calls that have side effects")
        call = outer[0]
        tst = st.test
        if isinstance(tst, ast.UnaryOp) and isinstance(tst.op, ast.Not) and isinstance(tst.operand, (ast.BoolOp, ast.UnaryOp)):
            return self.stmt_if(ast.If(tst.operand, st.orelse or [ast.Pass()], st.body), env, kk)
        if isinstance(tst, ast.BoolOp):
            # Python's short-circuit evaluation, spelt out: `if A and B: X else: Y` = `if A: (if B: X else: Y) else: Y`
            first, rest = tst.values[0], tst.values[1:]
            rest_t = rest[0] if len(rest) == 1 else ast.BoolOp(tst.op, rest)
            inner = ast.If(rest_t, st.body, st.orelse)
            if isinstance(tst.op, ast.And):
                return self.stmt_if(ast.If(first, [inner], st.orelse), env, kk)
            return self.stmt_if(ast.If(first, st.body, [inner]), env, kk)
        for n in ast.walk(st.test):
            if isinstance(n, (ast.BoolOp, ast.IfExp)) and any(x is call for x in ast.walk(n)):
                raise Unsupported("a call with side effects under and/or in an if-test")

        def k(x, ty, env2):
            nm = "test__"
            lines, env3 = self.bind_local(nm, x, ty, env2) if nm not in env2.vars else ([], env2)
            if not lines:
                raise Unsupported("nested hoisted tests")

            new_if = copy.copy(st)
            new_if.test = _replace_node(st.test, call, ast.Name(nm, ast.Load()))

            def drop(f):
                def g(env4, *a):
                    env4 = env4.copy()
                    env4.vars.pop(nm, None)
                    return f(env4, *a)
                return g
            kk2 = K(drop(kk.fall), drop(kk.ret), drop(kk.exc), drop(kk.cont) if kk.cont else None,
                    drop(kk.brk) if kk.brk else None)
            return lines + self.stmt_if(new_if, env3, kk2)
        return self.eval(call, env, kk, k)

    def stmt_if(self, st, env, kk):
        if self.effectful(st.test):
            return self.hoist_test(st, env, kk)
        names = list(dict.fromkeys(self.assigned_names(st.body + st.orelse)))
        if names and self.simple_block(st.body) and self.simple_block(st.orelse) \
                and all(n in env.vars and n != "__yield__" for n in names):
            # both branches only re-assign locals: one `let` per if (a join point), no duplicated continuation
            def leaf(stmts):
                def fall(env2):
                    vals = [self.coerce(env2.vars[n].lean, env2.vars[n].ty, env2.vars[n].decl) for n in names]
                    return [vals[0] if len(vals) == 1 else "(" + ", ".join(vals) + ")"]

                def no(*_a):
                    raise Unsupported("exit from a branch that only assigns locals")
                return lambda env2: ("leaf", self.block(stmts, env2, K(fall, no, no, no, no)))
            node = self.decide_tree(st.test, env, leaf(st.body), leaf(st.orelse))
            decls = [env.vars[n].decl for n in names]
            for d in decls:
                if d == "num":
                    raise Unsupported("re-assignment of an untyped number in a branch")
            env2 = env.copy()
            if len(names) == 1:
                nm = self.fresh(names[0])
                lines = [f"let {nm} : {lean_ty(decls[0])} :="] + ind(self.render_lines(node))
                news = [nm]
            else:
                tn = self.fresh("t")
                lines = [f"let {tn} : ({' × '.join(lean_ty(d) for d in decls)}) :="] + ind(self.render_lines(node))
                news = []
                for i, (n, d) in enumerate(zip(names, decls)):
                    nm = self.fresh(n)
                    proj = ".2" * i + (".1" if i < len(names) - 1 else "")
                    lines.append(f"let {nm} : {lean_ty(d)} := {tn}{proj}")
                    news.append(nm)
            for n, nm, d in zip(names, news, decls):
                env2.vars[n] = Var(nm, d, d, env.sep if has_ref(d) else None, env.wep if has_pv(d) else None)
            return lines + kk.fall(env2)
        node = self.decide_tree(st.test, env,
                                lambda e2: ("leaf", self.block(st.body, e2, kk)),
                                lambda e2: ("leaf", self.block(st.orelse, e2, kk)))
        return self.render_lines(node)

    def stmt_try(self, st, env, kk):
        if st.orelse or st.finalbody or len(st.handlers) != 1:
            raise Unsupported("try with else/finally or several handlers")
        h = st.handlers[0]
        if h.name is not None:
            raise Unsupported("`except … as e`")
        names = [h.type] if isinstance(h.type, ast.Name) else (h.type.elts if isinstance(h.type, ast.Tuple) else None)
        if not names or not all(isinstance(n, ast.Name) and n.id in EXC for n in names):
            raise Unsupported("except clause must name IndexError / ValueError / AssertionError")
        caught = [EXC[n.id] for n in names]

        def exc(env2, kind):
            if isinstance(kind, tuple):       # dynamic
                test = " ∨ ".join(f"{kind[1]} = PyExc.{c}" for c in caught)
                return ([f"if {test} then"] + ind(self.block(h.body, env2, kk))
                        + ["else"] + ind(kk.exc(env2, kind)))
            if kind in caught:
                return self.block(h.body, env2, kk)
            return kk.exc(env2, kind)
        return self.block(st.body, env, kk.with_(exc=exc))

    # -- loops
    @staticmethod
    def assigned_names(stmts):
        out = []
        for st in stmts:
            for n in ast.walk(st):
                tg = []
                if isinstance(n, ast.Assign):
                    tg = n.targets
                elif isinstance(n, (ast.AugAssign, ast.AnnAssign)):
                    tg = [n.target]
                elif isinstance(n, ast.For):
                    tg = [n.target]
                elif isinstance(n, ast.Call) and isinstance(n.func, ast.Attribute) and n.func.attr in ("append", "extend") \
                        and isinstance(n.func.value, ast.Name):
                    out.append(n.func.value.id)
                elif isinstance(n, (ast.Yield, ast.YieldFrom)):
                    out.append("__yield__")
                for t in tg:
                    for x in ast.walk(t):
                        if isinstance(x, ast.Name) and not (isinstance(t, ast.Attribute)):
                            out.append(x.id)
        return out

    @staticmethod
    def used_names(nodes):
        out = set()
        for st in nodes:
            for n in ast.walk(st):
                if isinstance(n, ast.Name):
                    out.add(n.id)
                if isinstance(n, (ast.Yield, ast.YieldFrom)):
                    out.add("__yield__")
        return out

    def body_flags(self, stmts):
        structural = writes = False
        for st in stmts:
            for n in ast.walk(st):
                m = is_pq_call(n)
                if m and PQ_API.get(m, (0, 0, True))[2]:
                    structural = True
                m = is_sibling_call(n)
                if m and m in self.c.infos:
                    structural |= self.c.infos[m].structural
                    writes |= self.c.infos[m].writes_pv
                if isinstance(n, (ast.Assign, ast.AugAssign)):
                    for t in (n.targets if isinstance(n, ast.Assign) else [n.target]):
                        if isinstance(t, ast.Attribute) and not is_self_attr(t):
                            writes = True
        return structural, writes

    def loop_common(self, st, env, kk, kind, iter_text, elem_ty, fuel_cond=None):
        """emit the auxiliary definition (once per loop and typing) and the call"""
        if st.orelse:
            raise Unsupported("loop with an else clause")
        body = st.body
        targets = set()
        if kind != "while":
            for x in ast.walk(st.target):
                if isinstance(x, ast.Name):
                    targets.add(x.id)
        assigned = [n for n in dict.fromkeys(self.assigned_names(body)) if n in env.vars and n not in targets]
        used = self.used_names(body + ([st.test] if kind == "while" else []))
        carried = assigned
        ro = [n for n in env.vars if n in used and n not in carried and n not in targets]
        structural, writes = self.body_flags(body)
        ref_loop = kind == "items" or (kind == "list" and has_ref(elem_ty))
        if ref_loop and structural:
            raise Unsupported("the heap array is restructured inside a loop over its entries")
        env = env.copy()
        if structural:
            env.sep += 1
        if writes:
            env.wep += 1
        for n in ro + carried:
            v = env.vars[n]
            if has_ref(v.ty) and v.sep != env.sep:
                raise Unsupported(f"`{n}` refers into the heap array, which the loop restructures")
        ret_ty = self.m.ret
        key = (id(st), kind, tuple((n, repr(env.vars[n].decl)) for n in carried),
               tuple((n, repr(env.vars[n].ty)) for n in ro), repr(ret_ty), env.cur_ref is not None)
        ctys = [env.vars[n].decl for n in carried]
        out_ty = f"LoopOut {paren_ty(ret_ty)}"
        res_ty = "(" + " × ".join([lean_ty(t) for t in ctys] + ["PosPQ", out_ty]) + ")"
        if key not in self.loop_cache:
            name = f"{self.m.lean}_loop{len(self.loop_cache) + 1}"
            self.loop_cache[key] = name
            # the environment inside the definition: canonical names
            lenv = Env()
            lenv.sep, lenv.wep = env.sep, env.wep
            lenv.ref_loop = ref_loop or env.ref_loop
            lenv.cur_ref = env.cur_ref
            for n in ro:
                v = env.vars[n]
                lenv.vars[n] = Var(self.pyname(n), v.ty, v.decl, v.sep, v.wep)
            for n in carried:
                v = env.vars[n]
                lenv.vars[n] = Var(self.pyname(n), v.decl, v.decl, v.sep, v.wep)
            ro_binders = "".join(f" ({self.pyname(n)} : {lean_ty(env.vars[n].ty)})" for n in ro)
            if env.cur_ref is not None:
                ro_binders += " (cur_ : Nat)"
                lenv.cur_ref = "cur_"

            def tup(env2, out):
                return "(" + ", ".join([env2.vars[n].lean for n in carried] + [env2.s, out]) + ")"

            def recurse(first):
                def f(env2):
                    args = [first] if isinstance(first, str) else first
                    return [" ".join([name, "H gp draw"] + [self.pyname(n) for n in ro]
                                     + (["cur_"] if env.cur_ref is not None else [])
                                     + args + [self.atom(env2.vars[n].lean) for n in carried] + [env2.s])]
                return f
            pats = ", ".join([self.pyname(n) for n in carried] + ["s"])
            if kind == "while":
                nxt = recurse("fuel_")
                sig = "Nat → "
            elif kind == "items":
                nxt = recurse(["rest_", "(i_ + 1)"])
                sig = "List (Entry PV) → Nat → "
            else:
                nxt = recurse("rest_")
                sig = f"List {paren_ty(elem_ty)} → "
            sig += "".join(f"{paren_ty(t)} → " for t in ctys) + "PosPQ → " + res_ty

            def ret(env2, x, t):
                return [tup(env2, f".returned {self.atom(self.coerce_ret(x, t))}")]

            def exc(env2, kind_):
                e = kind_[1] if isinstance(kind_, tuple) else f"PyExc.{kind_}"
                return [tup(env2, f".raised {e}")]
            lk = K(fall=nxt, ret=ret, exc=exc, cont=nxt, brk=lambda env2: [tup(env2, ".done")])
            lines = [f"def {name} (H : HeapLib (Entry PV)) (gp : Nat → Rat) (draw : Nat → Rat){ro_binders} :",
                     f"    {sig}"]
            if kind == "while":
                c = self.cond(st.test, lenv)
                lines += [f"  | 0, {pats} =>",
                          f"    if {c} then {tup(lenv, '.raised PyExc.outOfFuel')} else {tup(lenv, '.done')}",
                          f"  | fuel_ + 1, {pats} =>", f"    if {c} then"]
                lines += ind(self.block(body, lenv, lk), 6)
                lines += ["    else", "      " + tup(lenv, ".done")]
            else:
                benv = lenv.copy()
                blines = []
                if kind == "items":
                    lines += [f"  | [], _, {pats} => {tup(lenv, '.done')}", f"  | _ :: rest_, i_, {pats} =>"]
                    tgt = st.target
                    if not (isinstance(tgt, ast.Tuple) and len(tgt.elts) == 2 and all(isinstance(x, ast.Name) for x in tgt.elts)):
                        raise Unsupported("loop over items() must unpack `pri, obj`")
                    pn, on = tgt.elts[0].id, tgt.elts[1].id
                    if pn != "_":
                        benv.vars[pn] = Var("i_", "pvref", "pvref", benv.sep, None)
                    if on != "_":
                        nm = self.fresh(on)
                        blines.append(f"let {nm} : Nat := PosPQ.objAt s i_")
                        benv.vars[on] = Var(nm, "obj")
                    benv.cur_ref = "i_"
                    benv.rand_used = False
                else:
                    lines += [f"  | [], {pats} => {tup(lenv, '.done')}", f"  | x_ :: rest_, {pats} =>"]
                    ls, benv = self.assign_loop_target(st.target, "x_", elem_ty, benv)
                    blines += ls
                    if has_ref(elem_ty):
                        ref = self.first_ref(st.target, elem_ty, benv)
                        benv.cur_ref = ref
                        benv.rand_used = False
                lines += ind(blines + self.block(body, benv, lk), 4)
            self.aux.append("\n".join(lines))
        name = self.loop_cache[key]
        # the call
        news = [self.fresh(n) for n in carried]
        s1, e1, r1 = self.fresh("s"), self.fresh("ex"), self.fresh("r")
        env2 = env.copy()
        for n, nm in zip(carried, news):
            v = env.vars[n]
            env2.vars[n] = Var(nm, v.decl, v.decl, env.sep if has_ref(v.decl) else None,
                               env.wep if has_pv(v.decl) else None)
        env2.s = s1
        for t in targets:
            env2.vars.pop(t, None)
        if structural:
            env2.sep += 1
        if writes:
            env2.wep += 1
        call = " ".join([name, "H gp draw"] + [self.atom(env.vars[n].lean) for n in ro]
                        + ([self.atom(env.cur_ref)] if env.cur_ref is not None else [])
                        + iter_text + [self.atom(env.vars[n].lean) for n in carried] + [env.s])
        pat = ", ".join(news + [s1])
        return ([f"match {call} with", f"| ({pat}, .done) =>"] + ind(kk.fall(env2))
                + [f"| ({pat}, .raised {e1}) =>"] + ind(kk.exc(env2, ("dyn", e1)))
                + [f"| ({pat}, .returned {r1}) =>"] + ind(kk.ret(env2, r1, "__ret__")))

    @staticmethod
    def pyname(n):
        return binder(n)

    def assign_loop_target(self, tgt, text, ty, env):
        if isinstance(tgt, ast.Name):
            env = env.copy()
            if tgt.id == "_":
                return [], env
            nm = self.fresh(tgt.id)
            env.vars[tgt.id] = Var(nm, ty, ty, env.sep if has_ref(ty) else None, env.wep if has_pv(ty) else None)
            return [f"let {nm} : {lean_ty(ty)} := {text}"], env
        if isinstance(tgt, ast.Tuple) and isinstance(ty, tuple) and ty[0] == "tuple" and len(tgt.elts) == len(ty) - 1 == 2:
            lines = []
            for i, (t, et) in enumerate(zip(tgt.elts, ty[1:])):
                ls, env = self.assign_loop_target(t, f"{text}.{i + 1}", et, env)
                lines += ls
            return lines, env
        raise Unsupported("loop target")

    def first_ref(self, tgt, ty, env):
        if isinstance(tgt, ast.Name) and ty == "pvref":
            return env.vars[tgt.id].lean
        if isinstance(tgt, ast.Name) and isinstance(ty, tuple) and ty[0] == "tuple" and "pvref" in ty[1:] \
                and tgt.id != "_":
            k, n = ty[1:].index("pvref"), len(ty) - 1
            return env.vars[tgt.id].lean + ".2" * k + (".1" if k < n - 1 else "")
        if isinstance(tgt, ast.Tuple):
            for t, et in zip(tgt.elts, ty[1:]):
                if et == "pvref" and isinstance(t, ast.Name) and t.id != "_":
                    return env.vars[t.id].lean
        return None

    def stmt_for(self, st, env, kk):
        it = st.iter
        if isinstance(it, ast.Call) and is_pq_call(it) == "items" and not it.args:
            return self.loop_common(st, env, kk, "items", [f"{env.s}.q.pq", "0"], None)
        x, t = self.iterable(it, env)
        if not (isinstance(t, tuple) and t[0] == "list"):
            raise Unsupported(f"for-loop over a {t}")
        if has_ref(t):
            v = self.lookup(it.id, env) if isinstance(it, ast.Name) else None
            if v is None or v.sep != env.sep:
                raise Unsupported("loop over references into a heap array that was restructured since")
        return self.loop_common(st, env, kk, "list", [self.atom(x)], t[1])

    def stmt_while(self, st, env, kk):
        t, neg = st.test, False
        while isinstance(t, ast.UnaryOp) and isinstance(t.op, ast.Not):
            t, neg = t.operand, not neg
        if not (isinstance(t, ast.Compare) and len(t.ops) == 1 and isinstance(t.ops[0], (ast.Gt, ast.Lt, ast.GtE, ast.LtE))):
            raise Unsupported("while-loop whose test is not a comparison a < b (no fuel measure)")
        if self.effectful(t):
            raise Unsupported("while test with side effects")
        op = type(t.ops[0])
        if neg:
            op = {ast.Gt: ast.LtE, ast.LtE: ast.Gt, ast.Lt: ast.GtE, ast.GtE: ast.Lt}[op]
        a, ta = self.pure(t.left, env)
        b, tb = self.pure(t.comparators[0], env)
        if op in (ast.Lt, ast.LtE):
            a, ta, b, tb = b, tb, a, ta
        for ty in (ta, tb):
            if ty not in ("nat", "int", "num"):
                raise Unsupported("while-loop over non-integers")
        extra = " + 1" if op in (ast.GtE, ast.LtE) else ""
        fuel = f"(({a} : Int) - ({b} : Int){extra}).toNat"
        return self.loop_common(st, env, kk, "while", [fuel], None)

    # -- the method
    def coerce_ret(self, x, t):
        if t == "__ret__":
            return x
        if self.m.generator:
            raise Unsupported("return with a value in a generator")
        if self.m.ret == "int":
            if t in ("nat", "num"):
                self.m.ret = "nat"
        return self.coerce(x, t, self.m.ret, "return value")

    def translate(self):
        m = self.m
        env = Env()
        binders = ""
        for pn, pt, _ in m.params:
            env.vars[pn] = Var(binder(pn), pt, pt, 0 if has_ref(pt) else None, 0 if has_pv(pt) else None)
            binders += f" ({binder(pn)} : {lean_ty(pt)})"
        if m.rand_direct:
            binders += " (rand : Rat)"
        if m.generator:
            env.vars["__yield__"] = Var("yielded_0", m.ret, m.ret)

        def fall(env2):
            if m.generator:
                return [f"({env2.s}, .ok {env2.vars['__yield__'].lean})"]
            if m.ret == "none":
                return [f"({env2.s}, .ok ())"]
            if isinstance(m.ret, tuple) and m.ret[0] == "opt":
                return [f"({env2.s}, .ok none)"]
            raise Unsupported("control can fall off the end of a function that returns a value")

        def ret(env2, x, t):
            if m.generator and t == "none":
                return fall(env2)
            return [f"({env2.s}, .ok {self.atom(self.coerce_ret(x, t))})"]

        def exc(env2, kind):
            e = kind[1] if isinstance(kind, tuple) else f"PyExc.{kind}"
            return [f"({env2.s}, .error {e})"]
        body = self.block(body_no_doc(m.fn), env, K(fall, ret, exc))
        if m.generator:
            body = [f"let yielded_0 : {lean_ty(m.ret)} := []"] + body
        head = [f"/-- `{CLASS}.{m.name}` -/",
                f"def {m.lean} (H : HeapLib (Entry PV)) (gp : Nat → Rat) (draw : Nat → Rat) (s : PosPQ){binders} :",
                f"    PosPQ × Except PyExc {paren_ty(m.ret)} :="]
        return "\n\n".join(self.aux + ["\n".join(head + ind(body))])


# ---- the class -------------------------------------------------------------------------------

class ClassTr:
    def __init__(self, tree, source):
        self.source = source
        self.cls = next((n for n in ast.walk(tree) if isinstance(n, ast.ClassDef) and n.name == CLASS), None)
        pv = next((n for n in ast.walk(tree) if isinstance(n, ast.ClassDef) and n.name == PV_CLASS), None)
        if self.cls is None or pv is None:
            raise Unsupported(f"{CLASS} / {PV_CLASS} not found")
        self.pv_cls = pv
        self.pv_methods = {}
        # the dataclass fields and their defaults
        self.pv_params, self.pv_defaults = [], {}
        for n in pv.body:
            if isinstance(n, ast.AnnAssign) and isinstance(n.target, ast.Name):
                if n.target.id not in PV_FIELDS:
                    raise Unsupported(f"new field {PV_CLASS}.{n.target.id}")
                self.pv_params.append(n.target.id)
                self.pv_defaults[n.target.id] = n.value
        if set(self.pv_params) != set(PV_FIELDS):
            raise Unsupported(f"fields of {PV_CLASS} changed: {self.pv_params}")
        self.infos = {}
        for n in self.cls.body:
            if isinstance(n, ast.FunctionDef) and n.name != "__init__":
                self.infos[n.name] = MethodInfo(n, source)
        self.done = set()
        self.list_elem = {}
        self.unresolved = False
        self.analyse()

    def analyse(self):
        for m in self.infos.values():
            fn = m.fn
            if fn.args.vararg or fn.args.kwarg or fn.args.kwonlyargs or fn.decorator_list:
                m.bad = "signature with */** arguments or decorators"
                continue
            m.bad = None
            try:
                fn = m.fn = normalize_function(fn)
            except Unsupported as e:
                m.bad = str(e)
                continue
            body = body_no_doc(fn)
            try:
                args = fn.args.args[1:]
                defaults = [None] * (len(args) - len(fn.args.defaults)) + list(fn.args.defaults)
                for a, d in zip(args, defaults):
                    t = ann_type(a.annotation)
                    if t == "int":
                        # `assert p >= 0` as the first statement types p as a natural number
                        b0 = body[0] if body else None
                        if isinstance(b0, ast.Assert) and isinstance(b0.test, ast.Compare) and len(b0.test.ops) == 1 \
                                and isinstance(b0.test.ops[0], ast.GtE) and isinstance(b0.test.left, ast.Name) \
                                and b0.test.left.id == a.arg and isinstance(b0.test.comparators[0], ast.Constant) \
                                and b0.test.comparators[0].value == 0:
                            t = "nat"
                            m.nat_asserts.add(a.arg)
                    m.params.append((a.arg, t, d))
                r = ann_type(fn.returns) if fn.returns is not None else None
                if r is None:
                    raise Unsupported("no return annotation")
                m.ret = r
            except Unsupported as e:
                m.bad = str(e)
                continue
            for n in ast.walk(fn):
                c = is_sibling_call(n)
                if c:
                    m.calls.add(c)
                p = is_pq_call(n)
                if p and PQ_API.get(p, (0, 0, True))[2]:
                    m.structural = True
                if isinstance(n, (ast.Assign, ast.AugAssign)):
                    for t in (n.targets if isinstance(n, ast.Assign) else [n.target]):
                        if isinstance(t, ast.Attribute) and not is_self_attr(t):
                            m.writes_pv = True
            # random.random() directly in the body, outside loops
            rc = [n for n in ast.walk(fn) if is_random_call(n)]
            in_loop = [n for lp in ast.walk(fn) if isinstance(lp, (ast.For, ast.While)) for n in ast.walk(lp)
                       if is_random_call(n)]
            if rc:
                if in_loop or len(rc) > 1:
                    m.bad = "random.random() in a loop, or several draws in one method"
                m.rand_direct = True
        changed = True
        while changed:
            changed = False
            for m in self.infos.values():
                for c in m.calls:
                    cal = self.infos.get(c)
                    if cal is None:
                        continue
                    if cal.structural and not m.structural:
                        m.structural = changed = True
                    if cal.writes_pv and not m.writes_pv:
                        m.writes_pv = changed = True

    def order(self):
        """callees first; a cycle is reported on every member"""
        out, state = [], {}

        def visit(n, stack):
            if state.get(n) == 2:
                return
            if state.get(n) == 1:
                for x in stack[stack.index(n):]:
                    self.infos[x].bad = "recursive sibling calls"
                return
            state[n] = 1
            for c in sorted(self.infos[n].calls):
                if c in self.infos:
                    visit(c, stack + [n])
            state[n] = 2
            out.append(n)
        for n in self.infos:
            visit(n, [])
        return out

    def init_def(self):
        fn = next((n for n in self.cls.body if isinstance(n, ast.FunctionDef) and n.name == "__init__"), None)
        if fn is None:
            raise Unsupported("no __init__")
        info = MethodInfo(fn, self.source)
        tr = MethodTr(self, info)
        got = {}
        for st in body_no_doc(fn):
            if isinstance(st, (ast.Assign, ast.AnnAssign)):
                tg = st.targets if isinstance(st, ast.Assign) else [st.target]
                if len(tg) == 1 and is_self_attr(tg[0]):
                    a = tg[0].attr
                    if a in SELF_FIELDS:
                        x, t = tr.pure(st.value, Env())
                        got[SELF_FIELDS[a][0]] = tr.coerce(x, t, SELF_FIELDS[a][1], "self." + a)
                        continue
                    if a == "_pq" and isinstance(st.value, ast.Call) and isinstance(st.value.func, ast.Name) \
                            and st.value.func.id == "PriorityQueue" and not st.value.args:
                        got["q"] = "PQ.empty"
                        continue
                    if a in ("_get_priority", "_lock"):
                        continue
            raise Unsupported(f"__init__: {ast.dump(st)[:80]}")
        want = ["q"] + [f for f, _ in SELF_FIELDS.values()]
        if set(got) != set(want):
            raise Unsupported(f"__init__ sets {sorted(got)}, expected {sorted(want)}")
        return ("/-- `PosPriorityQueue.__init__` -/\ndef init : PosPQ :=\n  { "
                + ", ".join(f"{f} := {got[f]}" for f in want) + " }")

    def pv_method_defs(self, failed):
        """the methods of the dataclass, as pure functions of a `PV` value: locals, `if`, `return`"""
        out = []
        self.pv_methods = {}
        for fn in [n for n in self.pv_cls.body if isinstance(n, ast.FunctionDef)]:
            name = "pv_" + lean_name(fn.name)
            try:
                info = MethodInfo(fn, self.source)
                info.pv_mode = True
                if fn.args.vararg or fn.args.kwarg or fn.args.kwonlyargs or fn.decorator_list or fn.args.defaults:
                    raise Unsupported("signature")
                ptys = [ann_type(a.annotation) for a in fn.args.args[1:]]
                info.ret = ann_type(fn.returns)
                tr = MethodTr(self, info)
                env = Env()
                env.vars[fn.args.args[0].arg] = Var("self", "pv")
                binders = ""
                for a, pt in zip(fn.args.args[1:], ptys):
                    env.vars[a.arg] = Var(binder(a.arg), pt)
                    binders += f" ({binder(a.arg)} : {lean_ty(pt)})"

                def fall(env2):
                    raise Unsupported("control can fall off the end")

                def ret(env2, x, t):
                    return [tr.coerce(x, t, info.ret, "return value")]

                def exc(env2, kind):
                    raise Unsupported("exception in a PriorityValue method")
                for n in ast.walk(fn):
                    if isinstance(n, (ast.For, ast.While, ast.Try, ast.With, ast.Attribute)) and not isinstance(n, ast.Attribute):
                        raise Unsupported(f"{type(n).__name__} in a PriorityValue method")
                    if isinstance(n, (ast.Assign, ast.AugAssign)):
                        for tg in (n.targets if isinstance(n, ast.Assign) else [n.target]):
                            if not isinstance(tg, ast.Name):
                                raise Unsupported("a PriorityValue method that writes attributes")
                body = tr.block(body_no_doc(fn), env, K(fall, ret, exc))
                out.append("\n".join([f"/-- `{PV_CLASS}.{fn.name}` -/",
                                      f"def {name} (self : PV){binders} : {lean_ty(info.ret)} :="] + ind(body)))
                self.pv_methods[fn.name] = (name, ptys, info.ret)
            except Unsupported as e:
                failed[f"{PV_CLASS}.{fn.name}"] = str(e)
        return out

    def translate(self):
        parts, failed = [], {}
        parts += self.pv_method_defs(failed)
        try:
            parts.append(self.init_def())
        except Unsupported as e:
            failed["__init__"] = str(e)
        for name in self.order():
            m = self.infos[name]
            if m.bad:
                failed[name] = m.bad
                continue
            dep = next((c for c in sorted(m.calls) if c in failed), None)
            if dep:
                failed[name] = f"calls self.{dep}(), which is not translated"
                continue
            try:
                text = None
                for attempt in range(4):    # later passes know the element types of `x = []`
                    self.unresolved = False
                    ret0 = m.ret
                    try:
                        text = MethodTr(self, m).translate()
                    except Unsupported:
                        if self.unresolved and attempt < 3:
                            continue
                        raise
                    if not self.unresolved and ret0 == m.ret:
                        break
                else:
                    raise Unsupported("types do not settle")
                if len(text) > MAX_CHARS:
                    raise Unsupported("continuation blow-up (too many control paths)")
                parts.append(text)
                self.done.add(name)
            except Unsupported as e:
                failed[name] = str(e)
            except (KeyError, IndexError, AttributeError, TypeError) as e:
                failed[name] = f"internal: {type(e).__name__}: {e}"
        return parts, failed


def generate(src: Path) -> dict:
    path = src / "asynkit/experimental/priority.py"
    source = path.read_text()
    try:
        ct = ClassTr(ast.parse(source), source)
        parts, failed = ct.translate()
    except (Unsupported, SyntaxError) as e:
        parts, failed = [], {"<class>": f"{type(e).__name__}: {e}"}
    head = ["-- GENERATED by translator/pospq2lean.py from src/asynkit/experimental/priority.py — do not edit",
            "import Asynkit.Model.PosPQRt",
            "set_option linter.unusedVariables false", "namespace Asynkit.Gen.PosPQ", "open Asynkit", ""]
    notes = []
    for name, why in failed.items():
        msg = f"UNSUPPORTED {name if '.' in name else CLASS + '.' + name}: {why}"
        print("pospq2lean: " + msg, file=sys.stderr)
        notes.append("-- " + msg.replace("\n", " "))
    if notes:
        notes = ["-- The methods below are NOT translated; every theorem of Lemmas/GenEqPosPQ.lean about",
                 "-- them is a broken obligation (the file does not build)."] + notes + [""]
    try:
        names = sorted([n.name for n in ct.cls.body if isinstance(n, ast.FunctionDef)]
                       + [f"{PV_CLASS}.{n.name}" for n in ct.pv_cls.body if isinstance(n, ast.FunctionDef)])
        listing = ", ".join('("%s", %s)' % (n, "false" if n in failed else "true") for n in names)
        parts.append("/-- every method of the two classes, and whether it is translated above -/\n"
                     f"def methods : List (String × Bool) :=\n  [{listing}]")
    except NameError:
        pass
    text = "\n".join(head + notes) + "\n\n".join(parts) + "\n\nend Asynkit.Gen.PosPQ\n"
    return {"PosPQ.lean": text}


if __name__ == "__main__":
    out = generate(Path(sys.argv[1]))
    sys.stdout.write(out["PosPQ.lean"])
