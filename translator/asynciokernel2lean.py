"""asynciokernel2lean — the pure-Python reference implementations `asyncio/futures.py` (class Future =
`_PyFuture`) and `asyncio/tasks.py` (class Task = `_PyTask`) of the *running interpreter*, regenerated into
lean/Asynkit/Gen/AsyncioKernel.lean on every run (unit of py2lean; DESIGN §3.3 / §4).  The files are found with
`importlib.util.find_spec(..).origin`; path, sha256 and Python version are recorded in the generated file.
For mutation testing only, ASYNKIT_STDLIB_FUTURES / ASYNKIT_STDLIB_TASKS substitute other files.

Translated (statement by statement, continuation-passing, over the Kernel state and the primitives of
`Asynkit/Model/KernelStdPrims.lean`):
  Future: done, cancelled, __schedule_callbacks, cancel, set_result, set_exception, add_done_callback,
          remove_done_callback, result, __await__ (entry segment and resumption segment);
  Task:   cancel, __step + __step_run_and_handle_result (segment A: up to the point where the coroutine is
          resumed; segment B: from the coroutine's outcome to the end, incl. the `finally` clauses),
          __wakeup (segment A), the scheduling part of __init__ (eager_start=False).
`Lemmas/GenEqKernelStd.lean` proves them equal to the guard + effect of the Kernel model's events.

Abstractions made by the translation (each is named in the generated file): attributes the Kernel does not
model are dropped (ABSTRACTED_ATTRS); the pair (`_state`, `_exception is None`) is the model's `FutSt`; the
stored exception of future f is named `futExc f`; `_make_cancelled_error()` is `Exc.cancelled`; the Task's own
Future half (`super().set_result / set_exception / cancel` on a Task) is `finishTask` (nobody awaits a Task in
the model); `_enter_task/_leave_task/_register_task` are `ctx` / `nt` updates; a method call on an awaited object
that may be of a subclass (`_fut_waiter.cancel()`) is `virtualCancel` (may refuse); contexts are dropped.
Anything outside the supported subset raises Unsupported - loudly.
"""
import ast
import hashlib
import importlib.util
import os
import platform
from pathlib import Path


class Unsupported(Exception):
    pass


ABSTRACTED_ATTRS = {
    "_Future__log_traceback", "__log_traceback", "_log_traceback", "_cancel_message", "_result", "_exception_tb",
    "_cancelled_exc", "_num_cancels_requested", "_asyncio_future_blocking", "_source_traceback", "_name",
    "_context", "_coro", "_log_destroy_pending",
}
STATES = {"_PENDING": "PyState.pending", "_CANCELLED": "PyState.cancelled", "_FINISHED": "PyState.finished"}
# exception classes the code mentions -> (tag, bases)
BASES = {
    "InvalidStateError": ["Exception", "BaseException"], "TypeError": ["Exception", "BaseException"],
    "RuntimeError": ["Exception", "BaseException"], "CancelledError": ["BaseException"],
    "StopIteration": ["Exception", "BaseException"], "KeyboardInterrupt": ["BaseException"],
    "SystemExit": ["BaseException"], "BaseException": [], "Exception": ["BaseException"],
    "Other": ["BaseException"],     # an exception object of unknown class (a stored / thrown exception)
}


class V:
    def __init__(self, kind, term="()", tag=None):
        self.kind, self.term, self.tag = kind, term, tag

    def __repr__(self):
        return f"V({self.kind},{self.term},{self.tag})"


IGN = V("ignored")


def name_of(e):
    """dotted name of an expression, or None"""
    if isinstance(e, ast.Name):
        return e.id
    if isinstance(e, ast.Attribute):
        b = name_of(e.value)
        return None if b is None else b + "." + e.attr
    return None


def doc_free(fn):
    b = fn.body
    if b and isinstance(b[0], ast.Expr) and isinstance(b[0].value, ast.Constant) and isinstance(b[0].value.value, str):
        b = b[1:]
    return list(b)


def pure_test(e):
    return not any(isinstance(n, (ast.Call, ast.Await, ast.Yield)) for n in ast.walk(e))


class Tr:
    """translator of one top-level method; `methods` = the methods of the classes (for inlining)"""

    def __init__(self, futm, taskm, helpers):
        self.futm, self.taskm, self.helpers = futm, taskm, helpers
        self.n = 0
        self.depth = 0
        self.rstack = []          # raise-continuations: f(tag, errterm, ind) -> lean text
        self.segments = []        # (name suffix, text) produced at coroutine-resumption points
        self.ret_kind = "none"

    def new(self, base):
        self.n += 1
        return f"{base}_{self.n}"

    # ------------------------------------------------------------------ raising
    def raise_(self, tag, term, ind):
        if not self.rstack:
            raise Unsupported("raise outside of a translated function")
        return self.rstack[-1](tag, term, ind)

    def top_raise(self, tag, term, ind):
        return f"{ind}.error ({term}, s)"

    @staticmethod
    def err_term(tag, v=None):
        if v is not None and v.kind == "exc":
            return f"StdErr.raised {v.term}"
        return {"InvalidStateError": "StdErr.invalidState", "TypeError": "StdErr.typeError",
                "RuntimeError": "StdErr.runtimeError", "KeyboardInterrupt": "StdErr.propagated",
                "SystemExit": "StdErr.propagated", "StopIteration": "StdErr.propagated",
                "CancelledError": "StdErr.raised Exc.cancelled", "Other": "StdErr.propagated"}[tag]

    # ------------------------------------------------------------------ values
    def val(self, e, env):
        key = ast.unparse(e)
        if key in env:
            return env[key]
        if isinstance(e, ast.Constant):
            if e.value is None:
                return V("none", "none")
            if isinstance(e.value, bool):
                return V("bool", "true" if e.value else "false")
            if isinstance(e.value, int):
                return V("nat", str(e.value))
            return IGN
        if isinstance(e, ast.JoinedStr):
            return IGN
        if isinstance(e, ast.Name):
            if e.id in STATES:
                return V("pystate", STATES[e.id])
            raise Unsupported(f"unknown name {e.id}")
        if isinstance(e, ast.List) and not e.elts:
            return V("cblist", "[]")
        if isinstance(e, ast.Tuple) and len(e.elts) == 2:
            a, b = self.val(e.elts[0], env), self.val(e.elts[1], env)
            if a.kind == "cb" and b.kind == "ignored":
                return a                       # (callback, context): the context is dropped
            raise Unsupported(f"tuple {key}")
        if isinstance(e, ast.Attribute):
            dn = name_of(e)
            if dn in ("futures._PENDING", "futures._CANCELLED", "futures._FINISHED"):
                return V("pystate", STATES[e.attr])
            base = self.val(e.value, env)
            if e.attr in ABSTRACTED_ATTRS:
                return IGN
            if base.kind == "fut":
                if e.attr == "_state":
                    return V("pystate", f"(pyState s {base.term})")
                if e.attr == "_exception":
                    return V("optexc", f"(exceptionOf s {base.term})")
                if e.attr == "_callbacks":
                    return V("cblist", f"(callbacks s {base.term})")
                if e.attr == "_loop":
                    return V("loop")
            if base.kind == "task":
                if e.attr == "_fut_waiter":
                    return V("optfut", f"(s.tasks {base.term}).futWaiter")
                if e.attr == "_must_cancel":
                    return V("bool", f"(s.tasks {base.term}).mustCancel")
                if e.attr == "_loop":
                    return V("loop")
                if e.attr in ("_Task__step", "__step"):
                    return V("stepm", base.term)
                if e.attr in ("_Task__wakeup", "__wakeup"):
                    return V("cb", f"(Cb.wake {base.term})")
            if base.kind in ("exc", "ignored", "yielded", "caught") and e.attr in ("__traceback__", "value"):
                return IGN
            raise Unsupported(f"attribute .{e.attr} of a {base.kind}")
        if isinstance(e, ast.Subscript) and isinstance(e.slice, ast.Slice) and e.slice.lower is None \
                and e.slice.upper is None and e.slice.step is None:
            return self.val(e.value, env)          # x[:] : a copy, same value
        if isinstance(e, ast.ListComp):
            return self.listcomp(e, env)
        if isinstance(e, ast.BinOp) and isinstance(e.op, ast.Sub):
            a, b = self.val(e.left, env), self.val(e.right, env)
            if a.kind == b.kind == "nat":
                return V("nat", f"({a.term} - {b.term})")
        if isinstance(e, (ast.Compare, ast.BoolOp)) or (isinstance(e, ast.UnaryOp) and isinstance(e.op, ast.Not)):
            return V("bool", self.cond(e, env))
        if isinstance(e, ast.Call):
            return self.call_val(e, env)
        raise Unsupported(f"value expression {key[:80]}")

    def listcomp(self, e, env):
        # [(f, ctx) for (f, ctx) in self._callbacks if f != fn]
        if len(e.generators) != 1 or len(e.generators[0].ifs) != 1:
            raise Unsupported("list comprehension shape")
        g = e.generators[0]
        src = self.val(g.iter, env)
        if src.kind != "cblist" or ast.unparse(g.target) != ast.unparse(e.elt) or not isinstance(g.target, ast.Tuple):
            raise Unsupported("list comprehension over something else than the callback list")
        x = self.new("c")
        env2 = {**env, ast.unparse(g.target.elts[0]): V("cb", x), ast.unparse(g.target.elts[1]): IGN}
        return V("cblist", f"({src.term}.filter (fun {x} => {self.cond(g.ifs[0], env2)}))")

    def call_val(self, e, env):
        """calls without effect on the state"""
        f = e.func
        dn = name_of(f)
        if dn == "len" and len(e.args) == 1:
            a = self.val(e.args[0], env)
            if a.kind == "cblist":
                return V("nat", f"{a.term}.length")
        if dn == "futures._get_loop" and len(e.args) == 1 and self.val(e.args[0], env).kind == "yielded":
            return V("yloop", f"(Yielded.sameLoop {self.val(e.args[0], env).term})")
        if dn in ("contextvars.copy_context", "str", "_task_name_counter", "type"):
            return IGN
        if dn == "getattr" and len(e.args) == 3 and isinstance(e.args[1], ast.Constant) \
                and e.args[1].value == "_asyncio_future_blocking":
            a = self.val(e.args[0], env)
            if a.kind == "yielded":
                return V("optbool", f"(Yielded.blocking? {a.term})")
        if dn in ("RuntimeError", "exceptions.InvalidStateError", "TypeError", "exceptions.CancelledError"):
            tag = dn.split(".")[-1]
            if tag == "RuntimeError":
                return V("exc", "Exc.runtime", tag)
            if tag == "CancelledError":
                return V("exc", "Exc.cancelled", tag)
            return V("err", self.err_term(tag), tag)
        if isinstance(f, ast.Attribute):
            if f.attr == "with_traceback":
                return self.val(f.value, env)
            base = self.val(f.value, env)
            if base.kind in ("fut", "task") and f.attr == "_make_cancelled_error" and not e.args:
                return V("exc", "Exc.cancelled", "CancelledError")      # abstraction: message / chained context dropped
            if base.kind == "fut" and f.attr == "done" and not e.args:
                return V("bool", f"(pyState s {base.term} != PyState.pending)")
            if base.kind == "task" and f.attr == "done" and not e.args:
                return V("bool", f"(s.tasks {base.term}).done")
        if isinstance(f, ast.Name) and f.id in env and env[f.id].kind == "exc" and not e.args:
            return env[f.id]                                          # exception = exception()
        raise Unsupported(f"call {ast.unparse(e)[:80]}")

    def cond(self, e, env):
        if isinstance(e, ast.UnaryOp) and isinstance(e.op, ast.Not):
            return f"(!{self.cond(e.operand, env)})"
        if isinstance(e, ast.BoolOp):
            op = " && " if isinstance(e.op, ast.And) else " || "
            return "(" + op.join(self.cond(v, env) for v in e.values) + ")"
        if isinstance(e, ast.Compare) and len(e.ops) == 1:
            op, a, b = e.ops[0], e.left, e.comparators[0]
            if isinstance(op, (ast.Is, ast.IsNot)):
                neg = isinstance(op, ast.IsNot)
                va = self.val(a, env)
                if isinstance(b, ast.Constant) and b.value is None:
                    if va.kind in ("optfut", "optexc", "optbool", "opttask"):
                        return f"{va.term}.isSome" if neg else f"{va.term}.isNone"
                    if va.kind == "yielded":
                        r = f"(Yielded.isNone {va.term})"
                        return f"(!{r})" if neg else r
                    if va.kind in ("fut", "exc", "bool", "task", "caught"):
                        return "true" if neg else "false"
                    if va.kind == "none":
                        return "false" if neg else "true"
                    raise Unsupported(f"`is None` of a {va.kind}")
                if va.kind == "ignored" and ast.unparse(b) == "StopIteration":
                    # type(exception) is StopIteration: the model's Exc has no StopIteration
                    return "true" if neg else "false"
                vb = self.val(b, env)
                r = None
                if va.kind == "yielded" and vb.kind == "task":
                    r = f"(Yielded.isSelf {va.term})"
                elif va.kind == "loop" and vb.kind == "loop":
                    r = "true"
                elif va.kind == "yloop" and vb.kind == "loop":
                    r = va.term
                elif va.kind == "ignored" and ast.unparse(b) == "StopIteration":
                    r = "false"        # type(exception) is StopIteration: the model's Exc has no StopIteration
                elif va.kind == "opttask" and vb.kind == "task":
                    r = f"({va.term} == some {vb.term})"
                if r is None:
                    raise Unsupported(f"identity test {ast.unparse(e)}")
                return f"(!{r})" if neg else r
            if isinstance(op, (ast.Eq, ast.NotEq)):
                va, vb = self.val(a, env), self.val(b, env)
                if va.kind == vb.kind and va.kind in ("pystate", "cb", "nat"):
                    return f"({va.term} {'==' if isinstance(op, ast.Eq) else '!='} {vb.term})"
            if isinstance(op, ast.Gt):
                va, vb = self.val(a, env), self.val(b, env)
                if va.kind == vb.kind == "nat":
                    return f"(decide ({va.term} > {vb.term}))"
            raise Unsupported(f"comparison {ast.unparse(e)}")
        if isinstance(e, ast.Call):
            dn = name_of(e.func)
            if dn == "isinstance" and len(e.args) == 2:
                a = self.val(e.args[0], env)
                cls = name_of(e.args[1])
                if cls == "type" and a.kind == "exc":
                    return "false"             # the model passes exception instances
                if cls == "exceptions.CancelledError" and a.kind == "optexc":
                    return f"(match {a.term} with | some x => x.isCancel | none => false)"
                if cls == "exceptions.CancelledError" and a.kind == "exc":
                    return f"{a.term}.isCancel"
                if cls == "exceptions.CancelledError" and a.kind == "caught":
                    return "true" if (a.tag == "CancelledError") else "false"
                if cls == "exceptions.CancelledError" and a.kind == "none":
                    return "false"
            if dn == "coroutines.iscoroutine":
                return "true"                  # the model creates tasks from coroutines only
            if dn == "inspect.isgenerator" and self.val(e.args[0], env).kind == "yielded":
                return f"(Yielded.isGenerator {self.val(e.args[0], env).term})"
        v = self.val(e, env)
        if v.kind == "bool":
            return v.term
        if v.kind == "nat":
            return f"({v.term} != 0)"
        if v.kind == "cblist":
            return f"(!{v.term}.isEmpty)"
        if v.kind in ("optfut", "optexc", "opttask"):
            return f"{v.term}.isSome"
        raise Unsupported(f"truth value of {ast.unparse(e)[:60]} ({v.kind})")

    # ------------------------------------------------------------------ statements
    def ignorable(self, stmts):
        """statements that only touch what the Kernel does not model"""
        for st in stmts:
            if isinstance(st, ast.Pass):
                continue
            if isinstance(st, (ast.Assign, ast.AugAssign)):
                t = st.targets[0] if isinstance(st, ast.Assign) else st.target
                if isinstance(t, ast.Attribute) and t.attr in ABSTRACTED_ATTRS:
                    continue
                if isinstance(st, ast.Assign) and isinstance(t, ast.Name) and isinstance(st.value, ast.Call) \
                        and name_of(st.value.func) == "contextvars.copy_context":
                    continue                   # context = contextvars.copy_context(): contexts are dropped
                return False
            if isinstance(st, ast.Delete) and all(
                    isinstance(t, ast.Subscript) and isinstance(t.value, ast.Attribute)
                    and t.value.attr in ABSTRACTED_ATTRS for t in st.targets):
                continue
            if isinstance(st, ast.If) and pure_test(st.test) and self.ignorable(st.body) and self.ignorable(st.orelse):
                continue
            return False
        return True

    def block(self, stmts, env, ind, cont):
        if stmts and getattr(self, "await_mode", False) and isinstance(stmts[0], ast.Assign) \
                and isinstance(stmts[0].targets[0], ast.Attribute) \
                and stmts[0].targets[0].attr == "_asyncio_future_blocking":
            owner = self.val(stmts[0].targets[0].value, env)
            v = self.val(stmts[0].value, env)
            return self.block(stmts[1:], {**env, "__blocking__:" + owner.term: v}, ind, cont)
        if not stmts:
            self.end_env = env           # the bindings at the end of this block (read by try/else)
            return cont(V("none", "()"), ind)
        st, rest = stmts[0], stmts[1:]
        p = ind
        if isinstance(st, ast.Expr) and isinstance(st.value, ast.Constant):
            return self.block(rest, env, ind, cont)
        if self.ignorable([st]):
            return self.block(rest, env, ind, cont)
        if isinstance(st, ast.Assign) and len(st.targets) == 1 and isinstance(st.targets[0], ast.Name) \
                and st.targets[0].id == "self" and isinstance(st.value, ast.Constant) and st.value.value is None:
            return self.block(rest, env, ind, cont)              # `self = None` (reference-cycle breaking)
        if isinstance(st, ast.Return):
            if st.value is None:
                return cont(V("none", "()"), ind)
            if isinstance(st.value, ast.Call) and self.is_effect_call(st.value, env):
                return self.effect_call(st.value, env, ind, cont)
            return cont(self.val(st.value, env), ind)
        if isinstance(st, ast.Raise):
            if st.exc is None:
                if "__caught__" not in env:
                    raise Unsupported("bare raise outside of a handler")
                c = env["__caught__"]
                return self.raise_(c.tag, self.err_term(c.tag, c), ind)
            v = self.val(st.exc, env)
            if v.kind not in ("exc", "err"):
                raise Unsupported(f"raise of a {v.kind}")
            tag = v.tag or "Other"
            return self.raise_(tag, v.term if v.kind == "err" else self.err_term(tag, v), ind)
        if isinstance(st, ast.If):
            return self.if_(st, rest, env, ind, cont)
        if isinstance(st, ast.Try):
            return self.try_(st, rest, env, ind, cont)
        if isinstance(st, ast.For):
            return self.for_(st, rest, env, ind, cont)
        if isinstance(st, ast.Assign) and len(st.targets) == 1:
            return self.assign(st.targets[0], st.value, rest, env, ind, cont)
        if isinstance(st, ast.Expr) and isinstance(st.value, ast.Call):
            return self.effect_call(st.value, env, ind, lambda ret, ind2: self.block(rest, env, ind2, cont))
        if isinstance(st, ast.Expr) and isinstance(st.value, ast.Yield):
            # `yield self` in Future.__await__: the generator suspends (segment A ends, yielding the future with
            # whatever the blocking flag is now); segment B is the rest, from whatever the state is at resumption
            v = self.val(st.value.value, env)
            if v.kind != "fut" or getattr(self, "await_mode", False) is False:
                raise Unsupported("yield outside of Future.__await__")
            flag = env.get("__blocking__:" + v.term, V("bool", "false")).term
            self.segments.append(("B", self.block(rest, env, "  ", cont)))
            return f"{ind}.ok (s, AwaitOut.yielded (Yielded.fut {v.term} {flag} true false))"
        raise Unsupported(f"statement {type(st).__name__}: {ast.unparse(st)[:70]}")

    def if_(self, st, rest, env, ind, cont):
        p = ind
        test = st.test
        then, other = list(st.body) + rest, list(st.orelse) + rest
        # static folding of literal conditions (eager_start=False and ...)
        if isinstance(test, ast.BoolOp) and isinstance(test.op, ast.And):
            v0 = self.val(test.values[0], env) if isinstance(test.values[0], ast.Name) else None
            if v0 is not None and v0.kind == "bool" and v0.term == "false":
                return self.block(other, env, ind, cont)
        # an effectful call as the test:  if self._fut_waiter.cancel(msg=msg):
        if isinstance(test, ast.Call) and self.is_effect_call(test, env):
            def k(ret, ind2):
                if ret.kind != "bool":
                    raise Unsupported("effectful test that does not return a bool")
                return (f"{ind2}if {ret.term} then\n{self.block(then, env, ind2 + '  ', cont)}\n"
                        f"{ind2}else\n{self.block(other, env, ind2 + '  ', cont)}")
            return self.effect_call(test, env, ind, k)
        # `x is not None` / `x is None` / `x` / `not x` for an Optional value: bind it in the branch
        neg, t0 = False, test
        if isinstance(t0, ast.UnaryOp) and isinstance(t0.op, ast.Not):
            neg, t0 = True, t0.operand
        subj, some_is_then = None, None
        if isinstance(t0, ast.Compare) and len(t0.ops) == 1 and isinstance(t0.ops[0], (ast.Is, ast.IsNot)) \
                and isinstance(t0.comparators[0], ast.Constant) and t0.comparators[0].value is None:
            subj, some_is_then = t0.left, isinstance(t0.ops[0], ast.IsNot) != neg
        elif isinstance(t0, (ast.Name, ast.Attribute)):
            subj, some_is_then = t0, not neg
        if subj is not None:
            v = self.val(subj, env)
            inner = {"optfut": "fut", "optexc": "exc", "optbool": "bool", "opttask": "task"}.get(v.kind)
            if inner:
                x = self.new("v")
                env2 = {**env, ast.unparse(subj): V(inner, x, "Other" if inner == "exc" else None)}
                if v.kind == "optbool" and v.term.startswith("(Yielded.blocking? "):
                    # the yielded object has the Future marker attribute: it is (duck-typed as) a future
                    env2["__isfut__:" + v.term[len("(Yielded.blocking? "):-1]] = V("bool", "true")
                sb, nb = (then, other) if some_is_then else (other, then)
                return (f"{p}match {v.term} with\n{p}| none =>\n{self.block(nb, env, ind + '  ', cont)}\n"
                        f"{p}| some {x} =>\n{self.block(sb, env2, ind + '  ', cont)}")
        c = self.cond(test, env)
        if c in ("true", "(!false)"):          # statically decided (a default argument, a known class)
            return self.block(then, env, ind, cont)
        if c in ("false", "(!true)"):
            return self.block(other, env, ind, cont)
        return (f"{p}if {c} then\n{self.block(then, env, ind + '  ', cont)}\n"
                f"{p}else\n{self.block(other, env, ind + '  ', cont)}")

    def for_(self, st, rest, env, ind, cont):
        """for (cb, ctx) in callbacks: <state updates>   =   a left fold over the list"""
        if st.orelse or not isinstance(st.target, ast.Tuple) or len(st.target.elts) != 2:
            raise Unsupported("for loop shape")
        src = self.val(st.iter, env)
        if src.kind != "cblist":
            raise Unsupported("for loop over something else than a callback list")
        x = self.new("cb")
        env2 = {**env, ast.unparse(st.target.elts[0]): V("cb", x), ast.unparse(st.target.elts[1]): IGN}

        def no_raise(tag, term, ind2):
            raise Unsupported("raise inside a for loop")
        saved, self.rstack = self.rstack, [no_raise]
        try:
            body = self.block(list(st.body), env2, ind + "    ", lambda ret, ind2: f"{ind2}s")
        finally:
            self.rstack = saved
        return (f"{ind}let s := {src.term}.foldl (fun s {x} =>\n{body}) s\n"
                f"{self.block(rest, env, ind, cont)}")

    def try_(self, st, rest, env, ind, cont):
        outer = list(self.rstack)

        def with_outer(f):
            saved, self.rstack = self.rstack, outer
            try:
                return f()
            finally:
                self.rstack = saved

        def fin_then(k, ind2):
            """run the finally clause, then k"""
            return self.block(list(st.finalbody), env, ind2, lambda ret, ind3: k(ind3))

        def after(ret, ind2):          # normal exit of body + else
            return with_outer(lambda: fin_then(lambda i: self.block(rest, env, i, cont), ind2))

        def handler(tag, term, ind2):
            for h in st.handlers:
                names = []
                if h.type is None:
                    names = ["BaseException"]
                elif isinstance(h.type, ast.Tuple):
                    names = [name_of(x).split(".")[-1] for x in h.type.elts]
                else:
                    names = [name_of(h.type).split(".")[-1]]
                if any(n == tag or n in BASES[tag] for n in names):
                    env2 = dict(env)
                    caught = V("exc", term[len("StdErr.raised "):], tag) if term.startswith("StdErr.raised ") \
                        else V("caught", term, tag)
                    env2["__caught__"] = caught
                    if h.name:
                        env2[h.name] = caught

                    def hr(tag2, term2, ind3):        # a raise inside the handler: finally, then outwards
                        return with_outer(lambda: fin_then(lambda i: self.raise_(tag2, term2, i), ind3))
                    saved, self.rstack = self.rstack, outer + [hr]
                    try:
                        return self.block(list(h.body), env2, ind2, after)
                    finally:
                        self.rstack = saved
            return with_outer(lambda: fin_then(lambda i: self.raise_(tag, term, i), ind2))

        def body_done(ret, ind2):      # the else clause is not protected by the handlers, but by finally
            env_b = {**env, **{k: v for k, v in getattr(self, "end_env", {}).items() if k not in env}}

            def er(tag2, term2, ind3):
                return with_outer(lambda: fin_then(lambda i: self.raise_(tag2, term2, i), ind3))
            saved, self.rstack = self.rstack, outer + [er]
            try:
                return self.block(list(st.orelse), env_b, ind2, after)
            finally:
                self.rstack = saved

        self.rstack = outer + [handler]
        try:
            self.try_env = env
            return self.block(list(st.body), env, ind, body_done)
        finally:
            self.rstack = outer

    def assign(self, tgt, value, rest, env, ind, cont):
        p = ind
        go = lambda env2, i=ind: self.block(rest, env2, i, cont)
        # self._callbacks[:] = X
        if isinstance(tgt, ast.Subscript) and isinstance(tgt.slice, ast.Slice) and isinstance(tgt.value, ast.Attribute) \
                and tgt.value.attr == "_callbacks":
            f = self.val(tgt.value.value, env)
            v = self.val(value, env)
            if f.kind != "fut" or v.kind != "cblist":
                raise Unsupported("assignment to a callback list")
            return f"{p}let s := setCallbacks s {f.term} {v.term}\n{go(env)}"
        if isinstance(tgt, ast.Attribute):
            base = self.val(tgt.value, env)
            key = ast.unparse(tgt)
            env2 = {k: v for k, v in env.items() if k != key}
            if base.kind == "fut" and tgt.attr == "_state":
                v = self.val(value, env)
                if v.term == "PyState.cancelled":
                    return f"{p}let s := setCancelled s {base.term}\n{go(env2)}"
                if v.term == "PyState.finished":
                    w = "true" if env.get("__excset__:" + base.term) else "false"
                    return f"{p}let s := setFinished s {base.term} {w}\n{go(env2)}"
                raise Unsupported(f"_state := {v.term}")
            if base.kind == "fut" and tgt.attr == "_exception":
                if self.val(value, env).kind != "exc":
                    raise Unsupported("_exception := a non-exception")
                return go({**env2, "__excset__:" + base.term: V("bool", "true")})
            if base.kind == "task" and tgt.attr == "_must_cancel":
                v = self.val(value, env)
                return f"{p}let s := setMustCancel s {base.term} {v.term}\n{go(env2)}"
            if base.kind == "task" and tgt.attr == "_fut_waiter":
                v = self.val(value, env)
                if v.kind == "none":
                    return f"{p}let s := setFutWaiter s {base.term} none\n{go(env2)}"
                if v.kind == "yielded":
                    t = f"(Yielded.futId {v.term})"
                    return f"{p}let s := setFutWaiter s {base.term} (some {t})\n{go({**env2, key: V('fut', t)})}"
                if v.kind == "fut":
                    return f"{p}let s := setFutWaiter s {base.term} (some {v.term})\n{go({**env2, key: v})}"
            raise Unsupported(f"assignment to .{tgt.attr} of a {base.kind}")
        if isinstance(tgt, ast.Name):
            if isinstance(value, ast.Call) and self.is_coro_resume(value, env):
                return self.coro_resume(tgt.id, value, env, ind, cont, rest)
            if isinstance(value, ast.Call) and self.is_effect_call(value, env):
                return self.effect_call(value, env, ind,
                                        lambda ret, i: self.block(rest, {**env, tgt.id: ret}, i, cont))
            v = self.val(value, env)
            if v.kind in ("ignored", "none", "loop", "pystate", "fut", "task", "cb", "exc", "err", "stepm", "bool", "optbool") \
                    and (v.kind != "bool" or v.term in ("true", "false")) or isinstance(value, ast.Name):
                return go({**env, tgt.id: v})
            x = self.new(tgt.id)
            return f"{p}let {x} := {v.term}\n{go({**env, tgt.id: V(v.kind, x, v.tag)})}"
        raise Unsupported(f"assignment target {ast.unparse(tgt)}")

    # ------------------------------------------------------------------ calls with effects
    def is_coro_resume(self, call, env):
        f = call.func
        return isinstance(f, ast.Attribute) and f.attr in ("send", "throw") and self.val(f.value, env).kind == "ignored" \
            and ast.unparse(f.value) == "coro"

    def coro_resume(self, name, call, env, ind, cont, rest):
        """`result = coro.send(None)` / `coro.throw(exc)`: the coroutine runs here.  Segment A ends, returning
        what is thrown in; segment B is what the continuations (handlers, else, finally, rest) do with the
        coroutine's outcome, from whatever the state is then."""
        thrown = "none"
        if call.func.attr == "throw":
            v = self.val(call.args[0], env)
            if v.kind == "caught":       # an error object of a class the Kernel's Exc does not name
                thrown = f"(some (errAsExc {v.term}))"
            elif v.kind in ("optexc", "exc"):
                thrown = v.term if v.kind == "optexc" else f"(some {v.term})"
            else:
                raise Unsupported(f"coro.throw of a {v.kind}")
        a_text = f"{ind}.ok (s, {thrown})      -- the coroutine is resumed: end of segment A"
        if getattr(self, "segb_done", False):
            return a_text
        self.segb_done = True
        i2 = "  "
        arms = []
        for ctor, tag in (("stopIteration", "StopIteration"), ("cancelledError", "CancelledError"),
                          ("keyboardInterrupt", "KeyboardInterrupt"), ("otherException", "Other")):
            term = "StdErr.raised Exc.cancelled" if tag == "CancelledError" else "StdErr.propagated"
            arms.append(f"{i2}| .{ctor} =>\n{self.raise_(tag, term, i2 + '  ')}")
        y = self.new("y")
        arms.append(f"{i2}| .yielded {y} =>\n" + cont_after(self, name, y, env, rest, cont, i2 + "  "))
        self.segments.append(("B", f"{i2}match out with\n" + "\n".join(arms)))
        return a_text

    def is_effect_call(self, call, env):
        f = call.func
        dn = name_of(f)
        if dn in ("_enter_task", "_leave_task", "_register_task"):
            return True
        if isinstance(f, ast.Attribute):
            if isinstance(f.value, ast.Call) and name_of(f.value.func) == "super":
                return True
            try:
                base = self.val(f.value, env)
            except Unsupported:
                return False
            if base.kind == "loop" and f.attr == "call_soon":
                return True
            if base.kind in ("fut", "optfut", "yielded") and f.attr in (
                    "cancel", "add_done_callback", "set_result", "set_exception", "result", "remove_done_callback"):
                return True
            if base.kind in ("fut", "task") and (f.attr in self.futm or f.attr in self.taskm
                                                 or f.attr.startswith("__")):
                return f.attr not in ("done", "_make_cancelled_error")
            if base.kind == "cblist" and f.attr == "append":
                return True
        return False

    def effect_call(self, call, env, ind, k):
        p = ind
        f = call.func
        dn = name_of(f)
        if dn in ("_enter_task", "_leave_task", "_register_task"):
            t = self.val(call.args[-1], env)
            prim = {"_enter_task": "enterTask", "_leave_task": "leaveTask", "_register_task": "registerTask"}[dn]
            return f"{p}let s := {prim} s {t.term}\n{k(V('none', '()'), ind)}"
        if isinstance(f.value, ast.Call) and name_of(f.value.func) == "super":
            slf = env["self"]
            if slf.kind == "task" and f.attr in ("set_result", "set_exception", "cancel"):
                for a in call.args:
                    self.val(a, env)
                # abstraction: the Task's own Future half is `done`
                return f"{p}let s := finishTask s {slf.term}\n{k(V('bool', 'true'), ind)}"
            if slf.kind == "task" and f.attr == "__init__":
                return f"{p}let s := initFuture s {slf.term}\n{k(V('none', '()'), ind)}"
            raise Unsupported(f"super().{f.attr} on a {slf.kind}")
        base = self.val(f.value, env)
        if base.kind == "yielded" and ("__isfut__:" + base.term) in env:
            base = V("fut", f"(Yielded.futId {base.term})")
        if base.kind == "loop" and f.attr == "call_soon":
            for kw in call.keywords:
                if kw.arg != "context":
                    raise Unsupported("call_soon keyword")
            cb = self.val(call.args[0], env)
            args = [self.val(a, env) for a in call.args[1:]]
            if cb.kind == "cb" and len(args) == 1 and args[0].kind == "fut":
                h = f"(toHandle {args[0].term} {cb.term})"
            elif cb.kind == "stepm" and not args:
                h = f"(Handle.step {cb.term} none)"
            elif cb.kind == "stepm" and len(args) == 1 and args[0].kind == "exc":
                h = f"(Handle.step {cb.term} (some {args[0].term}))"
            else:
                raise Unsupported(f"call_soon({cb.kind}, {[a.kind for a in args]})")
            return f"{p}let s := callSoon s {h}\n{k(V('none', '()'), ind)}"
        if base.kind == "cblist" and f.attr == "append":
            owner = self.val(f.value.value, env)
            v = self.val(call.args[0], env)
            if owner.kind != "fut" or v.kind != "cb":
                raise Unsupported("append to a list that is not a future's callbacks")
            return f"{p}let s := setCallbacks s {owner.term} ({base.term} ++ [{v.term}])\n{k(V('none', '()'), ind)}"
        # a method of an awaited object: may be a subclass -> virtual
        if base.kind in ("optfut", "yielded") and f.attr in ("cancel", "add_done_callback"):
            raise Unsupported(f".{f.attr}() of a {base.kind} that may be None / not a future")
        if base.kind == "fut" and f.attr == "cancel" and env["self"].kind == "task":
            r = self.new("r")
            sv = self.new("b")
            return (f"{p}match virtualCancel s {base.term} with\n{p}| .error e => .error e\n{p}| .ok (s, {sv}) =>\n"
                    f"{k(V('bool', sv), ind + '  ')}")
        # methods of the same classes: inline
        meths = self.futm if base.kind == "fut" else self.taskm if base.kind == "task" else None
        if meths is not None:
            nm = f.attr
            if nm not in meths:
                raise Unsupported(f"method {nm} of a {base.kind}")
            return self.inline(meths[nm], base, call, env, ind, k)
        raise Unsupported(f"call {ast.unparse(call)[:80]}")

    def inline(self, fn, slf, call, env, ind, k):
        if self.depth > 5:
            raise Unsupported("inlining too deep")
        a = fn.args
        params = [x.arg for x in a.args][1:]
        given = {"self": slf}
        for n_, arg in zip(params, call.args):
            given[n_] = self.val(arg, env)
        for kw in call.keywords:
            given[kw.arg] = self.val(kw.value, env)
        defaults = dict(zip(params[len(params) - len(a.defaults):], a.defaults))
        for ko, kd in zip(a.kwonlyargs, a.kw_defaults):
            if ko.arg not in given:
                given[ko.arg] = self.val(kd, {}) if kd is not None else IGN
        for n_ in params:
            if n_ not in given:
                if n_ not in defaults:
                    raise Unsupported(f"missing argument {n_} of {fn.name}")
                given[n_] = self.val(defaults[n_], {})
        for key, v in env.items():          # knowledge about attributes of the same objects stays valid
            if "." in key or key.startswith("__excset__"):
                given.setdefault(key, v) if not key.startswith("self.") else None
        self.depth += 1
        try:
            return self.block(doc_free(fn), given, ind, k)
        finally:
            self.depth -= 1


def cont_after(tr, name, y, env, rest, cont, ind):
    return tr.block(rest, {**env, name: V("yielded", y)}, ind, cont)


# ---------------------------------------------------------------------------------------------------


def methods_of(tree, cls):
    for node in tree.body:
        if isinstance(node, ast.ClassDef) and node.name == cls:
            return {n.name: n for n in node.body if isinstance(n, ast.FunctionDef)}
    raise Unsupported(f"class {cls} not found")


def ret_term(ret, kind):
    if kind == "unit":
        return "()"
    if kind == "bool":
        if ret.kind != "bool":
            raise Unsupported(f"expected a bool result, got {ret.kind}")
        return ret.term
    if kind == "nat":
        if ret.kind != "nat":
            raise Unsupported(f"expected a number result, got {ret.kind}")
        return ret.term
    raise Unsupported(kind)


def translate(tr, fn, env, kind, ind="  "):
    tr.rstack = [tr.top_raise]

    def done(ret, i):
        return f"{i}.ok (s, {ret_term(ret, kind)})"
    return tr.block(doc_free(fn), env, ind, done)


def generate(src=None) -> dict:
    fpath = os.environ.get("ASYNKIT_STDLIB_FUTURES") or importlib.util.find_spec("asyncio.futures").origin
    tpath = os.environ.get("ASYNKIT_STDLIB_TASKS") or importlib.util.find_spec("asyncio.tasks").origin
    fdata, tdata = Path(fpath).read_bytes(), Path(tpath).read_bytes()
    ftree, ttree = ast.parse(fdata.decode()), ast.parse(tdata.decode())
    futm, taskm = methods_of(ftree, "Future"), methods_of(ttree, "Task")
    fsha, tsha = hashlib.sha256(fdata).hexdigest(), hashlib.sha256(tdata).hexdigest()
    F = V("fut", "self_")
    T = V("task", "self_")
    out = []

    def fut(py, lean, sig, env, kind, doc):
        tr = Tr(futm, taskm, {})
        body = translate(tr, futm[py], {"self": F, **env}, kind)
        rt = {"unit": "Unit", "bool": "Bool", "nat": "Nat"}[kind]
        out.append(f"/-- `Future.{py}` {doc}-/\ndef {lean} (s : State) (self_ : FutId) {sig}: Except (StdErr × State) (State × {rt}) :=\n{body}\n")

    out.append("namespace Future\n")
    fut("done", "done", "", {}, "bool", "")
    fut("cancelled", "cancelled", "", {}, "bool", "")
    fut("_Future__schedule_callbacks" if "_Future__schedule_callbacks" in futm else "__schedule_callbacks",
        "scheduleCallbacks", "", {}, "unit", "")
    fut("cancel", "cancel", "", {"msg": IGN}, "bool", "")
    fut("set_result", "setResult", "", {"result": IGN}, "unit", "")
    fut("set_exception", "setException", "", {"exception": V("exc", "(Exc.futExc self_)", "Other")}, "unit",
        "(the stored exception of future f is named `futExc f` in the model) ")
    fut("add_done_callback", "addDoneCallback", "(fn : Cb) ", {"fn": V("cb", "fn"), "context": IGN}, "unit", "")
    fut("remove_done_callback", "removeDoneCallback", "(fn : Cb) ", {"fn": V("cb", "fn")}, "nat", "")
    fut("result", "result", "", {}, "unit", "(the value is not modelled; what matters is whether / what it raises) ")
    tr = Tr(futm, taskm, {})
    tr.await_mode = True
    tr.rstack = [tr.top_raise]
    a_body = tr.block(doc_free(futm["__await__"]), {"self": F}, "  ",
                      lambda ret, i: f"{i}.ok (s, AwaitOut.returned)")
    if len(tr.segments) != 1:
        raise Unsupported("Future.__await__ does not yield exactly once")
    out.append("/-- `Future.__await__` from its start to the `yield self` (or to its end when the future is done) -/\n"
               f"def awaitA (s : State) (self_ : FutId) : Except (StdErr × State) (State × AwaitOut) :=\n{a_body}\n")
    out.append("/-- `Future.__await__` resumed after the `yield self` -/\n"
               f"def awaitB (s : State) (self_ : FutId) : Except (StdErr × State) (State × AwaitOut) :=\n{tr.segments[0][1]}\n")
    out.append("end Future\n")
    out.append("/-- `fut.cancel()` on an awaited object: the class may override `cancel` and refuse although the\n"
               "    future is pending (asyncio.gather's outer future, the harness's GuardFuture) -/\n"
               "def virtualCancel (s : State) (f : FutId) : Except (StdErr × State) (State × Bool) :=\n"
               "  if (s.futs f).noCancel then .ok (s, false) else Future.cancel s f\n")

    out.append("namespace Task\n")
    tr = Tr(futm, taskm, {})
    body = translate(tr, taskm["cancel"], {"self": T, "msg": IGN}, "bool")
    out.append(f"/-- `Task.cancel` -/\ndef cancel (s : State) (self_ : TaskId) : Except (StdErr × State) (State × Bool) :=\n{body}\n")

    # __step: segment A (to the resumption of the coroutine) and segment B (from its outcome)
    stepname = "_Task__step" if "_Task__step" in taskm else "__step"
    tr = Tr(futm, taskm, {})
    tr.rstack = [tr.top_raise]
    a_body = tr.block(doc_free(taskm[stepname]), {"self": T, "exc": V("optexc", "exc")}, "  ",
                      lambda ret, i: f"{i}.ok s")
    if len(tr.segments) != 1:
        raise Unsupported("Task.__step does not resume the coroutine exactly once")
    b_body = tr.segments[0][1]
    out.append("/-- `Task.__step(exc)` up to the point where the coroutine is resumed: the state then, and the\n"
               "    exception thrown into it (`none` = `send(None)`) -/\n"
               f"def stepA (s : State) (self_ : TaskId) (exc : Option Exc) : Except (StdErr × State) (State × Option Exc) :=\n{a_body}\n")
    out.append("/-- `Task.__step` / `__step_run_and_handle_result` from the outcome `out` of the coroutine's step to the\n"
               "    end (handlers, `else`, both `finally` clauses), from whatever the state is at that moment -/\n"
               f"def stepB (s : State) (self_ : TaskId) (out : CoroOut) : Except (StdErr × State) State :=\n{b_body}\n")

    wname = "_Task__wakeup" if "_Task__wakeup" in taskm else "__wakeup"
    tr = Tr(futm, taskm, {})
    tr.rstack = [tr.top_raise]
    tr.segb_done = True                      # the continuation is stepB
    w_body = tr.block(doc_free(taskm[wname]), {"self": T, "future": V("fut", "future")}, "  ",
                      lambda ret, i: f"{i}.ok s")
    out.append("/-- `Task.__wakeup(future)` up to the point where the coroutine is resumed -/\n"
               f"def wakeupA (s : State) (self_ : TaskId) (future : FutId) : Except (StdErr × State) (State × Option Exc) :=\n{w_body}\n")

    tr = Tr(futm, taskm, {})
    env = {"self": T, "coro": IGN, "loop": IGN, "name": IGN, "context": IGN, "eager_start": V("bool", "false")}
    i_body = translate(tr, taskm["__init__"], env, "unit")
    out.append("/-- `Task.__init__(coro)` with `eager_start=False`: the new task `self_` is set up, its first step is\n"
               "    scheduled and it is registered -/\n"
               f"def init (s : State) (self_ : TaskId) : Except (StdErr × State) (State × Unit) :=\n{i_body}\n")
    out.append("end Task\n")

    head = (f"-- GENERATED by translator/asynciokernel2lean.py — do not edit\n"
            f"-- from {fpath}  sha256 {fsha}\n-- and  {tpath}  sha256 {tsha}\n"
            f"-- Python {platform.python_version()}\n"
            "import Asynkit.Model.KernelStdPrims\nset_option linter.unusedVariables false\n"
            "namespace Asynkit.Gen.AsyncioKernel\nopen Asynkit.Kernel\n\n"
            f"def futuresSha256 : String := \"{fsha}\"\ndef tasksSha256 : String := \"{tsha}\"\n"
            f"def pythonVersion : String := \"{platform.python_version()}\"\n"
            "/-- attributes of Future / Task the Kernel model does not represent (dropped by the translation) -/\n"
            "def abstractedAttributes : List String := ["
            + ", ".join(f'"{a}"' for a in sorted(ABSTRACTED_ATTRS)) + "]\n\n")
    return {"AsyncioKernel.lean": head + "\n".join(out) + "end Asynkit.Gen.AsyncioKernel\n"}


if __name__ == "__main__":
    print(generate()["AsyncioKernel.lean"])
