"""ctxresume2lean — which context a segment of a CoroStart coroutine runs in (property C04).

`generate(src)` returns {"CtxResume.lean": text}; merged by py2lean.generate().  From
src/asynkit/coroutine.py it derives

* `resume` — `CoroStart._resume` translated statement by statement: the condition on
  `self.context` (`is None` / `is not None` / truthiness / `not`), `self.context.run(method, *args)`
  and `method(*args)` become `runIn` / `plain` of the generated module;
* `wraps : Wraps` — for every entry point of CoroStart (`_start`; `__await__`: the "cannot reuse"
  send, the send / throw / GeneratorExit branches of the relay loop; `athrow`; `throw`; `close`)
  whether EVERY resumption of the coroutine there (`self.coro.send / throw / close`) is handed to
  `self._resume(...)` instead of being called directly;
* `eagerCopies` — `coro_eager` constructs `CoroStart(coro, context=copy_context())`;
  `awaitPasses` — `coro_await` passes its own `context` argument on.

lean/Asynkit/Lemmas/GenEqC04.lean proves `resume = inCtx true`, `wraps = repaired`,
`eagerCopies = true`, `awaitPasses = true`, i.e. that the model the C04 theorems are about is the
wrapping the source has now.  Anything the analysis does not recognise raises `Unsupported`.
"""
from __future__ import annotations

import ast
from pathlib import Path


class Unsupported(KeyError):
    def __str__(self):
        return str(self.args[0]) if self.args else ""


RESUMERS = ("send", "throw", "close")


def _is_self_attr(node, attr):
    return (isinstance(node, ast.Attribute) and node.attr == attr and isinstance(node.value, ast.Name)
            and node.value.id == "self")


class Aliases:
    """Local names of one function that stand for `self.context`, `self.coro`, `self._resume` or a
    bound method `self.coro.send/throw/close` (plain `name = <that>` assignments, each name
    assigned once in the function)."""

    def __init__(self, fn):
        counts = {}
        assigns = []
        for n in ast.walk(fn):
            if isinstance(n, ast.Assign) and len(n.targets) == 1 and isinstance(n.targets[0], ast.Name):
                counts[n.targets[0].id] = counts.get(n.targets[0].id, 0) + 1
                assigns.append(n)
            elif isinstance(n, (ast.AugAssign, ast.AnnAssign, ast.NamedExpr, ast.For, ast.With)):
                for t in ast.walk(n):
                    if isinstance(t, ast.Name) and isinstance(t.ctx, ast.Store):
                        counts[t.id] = counts.get(t.id, 0) + 2
        self.context, self.coro, self.resume, self.method = set(), set(), set(), set()
        self.defs = set()
        changed = True
        while changed:
            changed = False
            for n in assigns:
                name = n.targets[0].id
                if counts.get(name) != 1 or id(n) in self.defs:
                    continue
                v = n.value
                for kind, test in (("context", self.is_context), ("coro", self.is_coro), ("resume", self.is_resume),
                                   ("method", self.is_coro_method)):
                    if test(v):
                        getattr(self, kind).add(name)
                        self.defs.add(id(n))
                        changed = True
                        break

    def is_context(self, node):
        return _is_self_attr(node, "context") or (isinstance(node, ast.Name) and node.id in self.context)

    def is_coro(self, node):
        return _is_self_attr(node, "coro") or (isinstance(node, ast.Name) and node.id in self.coro)

    def is_resume(self, node):
        return _is_self_attr(node, "_resume") or (isinstance(node, ast.Name) and node.id in self.resume)

    def is_coro_method(self, node):
        if isinstance(node, ast.Attribute) and node.attr in RESUMERS and self.is_coro(node.value):
            return True
        return isinstance(node, ast.Name) and isinstance(node.ctx, ast.Load) and node.id in self.method


def _cond(e, al):
    """condition on self.context -> Lean Bool text over (ctx : Option Mapping) (nonEmpty : Bool)"""
    if isinstance(e, ast.UnaryOp) and isinstance(e.op, ast.Not):
        return f"(!{_cond(e.operand, al)})"
    if isinstance(e, ast.Compare) and len(e.ops) == 1:
        l, r = e.left, e.comparators[0]
        if isinstance(l, ast.Constant) and l.value is None:
            l, r = r, l
        if al.is_context(l) and isinstance(r, ast.Constant) and r.value is None:
            if isinstance(e.ops[0], (ast.IsNot, ast.NotEq)):
                return "ctx.isSome"
            if isinstance(e.ops[0], (ast.Is, ast.Eq)):
                return "ctx.isNone"
    if al.is_context(e):
        # truth value of a Context: it is a Mapping, an empty one is falsy
        return "(ctx.isSome && nonEmpty)"
    if isinstance(e, ast.BoolOp):
        op = " && " if isinstance(e.op, ast.And) else " || "
        return "(" + op.join(_cond(v, al) for v in e.values) + ")"
    raise Unsupported(f"_resume: condition {ast.dump(e)[:80]}")


def _ret(e, method, star, al):
    """returned expression of _resume -> Lean"""
    def args_ok(call, first=None):
        a = list(call.args)
        if first is not None:
            if not (a and isinstance(a[0], ast.Name) and a[0].id == first):
                return False
            a = a[1:]
        return (len(a) == 1 and isinstance(a[0], ast.Starred) and isinstance(a[0].value, ast.Name)
                and a[0].value.id == star and not call.keywords)
    if isinstance(e, ast.Call):
        f = e.func
        if isinstance(f, ast.Attribute) and f.attr == "run" and al.is_context(f.value) and args_ok(e, method):
            return "runIn ctx cur f"
        if isinstance(f, ast.Name) and f.id == method and args_ok(e):
            return "plain ctx cur f"
    if isinstance(e, ast.IfExp):
        return (f"(if {_cond(e.test, al)} then {_ret(e.body, method, star, al)} "
                f"else {_ret(e.orelse, method, star, al)})")
    raise Unsupported(f"_resume: returned expression {ast.dump(e)[:90]}")


def _resume_body(stmts, method, star, al, depth=1):
    ind = "  " * depth
    if not stmts:
        raise Unsupported("_resume may fall off its end")
    s, rest = stmts[0], stmts[1:]
    if isinstance(s, ast.Expr) and isinstance(s.value, ast.Constant):
        return _resume_body(rest, method, star, al, depth)
    if isinstance(s, ast.Assign) and id(s) in al.defs and isinstance(s.targets[0], ast.Name) \
            and s.targets[0].id in al.context:
        return _resume_body(rest, method, star, al, depth)          # `ctx = self.context`
    if isinstance(s, ast.Return) and s.value is not None:
        return ind + _ret(s.value, method, star, al)
    if isinstance(s, ast.If):
        c = _cond(s.test, al)
        if not _returns(s.body):
            raise Unsupported("_resume: branch without return")
        then = _resume_body(s.body, method, star, al, depth + 1)
        other = _resume_body(s.orelse if _returns(s.orelse) else (s.orelse or []) + rest, method, star, al, depth + 1)
        return f"{ind}if {c} then\n{then}\n{ind}else\n{other}"
    raise Unsupported(f"_resume: statement {type(s).__name__}")


def _returns(stmts):
    if not stmts:
        return False
    s = stmts[-1]
    if isinstance(s, ast.Return):
        return True
    if isinstance(s, ast.If):
        return _returns(s.body) and _returns(s.orelse)
    return False


def _entry_of(fn_name, path):
    """classify an occurrence by the function it is in and the syntactic path leading to it"""
    if fn_name == "_start":
        return "start"
    if fn_name == "athrow":
        return "athrow"
    if fn_name == "throw":
        return "sthrow"
    if fn_name == "close":
        return "sclose"
    if fn_name == "__await__":
        for kind, node in reversed(path):
            if kind == "handler":
                t = node.type
                if isinstance(t, ast.Name) and t.id == "GeneratorExit":
                    return "genexit"
                return "throw"
            if kind == "try-else":
                return "send"
            if kind == "if":
                names = {n.attr for n in ast.walk(node.test) if isinstance(n, ast.Attribute)}
                if "start_result" in names:
                    return "reuse"
        raise Unsupported("__await__: a resumption of the coroutine outside the known branches")
    return None


def _walk(node, path, found, al):
    """collect (path, wrapped?) for every use of `self.coro.<send|throw|close>` below `node`"""
    if isinstance(node, ast.Assign) and id(node) in al.defs:
        return                                   # the definition of an alias is not a use
    if isinstance(node, ast.Call):
        f = node.func
        if al.is_resume(f) and node.args and al.is_coro_method(node.args[0]):
            found.append((list(path), True))
            for a in node.args[1:]:
                _walk(a, path, found, al)
            return
    if al.is_coro_method(node):
        found.append((list(path), False))
        return
    if isinstance(node, ast.Try):
        for s in node.body:
            _walk(s, path + [("try-body", node)], found, al)
        for h in node.handlers:
            for s in h.body:
                _walk(s, path + [("handler", h)], found, al)
        for s in node.orelse:
            _walk(s, path + [("try-else", node)], found, al)
        for s in node.finalbody:
            _walk(s, path + [("finally", node)], found, al)
        return
    if isinstance(node, ast.If):
        _walk(node.test, path, found, al)
        for s in node.body:
            _walk(s, path + [("if", node)], found, al)
        for s in node.orelse:
            _walk(s, path + [("else", node)], found, al)
        return
    for child in ast.iter_child_nodes(node):
        _walk(child, path, found, al)


FIELDS = ["start", "send", "throw", "genexit", "reuse", "athrow", "sthrow", "sclose"]


def generate(src: Path) -> dict:
    tree = ast.parse((Path(src) / "asynkit/coroutine.py").read_text())
    cls = next((n for n in tree.body if isinstance(n, ast.ClassDef) and n.name == "CoroStart"), None)
    if cls is None:
        raise Unsupported("class CoroStart not found")
    methods = {n.name: n for n in cls.body if isinstance(n, (ast.FunctionDef, ast.AsyncFunctionDef))}
    # --- _resume
    rs = methods.get("_resume")
    if rs is None:
        raise Unsupported("CoroStart._resume not found")
    a = rs.args
    if len(a.args) != 2 or a.vararg is None or a.kwarg or a.kwonlyargs:
        raise Unsupported("_resume signature is not (self, method, *args)")
    resume = _resume_body(rs.body, a.args[1].arg, a.vararg.arg, Aliases(rs))
    # --- every resumption of the coroutine, per entry point
    wrapped = {f: [] for f in FIELDS}
    for name, fn in methods.items():
        if name == "_resume":
            continue
        found = []
        al = Aliases(fn)
        for s in fn.body:
            _walk(s, [], found, al)
        for path, w in found:
            entry = _entry_of(name, path)
            if entry is None:
                raise Unsupported(f"CoroStart.{name} resumes the coroutine; unknown entry point")
            wrapped[entry].append(w)
    for f, ws in wrapped.items():
        if not ws:
            raise Unsupported(f"no resumption of the coroutine found for entry point `{f}`")
    # anything outside the class touching `.coro.send/throw/close` of a CoroStart is not expected
    # --- coro_eager / coro_await
    funcs = {n.name: n for n in tree.body if isinstance(n, (ast.FunctionDef, ast.AsyncFunctionDef))}

    def ctor_context(fn_name):
        fn = funcs.get(fn_name)
        if fn is None:
            raise Unsupported(f"{fn_name} not found")
        calls = [n for n in ast.walk(fn) if isinstance(n, ast.Call) and isinstance(n.func, ast.Name)
                 and n.func.id == "CoroStart"]
        if len(calls) != 1:
            raise Unsupported(f"{fn_name}: exactly one CoroStart(...) expected")
        kw = [k for k in calls[0].keywords if k.arg == "context"]
        v = kw[0].value if kw else None
        if isinstance(v, ast.Name):
            # a local assigned exactly once in the function stands for its value
            defs = [n for n in ast.walk(fn) if isinstance(n, ast.Assign) and len(n.targets) == 1
                    and isinstance(n.targets[0], ast.Name) and n.targets[0].id == v.id]
            params = {x.arg for x in fn.args.args + fn.args.kwonlyargs}
            if len(defs) == 1 and v.id not in params:
                v = defs[0].value
        return v

    ce = ctor_context("coro_eager")
    eager = (isinstance(ce, ast.Call) and isinstance(ce.func, ast.Name) and ce.func.id == "copy_context"
             and not ce.args and not ce.keywords)
    ca = ctor_context("coro_await")
    passes = isinstance(ca, ast.Name) and ca.id == "context"
    b = lambda x: "true" if x else "false"
    text = f"""-- GENERATED by translator/ctxresume2lean.py from src/asynkit/coroutine.py — do not edit
import Asynkit.Model.Ctx
namespace Asynkit.Gen.CtxResume
open Asynkit.Ctx

variable {{α : Type}}

/-- `self.context.run(method, *args)`; `none` = AttributeError (`self.context` is None) -/
def runIn (ctx : Option Mapping) (cur : Mapping) (f : Mapping → R α) : Option (R α × Option Mapping) :=
  match ctx with
  | some c => let r := f c; some ({{ r with m := cur }}, some r.m)
  | none => none

/-- `method(*args)` -/
def plain (ctx : Option Mapping) (cur : Mapping) (f : Mapping → R α) : Option (R α × Option Mapping) :=
  some (f cur, ctx)

/-- `CoroStart._resume`; `nonEmpty` = the supplied Context holds at least one variable (matters
    only if the source tests the truth value of `self.context`) -/
def resume (ctx : Option Mapping) (nonEmpty : Bool) (cur : Mapping) (f : Mapping → R α) :
    Option (R α × Option Mapping) :=
{resume}

/-- per entry point: every `self.coro.send/throw/close` there goes through `self._resume` -/
def wraps : Wraps :=
  {{ start := {b(all(wrapped['start']))}, send := {b(all(wrapped['send']))}, throw := {b(all(wrapped['throw']))},
    genexit := {b(all(wrapped['genexit']))}, reuse := {b(all(wrapped['reuse']))}, athrow := {b(all(wrapped['athrow']))},
    sthrow := {b(all(wrapped['sthrow']))}, sclose := {b(all(wrapped['sclose']))} }}

/-- number of resumption sites found per entry point (start, send, throw, genexit, reuse, athrow, sthrow, sclose) -/
def sites : List Nat := [{", ".join(str(len(wrapped[f])) for f in FIELDS)}]

/-- `coro_eager`: `CoroStart(coro, context=copy_context())` -/
def eagerCopies : Bool := {b(eager)}

/-- `coro_await`: `CoroStart(coro, context=context)` -/
def awaitPasses : Bool := {b(passes)}

end Asynkit.Gen.CtxResume
"""
    return {"CtxResume.lean": text}


if __name__ == "__main__":
    import sys
    print(generate(Path(sys.argv[1]))["CtxResume.lean"])
