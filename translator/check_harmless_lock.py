#!/venv/bin/python
"""Regression set for the lock2lean unit (C11 / C12 / C13).
  translator/check_harmless_lock.py [patch ...]   behaviour-preserving refactorings of the lock layer
        (translator/harmless_lock/*.diff, harmless/h5, h6, g5, g6) must translate and keep every GenEqLock
        obligation green; exit 0 iff all are green
  translator/check_harmless_lock.py --mutations   the converse set (translator/mutations_lock/*.diff and
        seeded/C11-m*, C12-m*, C13-m*): each must be refused by the translator or break a proof, except the
        changes that are outside the translated functions (KNOWN_GREEN, see notes/GenEqLock.md)
Each patch is applied to a scratch copy of /repo HEAD (never to /repo); only lock2lean is run, into
lean/Asynkit/Gen/Lock.lean, which is regenerated from /repo at the end."""
import shutil, subprocess, sys, tempfile
from pathlib import Path

ROOT = Path(__file__).resolve().parent.parent
TARGET = "Asynkit.Lemmas.GenEqLock"
GEN = ROOT / "lean/Asynkit/Gen/Lock.lean"
# not lock-layer code: tools.PriorityQueue (C11-m7, C12-m1), PosPriorityQueue (C13-m7),
# PrioritySchedulingMixin.task_reschedule (C11-m12); and the exception path of propagation inside
# acquire, which the model's propagation does not have (C13-m10)
KNOWN_GREEN = {"C11-m7", "C12-m1", "C13-m7", "C11-m12", "C13-m10"}


def translate(src):
    r = subprocess.run([sys.executable, str(ROOT / "translator/lock2lean.py"), str(src)], capture_output=True, text=True)
    if r.returncode:
        return "TRANSLATOR: " + (r.stderr.strip().split("\n") or ["?"])[-1][:170]
    GEN.write_text(r.stdout)
    b = subprocess.run(["lake", "build", TARGET], cwd=ROOT / "lean", capture_output=True, text=True)
    if b.returncode:
        errs = [l for l in (b.stdout + b.stderr).split("\n") if l.startswith("error")]
        return "PROOF: " + (errs[0][:170] if errs else "?")
    return "green"


def verdict(patch):
    tgt = tempfile.mkdtemp(prefix="hl_", dir="/tmp")
    try:
        subprocess.run(f"git -C /repo archive HEAD src | tar -x -C {tgt}", shell=True, check=True)
        r = subprocess.run(["git", "apply", str(patch)], cwd=tgt, capture_output=True, text=True)
        if r.returncode:
            return "PATCH DOES NOT APPLY"
        return translate(Path(tgt) / "src")
    finally:
        shutil.rmtree(tgt, ignore_errors=True)


def main():
    args = sys.argv[1:]
    rc = 0
    try:
        if args == ["--mutations"]:
            patches = sorted((ROOT / "translator/mutations_lock").glob("*.diff")) + \
                sorted((p / "patch.diff" for p in (ROOT / "seeded").glob("C1[123]-m*") if "-as-" not in p.name),
                       key=lambda p: (p.parent.name[:3], int(p.parent.name.split("-m")[1])))
            for p in patches:
                name = p.parent.name if p.name == "patch.diff" else p.stem
                v = verdict(p)
                ok = v != "green" or name in KNOWN_GREEN
                print(f"{name} | {v}" + ("" if v != "green" else "  (expected: not lock-layer code)"
                                         if name in KNOWN_GREEN else "  NOT DETECTED"), flush=True)
                rc |= not ok
        else:
            patches = [Path(a) for a in args] or (sorted((ROOT / "translator/harmless_lock").glob("*.diff"))
                                                   + [ROOT / "harmless" / h / "patch.diff" for h in ("h5", "h6", "g5", "g6")])
            for p in patches:
                name = p.parent.name if p.name == "patch.diff" else p.stem
                v = verdict(p)
                print(f"{name} | {v}", flush=True)
                rc |= v != "green"
    finally:
        v = translate(Path("/repo/src"))
        if v != "green":
            print("UNCHANGED TREE:", v)
            rc = 1
    return rc


if __name__ == "__main__":
    sys.exit(main())
