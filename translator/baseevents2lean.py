"""baseevents2lean — the scheduling core of CPython's event loop, regenerated into
lean/Asynkit/Gen/BaseEvents.lean on every run (unit of py2lean; DESIGN §3.3 / §4) from the files of the
*running interpreter*: `asyncio/base_events.py` and `asyncio/events.py` (pure Python: there is no C
accelerator for the loop).  Their paths, sha256 and the Python version are recorded in the generated file.
For testing only, `ASYNKIT_STDLIB_BASE_EVENTS=<path>` / `ASYNKIT_STDLIB_EVENTS=<path>` substitute other files.

Translated, statement by statement, onto the kernel interface `Model/LoopStd.lean`:
  BaseEventLoop._call_soon, call_soon, call_soon_threadsafe, call_at, call_later,
  _timer_handle_cancelled, _run_once;  events.Handle.cancel, Handle._run, TimerHandle.cancel.
`Lemmas/GenEqLoopStd.lean` proves what the Sched model (C08/C10) assumes of them.

The translator is a CPS walk over statements (an `if` duplicates its continuation; locals are re-bound by
shadowing, the loop state is always `st`); every function returns `Except Exn (ρ × St Q ω)`.
  * `while c:` / `for x in <list>:` / `for i in range(n):` become auxiliary definitions by structural
    recursion (on a fuel argument, the list, `n`); `break` / `continue` are their exits; the variables
    assigned in the body that exist before the loop are carried; running out of fuel is `Exn.outOfFuel`
    (fuel = length of `self._scheduled` + 1: every trip of the two `while` loops pops it);
  * `L[0]` is only accepted where `L` is known non-empty (`while L and L[0]…`, inside `if L:` / `while L:`
    before `L` is mutated);
  * `try: … finally: …` runs the finally block on the normal path; on the exceptional path the exception
    propagates (the state is dropped with it);  `Handle._run`'s `try/except` is the case split on the
    `Outcome` of the primitive `invoke`;
  * values that only feed logging / `repr` / exception-handler contexts are *opaque*: they may be built and
    passed to the primitives `logger.warning`, `call_exception_handler`, nothing else.
Anything else raises `Unsupported` (the unit is then poisoned by py2lean).
"""
import ast
import hashlib
import importlib.util
import os
import platform
from fractions import Fraction
from pathlib import Path


class Unsupported(Exception):
    pass


LEAN_TY = {"bool": "Bool", "int": "Int", "nat": "Nat", "rat": "Rat", "optrat": "Option Rat", "handle": "Nat",
           "hlist": "List Nat"}
HANDLE_BOOL_ATTRS = {"_cancelled": "cancelled", "_scheduled": "scheduled"}
UNMODELLED_ATTRS = {"_repr", "_callback", "_args"}           # writes are invisible to the loop
EXNS = {"TypeError": ".typeError", "RuntimeError": ".runtimeError"}


def src_file(mod, envvar):
    p = os.environ.get(envvar)
    if p:
        return Path(p), True
    spec = importlib.util.find_spec(mod)
    if spec is None or not spec.origin or not spec.origin.endswith(".py"):
        raise Unsupported(f"{mod} of the running interpreter is not a Python source file: {spec and spec.origin}")
    return Path(spec.origin), False


def dotted(e):
    if isinstance(e, ast.Name):
        return e.id
    if isinstance(e, ast.Attribute):
        b = dotted(e.value)
        return None if b is None else f"{b}.{e.attr}"
    return None


def body_no_doc(fn):
    b = fn.body
    if b and isinstance(b[0], ast.Expr) and isinstance(getattr(b[0], "value", None), ast.Constant) \
            and isinstance(b[0].value.value, str):
        b = b[1:]
    return b


def rat_lit(fr: Fraction) -> str:
    if fr.denominator == 1:
        return f"({fr.numerator} : Rat)"
    return f"(({fr.numerator} : Rat) / {fr.denominator})"


def assigned_names(stmts):
    out = set()
    for s in stmts:
        for n in ast.walk(s):
            if isinstance(n, ast.Name) and isinstance(n.ctx, ast.Store):
                out.add(n.id)
            if isinstance(n, ast.Call) and isinstance(n.func, ast.Attribute) and n.func.attr in ("append", "pop", "clear") \
                    and isinstance(n.func.value, ast.Name):
                out.add(n.func.value.id)          # a local list mutated in place
    return out


class Ctx:
    def __init__(self, ret, brk=None, cont=None, in_loop=False):
        self.ret, self.brk, self.cont, self.in_loop = ret, brk, cont, in_loop


class FnTr:
    """one function; `self_kind` is "loop" (methods of BaseEventLoop) or "handle" (methods of Handle/TimerHandle)"""

    def __init__(self, unit, fn, lean_name, self_kind, params, ret_ty):
        self.unit, self.fn, self.lean, self.self_kind = unit, fn, lean_name, self_kind
        self.params, self.ret_ty = params, ret_ty       # params: [(python name, lean name, type)]
        self.aux = []
        self.loop_cache = {}
        self.n = 0

    # ------------------------------------------------------------------ helpers
    def fresh(self, base):
        self.n += 1
        return f"{base}{self.n}"

    def is_self(self, e):
        return isinstance(e, ast.Name) and e.id == self.selfname

    def loop_obj(self, e):
        """does `e` denote the event loop?"""
        if self.self_kind == "loop":
            return self.is_self(e)
        return dotted(e) == f"{self.selfname}._loop"

    def coerce(self, v, ty):
        t, k = v
        if k == ty:
            return t
        if ty == "int" and k == "nat":
            return f"({t} : Int)"
        if ty == "rat" and k in ("nat", "int"):
            return f"(({t} : {LEAN_TY[k]}) : Rat)" if k == "nat" else f"({t} : Rat)"
        if ty == "optrat":
            if k == "none":
                return "none"
            if k in ("nat", "int", "rat"):
                return f"(some {self.coerce(v, 'rat')})"
        raise Unsupported(f"cannot use a {k} as {ty}: {t}")

    @staticmethod
    def join(a, b):
        order = ["nat", "int", "rat"]
        if a in order and b in order:
            return order[max(order.index(a), order.index(b))]
        raise Unsupported(f"arithmetic on {a} and {b}")

    # ------------------------------------------------------------------ expressions
    def val(self, e, env):
        v = env["vars"]
        if isinstance(e, ast.Constant):
            if e.value is None:
                return ("none", "none")
            if isinstance(e.value, bool):
                return ("true" if e.value else "false", "bool")
            if isinstance(e.value, int):
                return (str(e.value), "nat") if e.value >= 0 else (f"({e.value})", "int")
            if isinstance(e.value, float):
                return (rat_lit(Fraction(e.value)), "rat")
            if isinstance(e.value, str):
                return ("", "opaque")
        if isinstance(e, ast.Name):
            if e.id in v:
                return v[e.id]
            if e.id in self.unit.consts:
                return self.unit.consts[e.id]
            raise Unsupported(f"name {e.id}")
        if isinstance(e, (ast.JoinedStr, ast.Dict)):
            return ("", "opaque")
        if isinstance(e, ast.List) and not e.elts:
            return ("[]", "hlist")
        if isinstance(e, ast.UnaryOp) and isinstance(e.op, ast.USub):
            t, k = self.val(e.operand, env)
            return (f"(-{self.coerce((t, k), 'int' if k == 'nat' else k)})", "int" if k == "nat" else k)
        if isinstance(e, ast.BinOp):
            a, b = self.val(e.left, env), self.val(e.right, env)
            if isinstance(e.op, ast.Div):
                return (f"({self.coerce(a, 'rat')} / {self.coerce(b, 'rat')})", "rat")
            op = {ast.Add: "+", ast.Sub: "-", ast.Mult: "*"}.get(type(e.op))
            if op is None:
                raise Unsupported("operator")
            ty = self.join(a[1], b[1])
            if op == "-" and ty == "nat":
                ty = "int"
            return (f"({self.coerce(a, ty)} {op} {self.coerce(b, ty)})", ty)
        if isinstance(e, ast.Call):
            f = e.func
            if isinstance(f, ast.Name) and f.id == "len" and len(e.args) == 1:
                a = e.args[0]
                if self.loop_obj(getattr(a, "value", None)) and a.attr == "_ready":
                    return ("(env.O.len st.ready)", "nat")
                t, k = self.val(a, env)
                if k == "hlist":
                    return (f"{t}.length", "nat")
                raise Unsupported("len of that")
            if isinstance(f, ast.Name) and f.id in ("min", "max") and len(e.args) == 2 and not e.keywords:
                a, b = self.val(e.args[0], env), self.val(e.args[1], env)
                ty = self.join(a[1], b[1])
                return (f"({f.id} {self.coerce(a, ty)} {self.coerce(b, ty)})", ty)
            if isinstance(f, ast.Attribute) and f.attr == "time" and self.loop_obj(f.value) and not e.args:
                return ("(env.time st)", "rat")
            if isinstance(f, ast.Attribute) and f.attr == "get_debug" and self.loop_obj(f.value) and not e.args:
                return ("st.debug", "bool")
            d = dotted(f)
            if d in ("repr", "_format_handle") or (d or "").startswith("format_helpers."):
                for a in e.args:
                    self.val(a, env)            # arguments must make sense
                return ("", "opaque")
        if isinstance(e, ast.Starred):
            return self.val(e.value, env)
        if isinstance(e, ast.Attribute):
            if self.loop_obj(e.value):
                m = {"_scheduled": ("st.sched", "hlist"), "_timer_cancelled_count": ("st.cancelledCount", "int"),
                     "_stopping": ("st.stopping", "bool"), "_debug": ("st.debug", "bool"),
                     "_clock_resolution": ("env.clockRes", "rat"), "slow_callback_duration": ("env.slowDur", "rat"),
                     "_ready": ("st.ready", "queue")}
                if e.attr in m:
                    return m[e.attr]
                raise Unsupported(f"loop attribute {e.attr}")
            t, k = self.val(e.value, env)
            if k == "handle":
                if e.attr in HANDLE_BOOL_ATTRS:
                    return (f"(st.info {t}).{HANDLE_BOOL_ATTRS[e.attr]}", "bool")
                if e.attr == "_when":
                    return (f"(st.info {t}).whenT", "rat")
                if e.attr == "_source_traceback":
                    return (f"(st.info {t}).tb", "bool")
                if e.attr in UNMODELLED_ATTRS or e.attr == "_context":
                    return ("", "opaque")
            raise Unsupported(f"attribute {e.attr} of a {k}")
        if isinstance(e, ast.Subscript) and isinstance(e.slice, ast.Constant) and e.slice.value == 0:
            t, k = self.val(e.value, env)
            if k == "hlist" and t in env["nonempty"]:
                return (f"({t}.headD 0)", "handle")
            raise Unsupported(f"[0] of a list that is not known to be non-empty: {t}")
        raise Unsupported(f"expression {ast.dump(e)[:90]}")

    def cond(self, e, env):
        """-> (Prop text, list expressions known non-empty when it holds)"""
        if isinstance(e, ast.UnaryOp) and isinstance(e.op, ast.Not):
            c, _ = self.cond(e.operand, env)
            return f"¬ ({c})", []
        if isinstance(e, ast.BoolOp):
            parts, ne = [], []
            cur = env
            for x in e.values:
                c, n = self.cond(x, cur)
                parts.append(f"({c})")
                if isinstance(e.op, ast.And):
                    ne += n
                    cur = {**cur, "nonempty": cur["nonempty"] | set(n)}
            return (" ∧ " if isinstance(e.op, ast.And) else " ∨ ").join(parts), (ne if isinstance(e.op, ast.And) else [])
        if isinstance(e, ast.Compare) and len(e.ops) == 1:
            sym = {ast.Lt: "<", ast.Gt: ">", ast.LtE: "≤", ast.GtE: "≥", ast.Eq: "=", ast.NotEq: "≠"}.get(type(e.ops[0]))
            if sym is not None:
                a, b = self.val(e.left, env), self.val(e.comparators[0], env)
                ty = self.join(a[1], b[1])
                return f"{self.coerce(a, ty)} {sym} {self.coerce(b, ty)}", []
        t, k = self.val(e, env)
        if k == "bool":
            return f"{t} = true", []
        if k == "hlist":
            return f"{t} ≠ []", [t]
        if k == "queue":
            return "env.O.len st.ready ≠ 0", []
        raise Unsupported(f"truth value of a {k}")

    # ------------------------------------------------------------------ statements
    def block(self, stmts, env, k, ind, ctx):
        if not stmts:
            return k(env, ind)
        s, rest = stmts[0], stmts[1:]

        def nxt(e, i):
            return self.block(rest, e, k, i, ctx)
        return self.stmt(s, env, nxt, ind, ctx)

    def bind(self, env, name, v):
        return {**env, "vars": {**env["vars"], name: v}}

    def mutated(self, env, lst):
        return {**env, "nonempty": env["nonempty"] - {lst}}

    def set_st(self, expr, env, nxt, ind):
        return f"{ind}let st := {expr}\n" + nxt(env, ind)

    def exc_match(self, expr, pat, env, nxt, ind):
        return (f"{ind}match {expr} with\n{ind}| .error e => .error e\n{ind}| .ok {pat} =>\n" + nxt(env, ind + "  "))

    def call_known(self, e, env):
        """a call of another translated function -> (lean application text, result type) or None"""
        f = e.func
        if not isinstance(f, ast.Attribute):
            return None
        # self.<method>(...) / self._loop.<method>(...) / super().cancel()
        tgt = None
        if self.loop_obj(f.value) and f.attr in self.unit.loop_fns:
            tgt = self.unit.loop_fns[f.attr]
            recv = None
        elif isinstance(f.value, ast.Call) and dotted(f.value.func) == "super" and f.attr in self.unit.super_fns.get(self.lean, {}):
            tgt = self.unit.super_fns[self.lean][f.attr]
            recv = env["vars"][self.selfname][0]
        elif f.attr in self.unit.handle_fns and self.val(f.value, env)[1] == "handle":
            tgt = self.unit.handle_fns[f.attr]
            recv = self.val(f.value, env)[0]
        if tgt is None:
            return None
        lean, sig, rty = tgt
        args = [recv] if recv is not None else []
        pos = list(e.args)
        for (pname, pty) in sig:
            a = pos.pop(0) if pos else None
            if pty is None:           # callback / args / context: not modelled
                continue
            if a is None:
                raise Unsupported(f"call of {lean}: missing {pname}")
            args.append(self.coerce(self.val(a, env), pty))
        return f"{lean} env {' '.join(args + ['st'])}".replace("  ", " "), rty

    def stmt(self, s, env, nxt, ind, ctx):
        if isinstance(s, ast.Pass):
            return nxt(env, ind)
        if isinstance(s, ast.Return):
            return ctx.ret(s.value, env, ind)
        if isinstance(s, ast.Break):
            if ctx.brk is None:
                raise Unsupported("break outside a loop")
            return ctx.brk(env, ind)
        if isinstance(s, ast.Continue):
            if ctx.cont is None:
                raise Unsupported("continue outside a loop")
            return ctx.cont(env, ind)
        if isinstance(s, ast.Raise):
            if s.exc is None:
                raise Unsupported("bare raise here")
            name = dotted(s.exc.func) if isinstance(s.exc, ast.Call) else dotted(s.exc)
            if name not in EXNS:
                raise Unsupported(f"raise {name}")
            return f"{ind}.error {EXNS[name]}"
        if isinstance(s, ast.Delete):
            t = s.targets[0]
            if len(s.targets) == 1 and isinstance(t, ast.Subscript) and isinstance(t.value, ast.Attribute) \
                    and t.value.attr == "_source_traceback" and self.val(t.value.value, env)[1] == "handle":
                return self.set_st(f"Prim.trimTb {self.val(t.value.value, env)[0]} st", env, nxt, ind)
            raise Unsupported("del")
        if isinstance(s, ast.If):
            return self.if_stmt(s, env, nxt, ind, ctx)
        if isinstance(s, ast.AugAssign):
            if isinstance(s.target, ast.Attribute) and self.loop_obj(s.target.value) \
                    and s.target.attr == "_timer_cancelled_count" and isinstance(s.op, (ast.Add, ast.Sub)):
                op = "+" if isinstance(s.op, ast.Add) else "-"
                d = self.coerce(self.val(s.value, env), "int")
                return self.set_st(f"{{ st with cancelledCount := st.cancelledCount {op} {d} }}", env, nxt, ind)
            raise Unsupported("augmented assignment")
        if isinstance(s, ast.Assign) and len(s.targets) == 1:
            return self.assign(s.targets[0], s.value, env, nxt, ind, ctx)
        if isinstance(s, ast.Expr) and isinstance(s.value, ast.Call):
            return self.expr_call(s.value, env, nxt, ind, ctx)
        if isinstance(s, ast.Try):
            return self.try_stmt(s, env, nxt, ind, ctx)
        if isinstance(s, ast.While):
            return self.while_stmt(s, env, nxt, ind, ctx)
        if isinstance(s, ast.For):
            return self.for_stmt(s, env, nxt, ind, ctx)
        raise Unsupported(f"statement {type(s).__name__}")

    def if_stmt(self, s, env, nxt, ind, ctx):
        t = s.test
        # `if X is None:` on an optional numeric parameter
        if isinstance(t, ast.Compare) and len(t.ops) == 1 and isinstance(t.ops[0], (ast.Is, ast.IsNot)) \
                and isinstance(t.comparators[0], ast.Constant) and t.comparators[0].value is None \
                and isinstance(t.left, ast.Name) and env["vars"].get(t.left.id, (None, None))[1] == "optrat":
            name = t.left.id
            nb, sb = (s.body, s.orelse) if isinstance(t.ops[0], ast.Is) else (s.orelse, s.body)
            v = self.fresh(name + "_")
            none_txt = self.block(nb, env, nxt, ind + "  ", ctx)
            some_txt = self.block(sb, self.bind(env, name, (v, "rat")), nxt, ind + "  ", ctx)
            # after the `if`, the continuation of the some-branch knows the value; the none-branch normally raised
            return (f"{ind}match {env['vars'][name][0]} with\n{ind}| none =>\n{none_txt}\n{ind}| some {v} =>\n{some_txt}")
        if self.val_is_opaque_test(t, env):
            # `if self._source_traceback:` around statements that only touch opaque values
            body_txt = self.block(s.body, env, nxt, ind, ctx)
            else_txt = self.block(s.orelse, env, nxt, ind, ctx)
            if body_txt != else_txt:
                raise Unsupported("a test on an unmodelled value matters")
            return body_txt
        c, ne = self.cond(t, env)
        env_t = {**env, "nonempty": env["nonempty"] | set(ne)}
        a = self.block(s.body, env_t, nxt, ind + "  ", ctx)
        b = self.block(s.orelse, env, nxt, ind + "  ", ctx)
        if a == b:                       # the test only guards invisible effects (tracebacks, repr)
            return self.block(s.orelse, env, nxt, ind, ctx)
        return f"{ind}if {c} then\n{a}\n{ind}else\n{b}"

    def val_is_opaque_test(self, t, env):
        try:
            return self.val(t, env)[1] == "opaque"
        except Unsupported:
            return False

    def assign(self, tgt, value, env, nxt, ind, ctx):
        # ---- targets that are not plain names
        if isinstance(tgt, ast.Attribute):
            if self.loop_obj(tgt.value):
                if tgt.attr == "_scheduled":
                    t = self.coerce(self.val(value, env), "hlist")
                    return self.set_st(f"{{ st with sched := {t} }}", self.mutated(env, "st.sched"), nxt, ind)
                if tgt.attr == "_timer_cancelled_count":
                    return self.set_st(f"{{ st with cancelledCount := {self.coerce(self.val(value, env), 'int')} }}", env, nxt, ind)
                if tgt.attr == "_current_handle":
                    v = self.val(value, env)
                    if v[1] == "none":
                        return self.set_st("{ st with cur := none }", env, nxt, ind)
                    if v[1] == "handle":
                        return self.set_st(f"{{ st with cur := some {v[0]} }}", env, nxt, ind)
                raise Unsupported(f"assignment to loop attribute {tgt.attr}")
            o = self.val(tgt.value, env)
            if o[1] == "handle":
                if tgt.attr in HANDLE_BOOL_ATTRS:
                    b = self.coerce(self.val(value, env), "bool")
                    fn = {"_cancelled": "setCancelled", "_scheduled": "setScheduled"}[tgt.attr]
                    return self.set_st(f"Prim.{fn} {o[0]} {b} st", env, nxt, ind)
                if tgt.attr in UNMODELLED_ATTRS:
                    if self.val(value, env)[1] not in ("none", "opaque"):
                        raise Unsupported(f"{tgt.attr} := a modelled value")
                    return nxt(env, ind)
            raise Unsupported(f"assignment to attribute {tgt.attr}")
        if isinstance(tgt, ast.Subscript):
            if self.val(tgt.value, env)[1] == "opaque":
                self.val(value, env)
                return nxt(env, ind)
            raise Unsupported("subscript assignment")
        if not isinstance(tgt, ast.Name):
            raise Unsupported("assignment target")
        name = tgt.id
        if name == self.selfname:
            if isinstance(value, ast.Constant) and value.value is None:
                return nxt(env, ind)             # `self = None  # break cycles`
            raise Unsupported("assignment to self")
        # ---- values with an effect
        if isinstance(value, ast.Call):
            d = dotted(value.func)
            if d == "events.Handle":
                r = self.fresh("r")
                return (f"{ind}let {r} := Prim.newHandle st\n{ind}let {name} := {r}.1\n{ind}let st := {r}.2\n"
                        + nxt(self.bind(env, name, (name, "handle")), ind))
            if d == "events.TimerHandle":
                w = self.coerce(self.val(value.args[0], env), "rat")
                r = self.fresh("r")
                return (f"{ind}let {r} := Prim.newTimer {w} st\n{ind}let {name} := {r}.1\n{ind}let st := {r}.2\n"
                        + nxt(self.bind(env, name, (name, "handle")), ind))
            if d == "heapq.heappop" and len(value.args) == 1 and self.val(value.args[0], env) == ("st.sched", "hlist"):
                s2 = self.fresh("sched")
                return (f"{ind}match env.H.pop (Prim.timerLt st.info) st.sched with\n{ind}| none => .error .indexError\n"
                        f"{ind}| some ({name}, {s2}) =>\n{ind}  let st := {{ st with sched := {s2} }}\n"
                        + nxt(self.bind(self.mutated(env, "st.sched"), name, (name, "handle")), ind + "  "))
            f = value.func
            if isinstance(f, ast.Attribute) and f.attr == "popleft" and isinstance(f.value, ast.Attribute) \
                    and f.value.attr == "_ready" and self.loop_obj(f.value.value) and not value.args:
                r2 = self.fresh("ready")
                return (f"{ind}match env.O.popleft st.ready with\n{ind}| none => .error .indexError\n"
                        f"{ind}| some ({name}, {r2}) =>\n{ind}  let st := {{ st with ready := {r2} }}\n"
                        + nxt(self.bind(env, name, (name, "handle")), ind + "  "))
            if isinstance(f, ast.Attribute) and f.attr == "select" and dotted(f.value) == f"{self.selfname}._selector" \
                    and len(value.args) == 1:
                t = self.coerce(self.val(value.args[0], env), "optrat")
                return self.set_st(f"Prim.select env {t} st", self.bind(env, name, ("", "events")), nxt, ind)
            known = self.call_known(value, env)
            if known is not None:
                app, rty = known
                if rty == "handle":
                    return self.exc_match(app, f"({name}, st)", self.bind(env, name, (name, "handle")), nxt, ind)
                raise Unsupported("value of a call that returns nothing")
        v = self.val(value, env)
        if v[1] in ("none", "opaque", "events"):
            return nxt(self.bind(env, name, v), ind)
        if v[1] in LEAN_TY:
            return f"{ind}let {name} : {LEAN_TY[v[1]]} := {v[0]}\n" + nxt(self.bind(env, name, (name, v[1])), ind)
        raise Unsupported(f"assignment of a {v[1]}")

    def expr_call(self, e, env, nxt, ind, ctx):
        f = e.func
        d = dotted(f)
        if isinstance(f, ast.Attribute) and self.loop_obj(f.value):
            if f.attr == "_check_closed" and not e.args:
                return self.exc_match("Prim.checkClosed st", "_", env, nxt, ind)
            if f.attr == "_check_thread" and not e.args:
                return self.exc_match("Prim.checkThread env st", "_", env, nxt, ind)
            if f.attr == "_check_callback":
                return self.exc_match("Prim.checkCallback env st", "_", env, nxt, ind)
            if f.attr == "_write_to_self" and not e.args:
                return self.set_st("Prim.writeToSelf st", env, nxt, ind)
            if f.attr == "_process_events" and len(e.args) == 1 and self.val(e.args[0], env)[1] == "events":
                return self.set_st("env.processEvents st", env, nxt, ind)
            if f.attr == "call_exception_handler" and len(e.args) == 1 and self.val(e.args[0], env)[1] == "opaque":
                return self.set_st(f"env.excHandler {env['vars'][self.selfname][0]} st", env, nxt, ind)
        if d == "heapq.heappush" and len(e.args) == 2 and self.val(e.args[0], env) == ("st.sched", "hlist"):
            h = self.coerce(self.val(e.args[1], env), "handle")
            return self.set_st(f"{{ st with sched := env.H.push (Prim.timerLt st.info) st.sched {h} }}", env, nxt, ind)
        if d == "heapq.heapify" and len(e.args) == 1 and isinstance(e.args[0], ast.Name) \
                and env["vars"].get(e.args[0].id, (None, None))[1] == "hlist":
            n = e.args[0].id
            return (f"{ind}let {n} := env.H.heapify (Prim.timerLt st.info) {env['vars'][n][0]}\n"
                    + nxt(self.bind(env, n, (n, "hlist")), ind))
        if d == "logger.warning":
            hs = [a for a in ast.walk(e) if isinstance(a, ast.Name) and env["vars"].get(a.id, (None, None))[1] == "handle"]
            if len({h.id for h in hs}) != 1:
                raise Unsupported("logger.warning about which handle?")
            return self.set_st(f"Prim.slowWarning {env['vars'][hs[0].id][0]} st", env, nxt, ind)
        if isinstance(f, ast.Attribute) and f.attr == "append" and len(e.args) == 1:
            if isinstance(f.value, ast.Attribute) and f.value.attr == "_ready" and self.loop_obj(f.value.value):
                h = self.coerce(self.val(e.args[0], env), "handle")
                return self.set_st(f"{{ st with ready := env.O.append st.ready (env.pri st {h}) {h} }}", env, nxt, ind)
            if isinstance(f.value, ast.Name) and env["vars"].get(f.value.id, (None, None))[1] == "hlist":
                n = f.value.id
                h = self.coerce(self.val(e.args[0], env), "handle")
                return (f"{ind}let {n} := {env['vars'][n][0]} ++ [{h}]\n" + nxt(self.bind(env, n, (n, "hlist")), ind))
        known = self.call_known(e, env)
        if known is not None:
            app, rty = known
            return self.exc_match(app, "(_, st)", env, nxt, ind)
        raise Unsupported(f"call {ast.dump(f)[:80]}")

    def try_stmt(self, s, env, nxt, ind, ctx):
        if s.finalbody and not s.handlers and not s.orelse:
            # normal path: body, finally, rest; exceptional path: the exception propagates
            def after_body(e, i):
                return f"{i}.ok st"
            inner_ctx = Ctx(ret=self.no_return, brk=None, cont=None)
            body = self.block(s.body, env, after_body, ind + "    ", inner_ctx)
            fin = self.block(s.finalbody, env, nxt, ind + "  ", ctx)
            return (f"{ind}match (show Except Exn (St Q ω) from\n{body}) with\n{ind}| .error e => .error e\n"
                    f"{ind}| .ok st =>\n{fin}")
        # Handle._run: try: self._context.run(self._callback, *self._args) except (SystemExit, KeyboardInterrupt): raise
        #              except BaseException as exc: <report>
        if self.self_kind == "handle" and len(s.body) == 1 and isinstance(s.body[0], ast.Expr) \
                and isinstance(s.body[0].value, ast.Call) and dotted(s.body[0].value.func) == f"{self.selfname}._context.run" \
                and len(s.handlers) == 2 and not s.orelse and not s.finalbody:
            call = s.body[0].value
            if not (len(call.args) == 2 and dotted(call.args[0]) == f"{self.selfname}._callback"
                    and isinstance(call.args[1], ast.Starred) and dotted(call.args[1].value) == f"{self.selfname}._args"):
                raise Unsupported("Handle._run does not run self._callback(*self._args) in self._context")
            h1, h2 = s.handlers
            names1 = {dotted(x) for x in (h1.type.elts if isinstance(h1.type, ast.Tuple) else [h1.type])}
            if names1 != {"SystemExit", "KeyboardInterrupt"} or not (len(h1.body) == 1 and isinstance(h1.body[0], ast.Raise)
                                                                     and h1.body[0].exc is None):
                raise Unsupported("Handle._run: first handler is not `except (SystemExit, KeyboardInterrupt): raise`")
            if dotted(h2.type) != "BaseException":
                raise Unsupported("Handle._run: second handler is not `except BaseException`")
            env2 = self.bind(env, h2.name, ("", "opaque")) if h2.name else env
            me = env["vars"][self.selfname][0]
            ok = nxt(env, ind + "  ")
            exc = self.block(h2.body, env2, nxt, ind + "  ", ctx)
            return (f"{ind}match env.invoke {me} st with\n{ind}| .exit _ => .error .exit\n"
                    f"{ind}| .ok st =>\n{ok}\n{ind}| .exc st =>\n{exc}")
        raise Unsupported("this form of try")

    def no_return(self, v, env, ind):
        raise Unsupported("return inside try/finally or a loop")

    # ------------------------------------------------------------------ loops
    def loop_common(self, body, env, extra_targets=()):
        """carried variables (assigned in the body, alive before the loop) and the outer variables"""
        assigned = assigned_names(body)
        carried = [n for n in env["vars"] if n in assigned and n not in extra_targets and env["vars"][n][1] in LEAN_TY]
        return carried, None

    def tuple_of(self, names, env=None):
        items = ["st"] + [(env["vars"][n][0] if env else n) for n in names]
        return items[0] if len(items) == 1 else "(" + ", ".join(items) + ")"

    def acc_ty(self, carried, env):
        return " × ".join(["St Q ω"] + [LEAN_TY[env["vars"][n][1]] for n in carried])

    def emit_loop(self, kind, s, env, nxt, ind, ctx, iter_expr, head_pat, cond=None, elem=None):
        if s.orelse:
            raise Unsupported("loop else")
        targets = (elem,) if elem else ()
        carried, _ = self.loop_common(s.body, env, targets)
        # outer variables: only those the loop reads (so that the copies of one loop made by the duplicated
        # continuations of earlier `if`s are textually identical, and emitted once)
        read = {n.id for x in ([cond] if cond is not None else []) + list(s.body) for n in ast.walk(x)
                if isinstance(n, ast.Name) and isinstance(n.ctx, ast.Load)}
        outer = [n for n in env["vars"] if n in read and n not in carried and n not in targets
                 and env["vars"][n][1] in LEAN_TY]
        key = (id(s), tuple((n, env["vars"][n][1]) for n in outer), tuple((n, env["vars"][n][1]) for n in carried))
        cached = self.loop_cache.get(key)
        if cached is not None:
            name = cached
            outer_args = "".join(f" {env['vars'][n][0]}" for n in outer)
            env2 = env
            for n in carried:
                env2 = self.bind(env2, n, (n, env["vars"][n][1]))
            env2 = {**env2, "nonempty": set()}
            call = f"{name} env{outer_args} {iter_expr} {self.tuple_of(carried, env)}"
            return (f"{ind}match {call} with\n{ind}| .error e => .error e\n{ind}| .ok {self.tuple_of(carried)} =>\n"
                    + nxt(env2, ind + "  "))
        name = f"{self.lean}_loop{len(self.aux) + 1}"
        self.loop_cache[key] = name
        self.aux.append(None)                      # reserve the number (nested loops come later)
        slot = len(self.aux) - 1
        acc_ty = self.acc_ty(carried, env)
        # inside the auxiliary definition the carried and outer variables are parameters named after themselves
        inner_vars = dict(env["vars"])
        for n in carried + outer:
            inner_vars[n] = (n, env["vars"][n][1])
        if elem:
            inner_vars[elem] = (elem, "handle")
        inner = {"vars": inner_vars, "nonempty": set()}
        outer_params = "".join(f" ({n} : {LEAN_TY[env['vars'][n][1]]})" for n in outer)
        outer_args = "".join(f" {env['vars'][n][0]}" for n in outer)
        rec_args = "".join(f" {n}" for n in outer)

        def again(e, i):
            return f"{i}{name} env{rec_args} {head_pat[1]} {self.tuple_of(carried, e)}"

        def leave(e, i):
            return f"{i}.ok {self.tuple_of(carried, e)}"
        lctx = Ctx(ret=self.no_return, brk=leave, cont=again, in_loop=True)
        if cond is not None:
            c, ne = self.cond(cond, inner)
            inner_t = {**inner, "nonempty": set(ne)}
            body = self.block(s.body, inner_t, again, "      ", lctx)
            step = f"    if {c} then\n{body}\n    else\n      .ok {self.tuple_of(carried)}"
        else:
            step = self.block(s.body, inner, again, "    ", lctx)
        zero = {"fuel": f"  | 0, _ => .error .outOfFuel", "list": f"  | [], acc => .ok acc", "nat": f"  | 0, acc => .ok acc"}[kind]
        iter_ty = {"fuel": "Nat", "list": "List Nat", "nat": "Nat"}[kind]
        text = (f"def {name} {{Q ω : Type}} (env : Env Q ω){outer_params} : {iter_ty} → {acc_ty} → Except Exn ({acc_ty})\n"
                f"{zero}\n  | {head_pat[0]}, {self.tuple_of(carried)} =>\n{step}\n")
        self.aux[slot] = text
        # the call site
        env2 = env
        for n in carried:
            env2 = self.bind(env2, n, (n, env["vars"][n][1]))
        env2 = {**env2, "nonempty": set()}
        call = f"{name} env{outer_args} {iter_expr} {self.tuple_of(carried, env)}"
        return (f"{ind}match {call} with\n{ind}| .error e => .error e\n{ind}| .ok {self.tuple_of(carried)} =>\n"
                + nxt(env2, ind + "  "))

    def while_stmt(self, s, env, nxt, ind, ctx):
        # fuel: the two while loops of _run_once pop `self._scheduled` on every trip
        return self.emit_loop("fuel", s, env, nxt, ind, ctx, "(st.sched.length + 1)", ("fuel + 1", "fuel"), cond=s.test)

    def for_stmt(self, s, env, nxt, ind, ctx):
        it = s.iter
        if isinstance(it, ast.Call) and dotted(it.func) == "range" and len(it.args) == 1 and isinstance(s.target, ast.Name):
            if s.target.id in {n.id for n in ast.walk(ast.Module(body=s.body, type_ignores=[])) if isinstance(n, ast.Name)}:
                raise Unsupported("the range index is used")
            n = self.coerce(self.val(it.args[0], env), "nat")
            return self.emit_loop("nat", s, env, nxt, ind, ctx, n, ("n + 1", "n"))
        v = self.val(it, env)
        if v[1] == "hlist" and isinstance(s.target, ast.Name):
            return self.emit_loop("list", s, env, nxt, ind, ctx, v[0], (f"{s.target.id} :: rest_", "rest_"), elem=s.target.id)
        raise Unsupported("for loop over that")

    # ------------------------------------------------------------------ whole function
    def translate(self):
        a = self.fn.args
        self.selfname = a.args[0].arg
        vars_ = {}
        if self.self_kind == "handle":
            vars_[self.selfname] = (self.selfname, "handle")
        else:
            vars_[self.selfname] = ("", "loopobj")
        for (py, lean, ty) in self.params:
            if ty is not None:
                vars_[py] = (lean, ty)
        env = {"vars": vars_, "nonempty": set()}

        def ret(v, e, ind):
            if self.ret_ty == "unit":
                if v is not None and not (isinstance(v, ast.Constant) and v.value is None):
                    raise Unsupported("unexpected return value")
                return f"{ind}.ok ((), st)"
            return f"{ind}.ok ({self.coerce(self.val(v, e), 'handle')}, st)"

        def end(e, ind):
            if self.ret_ty != "unit":
                raise Unsupported("falls off the end without returning the handle")
            return f"{ind}.ok ((), st)"
        body = self.block(body_no_doc(self.fn), env, end, "  ", Ctx(ret=ret))
        ps = "".join(f" ({lean} : {LEAN_TY[ty]})" for (_, lean, ty) in self.params if ty is not None)
        recv = f" ({self.selfname} : Nat)" if self.self_kind == "handle" else ""
        rty = "Unit" if self.ret_ty == "unit" else "Nat"
        head = f"def {self.lean} {{Q ω : Type}} (env : Env Q ω){recv}{ps} (st : St Q ω) : Except Exn ({rty} × St Q ω) :=\n"
        return "".join(t + "\n" for t in self.aux) + head + body + "\n"


class Unit:
    def __init__(self, be_tree, ev_tree):
        self.be, self.ev = be_tree, ev_tree
        self.consts = {}
        for n in be_tree.body:
            if isinstance(n, ast.Assign) and len(n.targets) == 1 and isinstance(n.targets[0], ast.Name):
                try:
                    v = eval(compile(ast.Expression(n.value), "<const>", "eval"), {"__builtins__": {}})
                except Exception:  # noqa: BLE001
                    continue
                if isinstance(v, bool):
                    continue
                if isinstance(v, int):
                    self.consts[n.targets[0].id] = (str(v), "nat") if v >= 0 else (f"({v})", "int")
                elif isinstance(v, float):
                    self.consts[n.targets[0].id] = (rat_lit(Fraction(v)), "rat")
        # (lean name, [(param, type or None = not modelled)], result)
        self.loop_fns = {}
        self.handle_fns = {}
        self.super_fns = {}

    def find(self, tree, cls, name):
        for n in ast.walk(tree):
            if isinstance(n, ast.ClassDef) and n.name == cls:
                for m in n.body:
                    if isinstance(m, ast.FunctionDef) and m.name == name:
                        return m
        raise Unsupported(f"{cls}.{name} not found")


def generate(src=None) -> dict:
    be_path, be_sub = src_file("asyncio.base_events", "ASYNKIT_STDLIB_BASE_EVENTS")
    ev_path, ev_sub = src_file("asyncio.events", "ASYNKIT_STDLIB_EVENTS")
    be_text, ev_text = be_path.read_text(), ev_path.read_text()
    u = Unit(ast.parse(be_text), ast.parse(ev_text))
    out = []

    def do(tree, cls, name, lean, kind, params, rty):
        fn = u.find(tree, cls, name)
        # the python parameters after self must be the ones the plan names, in order
        names = [a.arg for a in fn.args.args][1:]
        want = [p[0] for p in params]
        if names[:len(want)] != want:
            raise Unsupported(f"{cls}.{name}: parameters {names}, expected {want}")
        tr = FnTr(u, fn, lean, kind, params, rty)
        out.append(f"/-- `{cls}.{name}` -/\n" + tr.translate())
        sig = [(p[0], p[2]) for p in params]
        return (lean, sig, rty)

    NM = None   # not modelled
    # events.py: Handle / TimerHandle
    u.handle_fns["_run"] = do(u.ev, "Handle", "_run", "handleRun", "handle", [], "unit")
    hc = do(u.ev, "Handle", "cancel", "handleCancel", "handle", [], "unit")
    # base_events.py
    u.loop_fns["_timer_handle_cancelled"] = do(u.be, "BaseEventLoop", "_timer_handle_cancelled", "timerHandleCancelled",
                                               "loop", [("handle", "handle", "handle")], "unit")
    u.super_fns["timerHandleCancel"] = {"cancel": hc}
    tc = do(u.ev, "TimerHandle", "cancel", "timerHandleCancel", "handle", [], "unit")
    u.loop_fns["_call_soon"] = do(u.be, "BaseEventLoop", "_call_soon", "callSoonInner", "loop",
                                  [("callback", "", NM), ("args", "", NM), ("context", "", NM)], "handle")
    do(u.be, "BaseEventLoop", "call_soon", "callSoon", "loop", [("callback", "", NM)], "handle")
    do(u.be, "BaseEventLoop", "call_soon_threadsafe", "callSoonThreadsafe", "loop", [("callback", "", NM)], "handle")
    u.loop_fns["call_at"] = do(u.be, "BaseEventLoop", "call_at", "callAt", "loop",
                               [("when", "when", "optrat"), ("callback", "", NM)], "handle")
    do(u.be, "BaseEventLoop", "call_later", "callLater", "loop", [("delay", "delay", "optrat"), ("callback", "", NM)], "handle")
    do(u.be, "BaseEventLoop", "_run_once", "runOnce", "loop", [], "unit")
    _ = tc

    def stamp(p, text, sub):
        return f"{p}{' (SUBSTITUTED for testing)' if sub else ''}  sha256 {hashlib.sha256(text.encode()).hexdigest()}"
    header = (
        "-- GENERATED by translator/baseevents2lean.py — do not edit\n"
        f"-- from {stamp(be_path, be_text, be_sub)}\n"
        f"--      {stamp(ev_path, ev_text, ev_sub)}\n"
        f"--      Python {platform.python_version()} ({platform.python_implementation()})\n"
        "import Asynkit.Model.LoopStd\n"
        "namespace Asynkit.Gen.BaseEvents\n"
        "open Asynkit Asynkit.LoopStd\n\n")
    return {"BaseEvents.lean": header + "\n".join(out) + "end Asynkit.Gen.BaseEvents\n"}


if __name__ == "__main__":
    print(generate()["BaseEvents.lean"])
