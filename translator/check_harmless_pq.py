#!/usr/bin/env python3
"""Regression set for the translational tie of tools.PriorityQueue: behaviour-preserving
refactorings that must keep `Asynkit.Lemmas.GenEqPQ` proving.

For every `translator/harmless_pq/*.diff` (and every `harmless/*/patch.diff` that touches
`src/asynkit/tools.py`): scratch copy of the repository's HEAD, `git apply`, (with --tests) the
repository's own container tests against the patched tree, regenerate `lean/Asynkit/Gen` from it,
`lake build Asynkit.Lemmas.GenEqPQ`.  The generated files of the real repository are restored at
the end.  Exit 0 iff every refactoring translates and proves.

usage: translator/check_harmless_pq.py [--tests] [name-substring ...]
"""
import os
import re
import subprocess
import sys
import tempfile
from pathlib import Path

ROOT = Path(__file__).resolve().parent.parent
REPO = Path(os.environ.get("GENPQ_BASE_REPO", "/repo"))
PY = os.environ.get("GENPQ_PYTHON", "/venv/bin/python" if Path("/venv/bin/python").exists() else sys.executable)


def sh(cmd, **kw):
    p = subprocess.run(cmd, stdout=subprocess.PIPE, stderr=subprocess.STDOUT, text=True, **kw)
    return p.returncode, p.stdout


def run_tests_in(d):
    """(failed test ids, summary line) of the repository's container tests against tree `d`"""
    env = dict(os.environ, PYTHONPATH=f"{d}/src")
    rc, out = sh([PY, "-m", "pytest", "-q", "-rf", "-p", "no:cacheprovider", "tests/test_tools.py",
                  "tests/experimental/test_priority.py"], cwd=d, env=env)
    failed = frozenset(re.findall(r"^FAILED (\S+)", out, re.M))
    m = re.search(r"(\d+) passed", out)
    return failed, int(m.group(1)) if m else 0


def main():
    args = [a for a in sys.argv[1:] if not a.startswith("--")]
    run_tests = "--tests" in sys.argv
    patches = sorted((ROOT / "translator/harmless_pq").glob("*.diff"))
    patches += [p for p in sorted((ROOT / "harmless").glob("*/patch.diff")) if "src/asynkit/tools.py" in p.read_text()]
    if args:
        patches = [p for p in patches if any(a in str(p) for a in args)]
    bad = 0
    base = None
    if run_tests:
        with tempfile.TemporaryDirectory(prefix="harmless_pq_") as d:
            subprocess.run(f"git -C {REPO} archive HEAD | tar -x -C {d}", shell=True, check=True)
            base = run_tests_in(d)      # some tests do not start under the pinned anyio: compare with the base tree
    for p in patches:
        name = p.stem if p.parent.name == "harmless_pq" else f"harmless/{p.parent.name}"
        with tempfile.TemporaryDirectory(prefix="harmless_pq_") as d:
            subprocess.run(f"git -C {REPO} archive HEAD | tar -x -C {d}", shell=True, check=True)
            rc, out = sh(["git", "apply", str(p)], cwd=d)
            if rc:
                print(f"{name}: PATCH DOES NOT APPLY\n{out}")
                bad += 1
                continue
            tests = ""
            if run_tests:
                got = run_tests_in(d)
                same = got == base
                tests = f" | tests: {'same as base' if same else 'DIFFER from base'} ({got[1]} passed, {len(got[0])} failed)"
                if not same:
                    bad += 1
            rc, out = sh([sys.executable, str(ROOT / "translator/py2lean.py"), f"{d}/src", str(ROOT / "lean/Asynkit/Gen")])
            uns = re.findall(r"pq2lean: UNSUPPORTED (.*)", out) + re.findall(r"CANNOT TRANSLATE \[tools.PriorityQueue\]: (.*)", out)
            rc, out = sh(["lake", "build", "Asynkit.Lemmas.GenEqPQ"], cwd=ROOT / "lean")
            if uns:
                print(f"{name}: TRANSLATOR REFUSES: {'; '.join(u[:150] for u in uns)}{tests}")
                bad += 1
            elif rc:
                errs = re.findall(r"error: (Asynkit/\S+?:\d+):\d+: (.*)", out)
                print(f"{name}: DOES NOT PROVE: " + "; ".join(f"{w} {m[:60]}" for w, m in errs[:4]) + tests)
                bad += 1
            else:
                print(f"{name}: translates and proves{tests}")
    sh([sys.executable, str(ROOT / "translator/py2lean.py"), str(REPO / "src"), str(ROOT / "lean/Asynkit/Gen")])
    sh(["lake", "build", "Asynkit.Lemmas.GenEqPQ"], cwd=ROOT / "lean")
    print(f"{len(patches) - bad}/{len(patches)} refactorings keep the tie" if patches else "no patches")
    return 1 if bad else 0


if __name__ == "__main__":
    sys.exit(main())
