#!/usr/bin/env python3
"""heapq2lean — statement-level translation of the pure-Python `heapq` of the *running* interpreter.

CPython's `heapq` module is the file `heapq.py` (`heappush`, `heappop`, `heapify`, `_siftdown`,
`_siftup`); `from _heapq import *` at its end replaces the public functions by the C accelerator,
which is documented to compute the same thing.  `generate()` reads that file
(`importlib.util.find_spec("heapq").origin`; `ASYNKIT_HEAPQ_SRC=<file>` substitutes another one,
for self-validation only), translates the five functions with the generic statement translator of
`pq2lean.py` (class `Fn`; module functions instead of methods: `ModFn`) and emits
`Asynkit/Gen/Heapq.lean`.  `Asynkit/Lemmas/GenEqHeapq.lean` proves them equal to the hand-written
`Asynkit.Cpy.*` (`Model/Heap.lean`) that `cpyHeap_lawful` is about.

What differs from a method of a class:
  * no object state: the list parameters (`heap`, `x`) are mutated in place, so a function returns
    `Except Exc ρ × List α` — the result and the list as the call left it (also on an exception);
  * parameters carry no annotations: a parameter used as a container is a `List α`, one used in
    index arithmetic is a Python `int` (`Int`), any other is an element (`α`);
  * `a < b` on elements is the parameter `lt` (`heapq` uses nothing else);
  * a call of another function of the module passes the list by reference (`match f lt heap … with`);
  * `while c:` becomes an auxiliary definition by structural recursion on a fuel argument.  The
    fuel is derived from the loop condition (`A > B` / `A < B` on integers: |A − B| + 1 — every
    trip must move the two closer); running out is the exception `Exc.outOfFuel`, and the
    equality proofs, whose right-hand sides cannot raise it, show it never happens;
  * `for i in reversed(range(n))` iterates `(List.range n).reverse`.
"""
import ast
import hashlib
import importlib.util
import os
import platform
import sys
from pathlib import Path

_main = sys.modules.get("__main__")
sys.path.insert(0, str(Path(__file__).resolve().parent))
import pq2lean  # noqa: E402
from pq2lean import (Fn, Env, Ctx, Val, Leaf, Let, If, Match, Final, Unsupported, atom, lean_ty,  # noqa: E402
                     body_no_doc)

FUNCS = ["_siftdown", "_siftup", "heappush", "heappop", "heapify"]
LEAN_NAMES = {"_siftdown": "siftdown", "_siftup": "siftup"}
BINDERS = "{α : Type} (lt : α → α → Bool)"


def heapq_source():
    p = os.environ.get("ASYNKIT_HEAPQ_SRC")
    if p:
        return Path(p), True
    spec = importlib.util.find_spec("heapq")
    if spec is None or not spec.origin or not spec.origin.endswith(".py"):
        raise Unsupported(f"heapq of the running interpreter is not a Python source file: {spec and spec.origin}")
    return Path(spec.origin), False


def param_kinds(fn):
    """list / int / elem for every parameter, from how the body uses it"""
    names = [a.arg for a in fn.args.args]
    kind = {}
    parent = {}
    for n in ast.walk(fn):
        for c in ast.iter_child_nodes(n):
            parent[c] = n
    for n in ast.walk(fn):
        if not (isinstance(n, ast.Name) and n.id in names):
            continue
        p = parent.get(n)
        k = None
        if isinstance(p, ast.Subscript) and p.value is n:
            k = "list"
        elif isinstance(p, ast.Attribute) and p.value is n and p.attr in ("append", "pop", "extend", "clear", "sort"):
            k = "list"
        elif isinstance(p, ast.Call) and isinstance(p.func, ast.Name) and p.func.id == "len" and n in p.args:
            k = "list"
        elif isinstance(p, ast.If) and p.test is n:
            k = "list"                                        # `if heap:`
        elif isinstance(p, ast.Call) and isinstance(p.func, ast.Name) and p.func.id in FUNCS and p.args and p.args[0] is n:
            k = "list"
        elif isinstance(p, ast.Call) and isinstance(p.func, ast.Name) and p.func.id in FUNCS and n in p.args[1:]:
            k = "int"
        elif isinstance(p, ast.BinOp) or isinstance(p, ast.Subscript) and p.slice is n:
            k = "int"
        elif isinstance(p, ast.Compare):
            k = "int?"                                        # decided by the other operand; weak evidence
        if k is None:
            continue
        old = kind.get(n.id)
        if k == "int?":
            if old is None:
                kind[n.id] = "int?"
        elif old in (None, "int?"):
            kind[n.id] = k
        elif old != k:
            raise Unsupported(f"parameter {n.id} is used both as a {old} and as a {k}")
    out = []
    for a in names:
        k = kind.get(a)
        out.append((a, {"list": ("list", "elem"), "int": "int", "int?": "int", None: "elem"}[k]))
    return out


class ModFn(Fn):
    """one module-level function"""
    BINDERS = BINDERS
    FIX = "lt"

    def __init__(self, module, fn, helpers):
        super().__init__(ast.ClassDef(name="heapq", body=[], bases=[], keywords=[], decorator_list=[]), fn, helpers, module)
        self.lean_name = LEAN_NAMES.get(fn.name, fn.name)
        self.selfname = "\0no-object"
        self.list_params = []

    # -- results: (outcome, the list parameters as they are now)
    def lists_now(self, env):
        parts = []
        for n in self.list_params:
            if n not in env.lists or n in env.dead:
                raise Unsupported(f"the list parameter {n} was re-bound")
            parts.append(env.lists[n][0])
        return parts[0] if len(parts) == 1 else "(" + ", ".join(parts) + ")"

    def final(self, kind, val, env):
        st = self.lists_now(env)
        if kind == "raise":
            return Final(self, self.depth, lambda: f"(.error {val}, {st})", "raise", val)
        return Final(self, self.depth, lambda: f"(.ok {self.render_ret(val)}, {st})", "ret", val)

    @staticmethod
    def assigned_in(stmts):
        """… and a list handed to another function of the module may be changed by it"""
        names = Fn.assigned_in(stmts)
        for st in stmts:
            for n in ast.walk(st):
                if isinstance(n, ast.Call) and isinstance(n.func, ast.Name) and n.func.id in FUNCS:
                    names |= {a.id for a in n.args if isinstance(a, ast.Name)}
        return names

    # -- expressions
    def compare(self, op, a, b):
        if a.ty == "elem" and b.ty == "elem":
            if isinstance(op, ast.Lt):
                return Val(f"(lt {atom(a.lean)} {atom(b.lean)})", "bool")
            if isinstance(op, ast.Gt):
                return Val(f"(lt {atom(b.lean)} {atom(a.lean)})", "bool")
            raise Unsupported("only < is used on heap elements")
        return super().compare(op, a, b)

    def call(self, e, env, k):
        f = e.func
        if isinstance(f, ast.Name) and f.id in self.helpers and f.id not in env.vars and f.id not in env.lists:
            return self.module_call(f.id, e, env, k)
        if isinstance(f, ast.Name) and f.id in FUNCS:
            raise Unsupported(f"call of {f.id}, which was not translated (yet)")
        return super().call(e, env, k)

    def module_call(self, name, e, env, k):
        rais = self.cur_rais
        h = self.helpers[name]
        if e.keywords or len(e.args) != len(h["params"]):
            raise Unsupported(f"call of {name} with keyword / missing arguments")
        places = []
        scalars = []
        for arg, (pn, pt) in zip(e.args, h["params"]):
            if isinstance(pt, tuple) and pt[0] == "list":
                pl = self.place_of(arg, env)
                if pl is None or pl[0] != "local":
                    raise Unsupported(f"argument {pn} of {name} must be a list variable")
                places.append(pl)
            else:
                scalars.append((arg, pt))
        if len(set(places)) != len(places):
            raise Unsupported(f"the same list passed twice to {name}")

        def k2(vs, env2):
            args = []
            it = iter(vs)
            pls = iter(places)
            for pn, pt in h["params"]:
                if isinstance(pt, tuple) and pt[0] == "list":
                    args.append(atom(self.place_get(next(pls), env2)))
                else:
                    v = next(it)
                    if pt == "int":
                        args.append(atom(self.as_int(v)))
                    elif v.ty != pt:
                        raise Unsupported(f"argument {pn} of {name}: {v.ty} for {pt}")
                    else:
                        args.append(atom(v.lean))
            callee = f"{h['lean']} lt " + " ".join(args)
            exc, r = self.fresh("exc"), self.fresh("r")
            new = [self.fresh("l") for _ in places]
            pat = new[0] if len(new) == 1 else "(" + ", ".join(new) + ")"

            def rebind(env3, i, kk):
                if i == len(places):
                    return kk(env3)
                return self.place_set(places[i], new[i], env3, lambda e4: rebind(e4, i + 1, kk))
            rt = h["ret"]
            val = Val("none", "none") if rt == "unit" else Val(r, rt)
            return Match(callee, [(f"(.error {exc}, {pat})", rebind(env2, 0, lambda e4: rais(exc, e4))),
                                  (f"(.ok {r}, {pat})", rebind(env2, 0, lambda e4: k(val, e4)))])
        return self.ev_list([a for a, _ in scalars], env, k2)

    def iter_source(self, e, env):
        if isinstance(e, ast.Call) and isinstance(e.func, ast.Name) and e.func.id == "range" and not e.keywords \
                and len(e.args) == 1 and "range" not in env.vars:
            n = self.pure(e.args[0], env)
            if n.ty != "nat":
                raise Unsupported("range() of an expression that may be negative")
            return f"(List.range {atom(n.lean)})", ("plain", "nat")
        return super().iter_source(e, env)

    # -- while loops: structural recursion on fuel derived from the condition
    def fuel_of(self, test, env):
        if isinstance(test, ast.Compare) and len(test.ops) == 1 and isinstance(test.ops[0], (ast.Lt, ast.Gt, ast.LtE, ast.GtE)):
            a = self.pure(test.left, env)
            b = self.pure(test.comparators[0], env)
            if a.ty in ("nat", "int") and b.ty in ("nat", "int"):
                hi, lo = (a, b) if isinstance(test.ops[0], (ast.Gt, ast.GtE)) else (b, a)
                extra = 2 if isinstance(test.ops[0], (ast.GtE, ast.LtE)) else 1
                return f"(({self.as_int(hi)} - {self.as_int(lo)}).toNat + {extra})"
        raise Unsupported("while loop whose condition is not an integer comparison: no bound on the number of trips")

    def while_stmt(self, s, env, ctx):
        if s.orelse:
            raise Unsupported("while … else")
        if self.depth != 0:
            raise Unsupported("while loop nested in another loop")
        items = self.frame(env)
        self.naux += 1
        name = f"{self.lean_name}.loop{self.naux}"
        fuel0 = self.fuel_of(s.test, env)
        binders, benv = self.enter_frame(items, env)
        fty = self.pack_ty(items, env)
        self.depth = 1
        saved_rais = self.cur_rais
        fuel = self.fresh("fuel")

        def b_next(e):
            return Leaf(f"{name} lt{self.pack(items, e, sep=True)} {fuel}")

        def b_exit(e):
            return Leaf(f".next {atom(self.pack(items, e))}")
        bctx = Ctx(b_next, ctx.ret, ctx.rais, b_exit, b_next, None)
        self.cur_rais = ctx.rais
        out_of_fuel = ctx.rais(".outOfFuel", benv)
        self.cur_rais = ctx.rais
        body = self.ev(s.test, benv, lambda c, e2: If(self.truth(c), self.blk(s.body, e2.copy(), bctx), b_exit(e2)))
        node = Match("fuel", [("0", out_of_fuel), (f"{fuel} + 1", body)])
        self.depth = 0
        self.cur_rais = saved_rais
        self.aux.append((f"/-- the `while` loop at heapq.py:{s.lineno}; `fuel` bounds the number of trips -/\n"
                         f"def {name} {self.BINDERS}{binders} (fuel : Nat) : PyRt.Ctl {fty} Empty (⟪R⟫) :=", node))
        args = self.pack(items, env, sep=True)
        pat, env3 = self.after_frame(items, env)
        return Match(f"{name} lt{args} {fuel0}", [(".ret r", Leaf("r")), (f".next {pat}", ctx.end(env3)),
                                                  (".brk e", Leaf("nomatch e"))])

    # -- whole function
    def method_text(self, lean_name):
        fn = self.fn
        a = fn.args
        if a.vararg or a.kwarg or a.kwonlyargs or a.posonlyargs or a.defaults or fn.decorator_list:
            raise Unsupported("parameter kinds / decorators")
        env = Env()
        params = param_kinds(fn)
        sig = ""
        for pn, pt in params:
            nm = pn + "_"
            if isinstance(pt, tuple):
                env.lists[pn] = (nm, pt[1])
                env.ver[("local", pn)] = self.newver()
                self.list_params.append(pn)
            else:
                env.vars[pn] = Val(nm, pt)
            sig += f" ({nm} : {lean_ty(pt)})"
        if not self.list_params:
            raise Unsupported("a function without a list parameter")
        ctx = Ctx(end=lambda e: self.final("ret", None, e),
                  ret=lambda v, e: self.final("ret", v, e),
                  rais=lambda exc, e: self.final("raise", exc, e))
        self.cur_rais = ctx.rais
        node = self.blk(body_no_doc(fn), env, ctx)
        self.resolve_ret()
        lty = "List α" if len(self.list_params) == 1 else "(" + " × ".join("List α" for _ in self.list_params) + ")"
        rty = f"Except Exc ({lean_ty(self.ret_ty)}) × {lty}"
        lines = [f"/-- `heapq.{fn.name}` (heapq.py:{fn.lineno}) -/",
                 f"def {lean_name} {self.BINDERS}{sig} : {rty} :="]
        lines += node.lines("  ")
        self.info = {"lean": lean_name, "params": params, "ret": self.ret_ty, "gen": False}
        return (self.aux_text() + "\n".join(lines)).replace("⟪R⟫", rty)


def stub(lean_name, what, msg):
    m = (what + ": " + msg).replace("\\", "\\\\").replace('"', "'").replace("\n", " ")
    return (f"-- heapq2lean: UNSUPPORTED {m}\n"
            f"def {lean_name} : Unit := (\"heapq2lean cannot translate {m}\" : String)")


def generate(src=None) -> dict:
    """`src` (the asynkit tree) is not used: the subject is the interpreter's own heapq.py"""
    path, substituted = heapq_source()
    text = path.read_text()
    sha = hashlib.sha256(text.encode()).hexdigest()
    tree = ast.parse(text)
    out = ["-- GENERATED by translator/heapq2lean.py — do not edit",
           f"-- source: {path}" + ("   (substituted through ASYNKIT_HEAPQ_SRC: self-validation only)" if substituted else ""),
           f"-- sha256: {sha}",
           f"-- interpreter: {platform.python_implementation()} {platform.python_version()} ({sys.executable})",
           "import Asynkit.Model.PyRt", "set_option linter.unusedVariables false",
           "namespace Asynkit.Gen.Heapq", "open Asynkit Asynkit.PyRt", ""]
    funcs = {n.name: n for n in tree.body if isinstance(n, ast.FunctionDef)}
    # the C accelerator must be the only thing that replaces these functions at import
    problems = []
    for n in tree.body:
        if isinstance(n, ast.Assign):
            for t in n.targets:
                if isinstance(t, ast.Name) and t.id in FUNCS:
                    problems.append(f"{t.id} is re-assigned at module level (line {n.lineno})")
    if sum(1 for n in tree.body if isinstance(n, ast.FunctionDef) and n.name in FUNCS) != len(set(funcs) & set(FUNCS)):
        problems.append("one of the functions is defined twice")
    helpers = {}
    for name in FUNCS:
        lean_name = LEAN_NAMES.get(name, name)
        if name not in funcs:
            problems.append(f"heapq.{name}: not found")
            out += [stub(lean_name, f"heapq.{name}", "function not found"), ""]
            continue
        try:
            f = ModFn(tree, funcs[name], helpers)
            out += [f.method_text(lean_name), ""]
            helpers[name] = f.info
        except Unsupported as e:
            problems.append(f"heapq.{name}: {e}")
            out += [stub(lean_name, f"heapq.{name}", str(e)), ""]
        except (KeyError, IndexError, AttributeError, TypeError, ValueError, AssertionError, RecursionError) as e:
            msg = f"internal {type(e).__name__}: {e}"
            problems.append(f"heapq.{name}: {msg}")
            out += [stub(lean_name, f"heapq.{name}", msg), ""]
    if any("re-assigned" in p or "twice" in p for p in problems):
        out += [stub("moduleShape", "heapq.py", "; ".join(problems)), ""]
    out.append("end Asynkit.Gen.Heapq")
    for p in problems:
        print(f"heapq2lean: UNSUPPORTED {p}", file=sys.stderr)
    return {"Heapq.lean": "\n".join(out) + "\n"}


if __name__ == "__main__":
    print(generate()["Heapq.lean"])
