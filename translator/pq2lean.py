#!/usr/bin/env python3
"""pq2lean — statement-level translation of `asynkit.tools.PriorityQueue` (DESIGN §3.3).

`generate(src)` parses `src/asynkit/tools.py` with `ast` on every run and emits
`Asynkit/Gen/PQ.lean`: one Lean definition per method of the class, produced by a generic
translator of Python statements (nothing is selected by method name except the Lean name of the
definition and the list of methods that must exist).  `Asynkit/Lemmas/GenEqPQ.lean` proves every
generated definition equal to the hand-written model `Asynkit/Model/PQ.lean`.

Embedding (run-time support: `Asynkit/Model/PyRt.lean`)
  * direct functional code; the object state (`PQ π`: `_sequence` ↦ `seq`, `_pq` ↦ `pq`) is threaded
    explicitly, every mutation binds a new name; a method returns `Except Exc ρ × PQ π` — the
    state at the moment an exception leaves the method is part of the result;
  * `if` duplicates the continuation, so no merging of re-assigned locals is needed;
  * partial primitives (`l[i]`, `l[i] = v`, `l.pop()`, `heappop`) are `match`es on an `Option`,
    the `none` arm raises IndexError;
  * `for … in <list> …: … break … else: …` is `PyRt.forLoop` over a snapshot of the list zipped
    with the element indices (a loop target that names an element of `self._pq` is an *alias*:
    `entry.priority = v` becomes `List.set` at the index the entry was read from); the body
    answers `.next carried | .brk (carried, targets) | .ret result`;
  * Python integers: an expression that is syntactically a natural number (`len`, literals,
    `enumerate` counters, `+`, `*`, `//`, `>>` of such) is a `Nat`; anything involving `-` is an
    `Int`, and indexing with an `Int` follows Python's negative-index rule;
  * a generator (`yield`) is translated for the driver "k × next(), then close()": see `GenFn`.

Everything outside the supported subset raises `Unsupported`.  `generate` turns that into a
definition that does not compile and carries the message, so exactly the obligations that depend
on `Asynkit.Gen.PQ` break (set PQ2LEAN_STRICT=1 to get the exception itself).
"""
import ast
import os
import re
import sys
from pathlib import Path

_main = sys.modules.get("__main__")
if Path(getattr(_main, "__file__", "") or "x").name == "py2lean.py":
    py2lean = _main            # called from py2lean.generate(): share its `Unsupported`
else:
    sys.path.insert(0, str(Path(__file__).resolve().parent))
    import py2lean             # noqa: E402
Unsupported, body_no_doc = py2lean.Unsupported, py2lean.body_no_doc

LT = "(Gen.priEntryLt plt)"
BINDERS = "{π : Type} (H : HeapLib (Entry π)) (plt : π → π → Bool)"
FIELDS = {"_sequence": ("seq", "nat"), "_pq": ("pq", ("list", "entry"))}
ENTRY_FIELDS = {"priority": ("pri", "prio"), "sequence": ("seq", "nat"), "obj": ("obj", "obj")}
EXCS = {"IndexError": ".indexError", "ValueError": ".valueError"}


# ---- Lean output tree -------------------------------------------------------------------------

class Node:
    pass


class Leaf(Node):
    def __init__(self, text):
        self.text = text

    def lines(self, ind):
        return [ind + self.text]


class Final(Node):
    """a leaf that leaves the current definition with its final result; inside `depth` nested
    loop bodies it is wrapped in as many `.ret`.  The text is rendered after the whole method is
    translated (Optional return types are only known then)."""

    def __init__(self, fn, depth, render, kind="ret", val=None):
        self.fn, self.depth, self.render, self.kind, self.val = fn, depth, render, kind, val
        fn.finals.append(self)

    def lines(self, ind):
        t = self.render()
        for _ in range(self.depth):
            t = f".ret {atom(t)}"
        return [ind + t]


class Let(Node):
    def __init__(self, name, ty, val, body):
        self.name, self.ty, self.val, self.body = name, ty, val, body

    def lines(self, ind):
        ty = self.ty() if callable(self.ty) else self.ty
        t = f" : {ty}" if ty else ""
        return [f"{ind}let {self.name}{t} := {self.val}"] + self.body.lines(ind)


class If(Node):
    def __init__(self, c, a, b):
        self.c, self.a, self.b = c, a, b

    def lines(self, ind):
        return [f"{ind}if {self.c} then"] + self.a.lines(ind + "  ") + [f"{ind}else"] + self.b.lines(ind + "  ")


class Match(Node):
    def __init__(self, scrut, arms):
        self.scrut, self.arms = scrut, arms       # scrut: str | ForLoop

    def lines(self, ind):
        if isinstance(self.scrut, str):
            out = [f"{ind}match {self.scrut} with"]
        else:
            sl = self.scrut.lines(ind + "    ")
            out = [f"{ind}match ({sl[0].strip()}"] + sl[1:-1] + [sl[-1] + ") with"]
        for pat, body in self.arms:
            out.append(f"{ind}| {pat} =>")
            out += body.lines(ind + "  ")
        return out


class ForLoop(Node):
    def __init__(self, beta, gamma, it, init, binds, body):
        self.beta, self.gamma, self.it, self.init, self.binds, self.body = beta, gamma, it, init, binds, body

    def lines(self, ind):
        out = [f"{ind}PyRt.forLoop (β := {self.beta}) (γ := {self.gamma}) {self.it} {self.init} (fun it st =>"]
        for n, v in self.binds:
            out.append(f"{ind}let {n} := {v}")
        body = self.body.lines(ind)
        body[-1] += ")"
        return out + body


# ---- types ------------------------------------------------------------------------------------

def lean_ty(t):
    if isinstance(t, tuple):
        if t[0] == "list":
            return f"List ({lean_ty(t[1])})"
        if t[0] == "opt":
            return f"Option ({lean_ty(t[1])})"
        if t[0] == "tuple":
            return "(" + " × ".join(lean_ty(x) for x in t[1]) + ")"
        if t[0] == "fn":
            return "(" + " → ".join(lean_ty(x) for x in list(t[1]) + [t[2]]) + ")"
    return {"nat": "Nat", "int": "Int", "bool": "Bool", "prio": "π", "obj": "Nat", "entry": "Entry π",
            "unit": "Unit", "pq": "PQ π", "elem": "α"}[t]


def ann_ty(a):
    """Lean-side type of a parameter annotation"""
    if isinstance(a, ast.Name):
        if a.id in ("P",):
            return "prio"
        if a.id in ("T",):
            return "obj"
        if a.id == "bool":
            return "bool"
        if a.id == "int":
            return "int"
    if isinstance(a, ast.Subscript) and isinstance(a.value, ast.Name):
        head = a.value.id
        sl = a.slice
        if head in ("Iterable", "List", "list", "Sequence", "Collection"):
            return ("list", ann_ty(sl))
        if head in ("Tuple", "tuple") and isinstance(sl, ast.Tuple):
            return ("tuple", tuple(ann_ty(x) for x in sl.elts))
        if head == "Callable" and isinstance(sl, ast.Tuple) and len(sl.elts) == 2 and isinstance(sl.elts[0], ast.List):
            return ("fn", tuple(ann_ty(x) for x in sl.elts[0].elts), ann_ty(sl.elts[1]))
    raise Unsupported(f"parameter annotation {ast.dump(a)[:80]}")


def entry_ctor(module):
    """`PriEntry.__init__(self, a, b, c)` must be `self.<field> = <parameter>` for exactly the three
    modelled fields; -> the field initialised by each positional parameter"""
    cls = next((n for n in module.body if isinstance(n, ast.ClassDef) and n.name == "PriEntry"), None)
    if cls is None:
        raise Unsupported("class PriEntry not found")
    init = next((n for n in cls.body if isinstance(n, ast.FunctionDef) and n.name == "__init__"), None)
    if init is None:
        raise Unsupported("PriEntry.__init__ not found")
    a = init.args
    if a.vararg or a.kwarg or a.kwonlyargs or a.posonlyargs or a.defaults or init.decorator_list:
        raise Unsupported("PriEntry.__init__: parameter kinds")
    me = a.args[0].arg
    params = [p.arg for p in a.args[1:]]
    field_of = {}
    for st in body_no_doc(init):
        if not (isinstance(st, ast.Assign) and len(st.targets) == 1 and isinstance(st.targets[0], ast.Attribute)
                and isinstance(st.targets[0].value, ast.Name) and st.targets[0].value.id == me
                and isinstance(st.value, ast.Name) and st.value.id in params
                and st.targets[0].attr in ENTRY_FIELDS and st.value.id not in field_of
                and st.targets[0].attr not in field_of.values()):
            raise Unsupported(f"PriEntry.__init__: {ast.unparse(st)[:60]}")
        field_of[st.value.id] = st.targets[0].attr
    if set(field_of.values()) != set(ENTRY_FIELDS) or set(field_of) != set(params):
        raise Unsupported("PriEntry.__init__ does not initialise exactly priority, sequence, obj")
    for n in cls.body:
        if isinstance(n, ast.FunctionDef) and n.name in ("__setattr__", "__getattr__", "__getattribute__", "__eq__"):
            raise Unsupported(f"PriEntry defines {n.name}")
    return [field_of[p] for p in params]


def lin_of(v):
    """linear form of an integer value"""
    if v.lin is not None:
        return v.lin
    return [(atom(v.lean), v.ty == "nat", 1)], 0


def lin_val(terms, const, nat):
    """the integer value Σ coeff·atom + const, printed canonically; a `Nat` when `nat` (no
    subtraction was involved, every atom is a `Nat`), else an `Int` with the `Nat` atoms cast"""
    merged = []
    for a, n, q in terms:
        for i, (a2, n2, q2) in enumerate(merged):
            if a2 == a:
                merged[i] = (a, n, q + q2)
                break
        else:
            merged.append((a, n, q))
    merged = [(a, n, q) for a, n, q in merged if q != 0]
    if nat and (const < 0 or any(q < 0 or not n for _, n, q in merged)):
        nat = False
    if not merged:
        v = Val(str(const), "nat") if nat else Val(f"({const} : Int)", "int")
        v.lin = ([], const)
        return v
    parts = []
    for i, (a, n, q) in enumerate(merged):
        x = a if (nat or not n) else f"({a} : Int)"
        mag = x if abs(q) == 1 else f"{abs(q)} * {x}"
        parts.append((("- " if q < 0 else "") if i == 0 else (" - " if q < 0 else " + ")) + mag)
    if const:
        parts.append((" - " if const < 0 else " + ") + str(abs(const)))
    text = "".join(parts)
    if len(merged) == 1 and merged[0][2] == 1 and not const and (nat or not merged[0][1]):
        v = Val(merged[0][0], "nat" if nat else "int")
    else:
        v = Val(f"({text})", "nat" if nat else "int")
    v.lin = (merged, const)
    return v


class Val:
    """a translated Python value.  Entries carry ownership (`fresh` constructed here, `moved` taken
    out of a list, `borrowed` still referenced from a list) and, when they name an element of a
    list place, the alias (place, index text, version of the place at binding time)."""

    def __init__(self, lean, ty, own=None, alias=None, src=None):
        self.lean, self.ty, self.own, self.alias, self.src = lean, ty, own, alias, src
        self.poisoned = False
        self.lin = None        # integers: ([(atom text, atom is a Nat, coefficient)], constant) — see `lin_val`

    def clone(self, **kw):
        v = Val(self.lean, self.ty, self.own, self.alias, self.src)
        v.poisoned = self.poisoned
        v.lin = self.lin
        for k, x in kw.items():
            setattr(v, k, x)
        return v


def atom(s):
    s = s.strip()
    if s.replace("_", "").replace(".", "").replace("?", "").replace("'", "").isalnum():
        return s
    if s[0] == "(" and s[-1] == ")":
        d = 0
        for i, ch in enumerate(s):
            d += ch == "("
            d -= ch == ")"
            if d == 0 and i < len(s) - 1:
                break
        else:
            return s
    return f"({s})"


class Env:
    def __init__(self):
        self.vars = {}         # python local -> Val
        self.objs = {}         # python object name -> current Lean name of its record
        self.lists = {}        # python local list -> (Lean name, element type)
        self.ver = {}          # place -> version (bumped by every structural change)
        self.iterating = []    # places being iterated by enclosing loops
        self.dirty = False     # an iterated place was modified on this path
        self.dead = set()      # local lists that were moved into a field
        self.gen = None        # generators: (remaining next() calls, yielded so far) as Lean names

    def copy(self):
        e = Env()
        e.vars = {k: v.clone() for k, v in self.vars.items()}
        e.objs = dict(self.objs)
        e.lists = dict(self.lists)
        e.ver = dict(self.ver)
        e.iterating = list(self.iterating)
        e.dirty = self.dirty
        e.dead = set(self.dead)
        e.gen = self.gen
        return e


class Ctx:
    def __init__(self, end, ret, rais, brk=None, cont=None, yld=None):
        self.end, self.ret, self.rais, self.brk, self.cont, self.yld = end, ret, rais, brk, cont, yld

    def with_(self, **kw):
        c = Ctx(self.end, self.ret, self.rais, self.brk, self.cont, self.yld)
        for k, v in kw.items():
            setattr(c, k, v)
        return c


_PURE = Leaf("<pure>")


class Fn:
    """translation of one method"""
    BINDERS = BINDERS     # the fixed parameters every generated definition takes …
    FIX = "H plt"         # … and how they are passed on

    def __init__(self, cls, fn, helpers, module=None):
        self.cls, self.fn, self.helpers, self.module = cls, fn, helpers, module
        self.n = 0
        self.finals = []
        self.depth = 0            # nesting depth of forLoop bodies
        self.ret_ty = None
        self.is_gen = any(isinstance(n, (ast.Yield, ast.YieldFrom)) for n in ast.walk(fn))
        self.version = 0
        self.aux = []             # auxiliary definitions (finally blocks, while loops): (header, node)
        self.naux = 0
        self.yield_ty = None
        self.lean_name = LEAN_NAMES.get(fn.name, fn.name)
        self.inline_stack = []    # methods of the class being inlined (self.m(...) calls)

    # -- names
    def fresh(self, base):
        self.n += 1
        return f"{base}{self.n}"

    def newver(self):
        self.version += 1
        return self.version

    # -- places: ("field", obj, attr) | ("local", name)
    def place_of(self, e, env):
        if isinstance(e, ast.Attribute) and isinstance(e.value, ast.Name) and e.value.id in env.objs \
                and e.attr in FIELDS and isinstance(FIELDS[e.attr][1], tuple):
            return ("field", e.value.id, e.attr)
        if isinstance(e, ast.Name) and e.id in env.lists:
            if e.id in env.dead:
                raise Unsupported(f"list {e.id} used after it was stored into a field")
            return ("local", e.id)
        return None

    def place_get(self, pl, env):
        if pl[0] == "field":
            return f"{env.objs[pl[1]]}.{FIELDS[pl[2]][0]}"
        return env.lists[pl[1]][0]

    def place_elem_ty(self, pl, env):
        if pl[0] == "field":
            return FIELDS[pl[2]][1][1]
        return env.lists[pl[1]][1]

    def place_set(self, pl, newval, env, k, structural=True):
        """bind the new value of a list place, continue with `k(env)`"""
        env = env.copy()
        if structural:
            env.ver[pl] = self.newver()
        if pl in env.iterating:
            env.dirty = True
        if pl[0] == "field":
            cur = env.objs[pl[1]]
            nm = self.fresh("s" if pl[1] == self.selfname else pl[1] + "_")
            env.objs[pl[1]] = nm
            return Let(nm, "PQ π", f"{{ {cur} with {FIELDS[pl[2]][0]} := {newval} }}", k(env))
        nm = self.fresh(pl[1] + "_")
        env.lists[pl[1]] = (nm, env.lists[pl[1]][1])
        return Let(nm, lean_ty(("list", env.lists[pl[1]][1])), newval, k(env))

    def set_scalar_field(self, obj, attr, val, env, k):
        lf, ty = FIELDS[attr]
        if val.ty != ty:
            raise Unsupported(f"{obj}.{attr} := a value of type {val.ty} (the model field is {ty})")
        env = env.copy()
        cur = env.objs[obj]
        nm = self.fresh("s" if obj == self.selfname else obj + "_")
        env.objs[obj] = nm
        return Let(nm, "PQ π", f"{{ {cur} with {lf} := {val.lean} }}", k(env))

    # -- results
    def final(self, kind, val, env):
        st = env.objs[self.selfname]
        if kind == "raise":
            return Final(self, self.depth, lambda: f"(.error {val}, {st})", "raise", val)
        return Final(self, self.depth, lambda: f"(.ok {self.render_ret(val)}, {st})", "ret", val)

    def render_ret(self, val):
        if self.ret_ty is not None and isinstance(self.ret_ty, tuple) and self.ret_ty[0] == "opt":
            if val is None or val.ty == "none":
                return "none"
            return f"(some {atom(val.lean)})"
        if val is None or val.ty == "none":
            return "()"
        return atom(val.lean)

    def resolve_ret(self):
        tys = []
        for f in self.finals:
            if f.kind == "ret":
                t = "none" if f.val is None else f.val.ty
                if t not in tys:
                    tys.append(t)
        some = [t for t in tys if t != "none"]
        if len(some) > 1:
            some = [self.join_ty(some)]
        if not some:
            self.ret_ty = "unit"
        elif "none" in tys:
            self.ret_ty = ("opt", some[0])
        else:
            self.ret_ty = some[0]

    @staticmethod
    def join_ty(ts):
        if all(t in ("nat", "int") for t in ts):
            raise Unsupported("a method returns a Nat on one path and an Int on another")
        raise Unsupported(f"return types differ: {ts}")

    # -- integer helpers
    @staticmethod
    def as_int(v):
        if v.ty == "int":
            return v.lean
        if v.ty == "nat":
            return f"({v.lean} : Int)"
        raise Unsupported(f"integer expected, got {v.ty}")

    def truth(self, v, neg=False):
        """Bool text of the truth value of `v`"""
        if v.ty == "bool":
            return f"(!{atom(v.lean)})" if neg else v.lean
        if isinstance(v.ty, tuple) and v.ty[0] == "list":
            return f"{atom(v.lean)}.isEmpty" if neg else f"(!{atom(v.lean)}.isEmpty)"
        if v.ty in ("nat", "int"):
            return f"decide ({v.lean} = 0)" if neg else f"decide ({v.lean} ≠ 0)"
        if isinstance(v.ty, tuple) and v.ty[0] == "opt":
            return f"{atom(v.lean)}.isNone" if neg else f"{atom(v.lean)}.isSome"
        raise Unsupported(f"truth value of a {v.ty}")

    # -- expressions (continuation passing: effects and failures wrap the continuation)
    def pure(self, e, env):
        box = []

        def k(v, env2):
            box.append((v, env2))
            return _PURE
        node = self.ev(e, env, k)
        if node is not _PURE or box[0][1] is not env:
            raise Unsupported(f"expression with an effect or a possible exception where a pure one is needed: "
                              f"{ast.unparse(e)[:60]}")
        return box[0][0]

    def ev_list(self, es, env, k, acc=None):
        acc = acc or []
        if not es:
            return k(acc, env)
        return self.ev(es[0], env, lambda v, env2: self.ev_list(es[1:], env2, k, acc + [v]))

    def raise_index(self, env, ctx_rais):
        return ctx_rais(".indexError", env)

    def ev(self, e, env, k):
        rais = self.cur_rais
        if isinstance(e, ast.Constant):
            if e.value is None:
                return k(Val("none", "none"), env)
            if isinstance(e.value, bool):
                return k(Val("true" if e.value else "false", "bool"), env)
            if isinstance(e.value, int):
                return k(lin_val([], e.value, e.value >= 0), env)
            raise Unsupported(f"constant {e.value!r}")
        if isinstance(e, ast.Name):
            pl = self.place_of(e, env)
            if pl:
                return k(Val(self.place_get(pl, env), ("list", self.place_elem_ty(pl, env)), src=pl), env)
            if e.id in env.vars:
                v = env.vars[e.id]
                if v.poisoned:
                    raise Unsupported(f"{e.id} may have been changed through another reference")
                return k(v.clone(name=e.id), env)
            if e.id in env.objs:
                return k(Val(env.objs[e.id], "pq", src=("obj", e.id)), env)
            raise Unsupported(f"name {e.id} is not bound here")
        if isinstance(e, ast.Attribute):
            pl = self.place_of(e, env)
            if pl:
                return k(Val(self.place_get(pl, env), ("list", self.place_elem_ty(pl, env)), src=pl), env)
            if isinstance(e.value, ast.Name) and e.value.id in env.objs:
                if e.attr not in FIELDS:
                    raise Unsupported(f"attribute {e.value.id}.{e.attr} is not a modelled field")
                lf, ty = FIELDS[e.attr]
                return k(Val(f"{env.objs[e.value.id]}.{lf}", ty), env)

            def k2(v, env2):
                if v.ty != "entry" or e.attr not in ENTRY_FIELDS:
                    raise Unsupported(f"attribute .{e.attr} of a {v.ty}")
                lf, ty = ENTRY_FIELDS[e.attr]
                return k(Val(f"{atom(v.lean)}.{lf}", ty), env2)
            return self.ev(e.value, env, k2)
        if isinstance(e, ast.Tuple):
            return self.ev_list(e.elts, env, lambda vs, env2: k(self.mk_tuple(vs), env2))
        if isinstance(e, ast.UnaryOp):
            if isinstance(e.op, ast.Not):
                return self.ev(e.operand, env, lambda v, env2: k(Val(self.truth(v, neg=True), "bool"), env2))
            if isinstance(e.op, ast.USub):
                def kneg(v, env2):
                    terms, c = lin_of(v)
                    return k(lin_val([(a, n, -q) for a, n, q in terms], -c, False), env2)
                return self.ev(e.operand, env, kneg)
        if isinstance(e, ast.BinOp):
            return self.ev_list([e.left, e.right], env, lambda vs, env2: k(self.binop(e, vs[0], vs[1]), env2))
        if isinstance(e, ast.BoolOp):
            try:
                vs = [self.pure(x, env) for x in e.values]
            except Unsupported:
                # an operand that can raise (or has an effect): short-circuit evaluation, the
                # continuation is duplicated like for an `if`
                first, rest = e.values[0], e.values[1:]
                rest_e = rest[0] if len(rest) == 1 else ast.BoolOp(op=e.op, values=rest)
                is_and = isinstance(e.op, ast.And)

                def kb(v, env2):
                    if v.ty != "bool":
                        raise Unsupported("and / or of operands that are not booleans")

                    def kr(w, env3):
                        if w.ty != "bool":
                            raise Unsupported("and / or of operands that are not booleans")
                        return k(w, env3)
                    go = self.ev(rest_e, env2.copy(), kr)
                    stop = k(Val("false" if is_and else "true", "bool"), env2.copy())
                    return If(v.lean, go, stop) if is_and else If(v.lean, stop, go)
                return self.ev(first, env, kb)
            if any(v.ty != "bool" for v in vs):
                # `a or b` is one of its operands, not a truth value
                raise Unsupported("and / or of operands that are not booleans")
            op = " && " if isinstance(e.op, ast.And) else " || "
            return k(Val("(" + op.join(atom(v.lean) for v in vs) + ")", "bool"), env)
        if isinstance(e, ast.Compare):
            if len(e.ops) == 1:
                return self.ev_list([e.left, e.comparators[0]], env,
                                    lambda vs, env2: k(self.compare(e.ops[0], vs[0], vs[1]), env2))
            vs = [self.pure(x, env) for x in [e.left] + e.comparators]
            parts = [self.compare(op, a, b).lean for op, a, b in zip(e.ops, vs, vs[1:])]
            return k(Val("(" + " && ".join(parts) + ")", "bool"), env)
        if isinstance(e, ast.IfExp):
            c, a, b = self.pure(e.test, env), self.pure(e.body, env), self.pure(e.orelse, env)
            if a.ty != b.ty or a.ty == "entry":
                raise Unsupported("conditional expression with branches of different type / entries")
            return k(Val(f"(if {self.truth(c)} then {a.lean} else {b.lean})", a.ty), env)
        if isinstance(e, ast.Subscript):
            return self.subscript(e, env, k)
        if isinstance(e, ast.ListComp):
            return self.listcomp(e, env, k)
        if isinstance(e, ast.List) and not e.elts:
            return k(Val("[]", ("list", "entry"), own="fresh"), env)
        if isinstance(e, ast.Call):
            return self.call(e, env, k)
        raise Unsupported(f"expression {ast.unparse(e)[:80]}")

    @staticmethod
    def mk_tuple(vs):
        for v in vs:
            if v.ty == "entry" or v.ty == "none":
                raise Unsupported("tuple containing an entry object / None")
        return Val("(" + ", ".join(v.lean for v in vs) + ")", ("tuple", tuple(v.ty for v in vs)))

    def binop(self, e, a, b):
        op = e.op
        if isinstance(op, (ast.Add, ast.Sub, ast.Mult)):
            # integer arithmetic is kept as a linear form and printed canonically (like terms
            # collected, the constant last), so `1 + c`, `c + 1`, `c * 2 + 1 - c` … give one text
            if a.ty not in ("nat", "int") or b.ty not in ("nat", "int"):
                raise Unsupported(f"arithmetic on {a.ty} and {b.ty}")
            (ta, ca), (tb, cb) = lin_of(a), lin_of(b)
            nat = a.ty == "nat" and b.ty == "nat" and not isinstance(op, ast.Sub)
            if isinstance(op, ast.Mult):
                if not ta:
                    return lin_val([(x, n, q * ca) for x, n, q in tb], cb * ca, nat)
                if not tb:
                    return lin_val([(x, n, q * cb) for x, n, q in ta], ca * cb, nat)
                if nat:
                    return Val(f"({a.lean} * {b.lean})", "nat")
                return Val(f"({self.as_int(a)} * {self.as_int(b)})", "int")
            sign = -1 if isinstance(op, ast.Sub) else 1
            return lin_val(ta + [(x, n, sign * q) for x, n, q in tb], ca + sign * cb, nat)
        if isinstance(op, (ast.FloorDiv, ast.RShift)) and isinstance(e.right, ast.Constant) \
                and isinstance(e.right.value, int) and not isinstance(e.right.value, bool):
            c = e.right.value
            if isinstance(op, ast.RShift):
                if not 0 <= c < 32:
                    raise Unsupported("shift amount")
                c = 2 ** c
            if c <= 0:
                raise Unsupported("floor division by a non-positive constant")
            # Python's // and >> round towards -∞; so does Lean's Int `/` for a positive divisor
            if a.ty == "nat":
                return Val(f"({a.lean} / {c})", "nat")
            return Val(f"({self.as_int(a)} / {c})", "int")
        raise Unsupported(f"operator {type(op).__name__}")

    def compare(self, op, a, b):
        if isinstance(op, (ast.Is, ast.IsNot)):
            # `x is None` / `x is not None`: decided by the type the value has on this path (a helper
            # that returns None on one path and a value on another is inlined path by path)
            if "none" not in (a.ty, b.ty):
                raise Unsupported("`is` between values other than None")
            other = b if a.ty == "none" else a
            if other.ty == "none":
                yes = True
            elif isinstance(other.ty, tuple) and other.ty[0] == "opt":
                t = f"{atom(other.lean)}.isNone" if isinstance(op, ast.Is) else f"{atom(other.lean)}.isSome"
                return Val(t, "bool")
            else:
                yes = False
            return Val("true" if yes == isinstance(op, ast.Is) else "false", "bool")
        if a.ty == "prio" and b.ty == "prio":
            if isinstance(op, ast.Lt):
                return Val(f"(plt {atom(a.lean)} {atom(b.lean)})", "bool")
            if isinstance(op, ast.Gt):
                return Val(f"(plt {atom(b.lean)} {atom(a.lean)})", "bool")
            raise Unsupported("only < is defined on priorities")
        if a.ty == "obj" and b.ty == "obj":
            if isinstance(op, ast.Eq):
                return Val(f"({atom(a.lean)} == {atom(b.lean)})", "bool")
            if isinstance(op, ast.NotEq):
                return Val(f"({atom(a.lean)} != {atom(b.lean)})", "bool")
            raise Unsupported("only == / != on queue objects")
        if a.ty == "bool" and b.ty == "bool" and isinstance(op, (ast.Eq, ast.NotEq)):
            sym = "=" if isinstance(op, ast.Eq) else "≠"
            return Val(f"decide ({a.lean} {sym} {b.lean})", "bool")
        if a.ty in ("nat", "int") and b.ty in ("nat", "int"):
            if isinstance(op, (ast.Gt, ast.GtE)):            # one spelling: `a > b` is `b < a`
                a, b, op = b, a, (ast.Lt() if isinstance(op, ast.Gt) else ast.LtE())
            sym = {ast.Lt: "<", ast.LtE: "≤", ast.Eq: "=", ast.NotEq: "≠"}.get(type(op))
            if sym is None:
                raise Unsupported(f"comparison {type(op).__name__}")
            if a.ty == "nat" and b.ty == "nat":
                return Val(f"decide ({a.lean} {sym} {b.lean})", "bool")
            return Val(f"decide ({self.as_int(a)} {sym} {self.as_int(b)})", "bool")
        raise Unsupported(f"comparison of {a.ty} and {b.ty}")

    def subscript(self, e, env, k):
        rais = self.cur_rais
        pl = self.place_of(e.value, env)
        if isinstance(e.slice, ast.Slice):
            if pl is None or e.slice.lower or e.slice.upper or e.slice.step:
                raise Unsupported("slice other than <list>[:]")
            return k(Val(self.place_get(pl, env), ("list", self.place_elem_ty(pl, env)), src=pl), env)

        def k2(vs, env2):
            lst, ix = vs
            if not (isinstance(lst.ty, tuple) and lst.ty[0] == "list"):
                raise Unsupported(f"subscript of a {lst.ty}")
            r = self.fresh("x")
            if ix.ty == "nat":
                scrut = f"{atom(lst.lean)}[{ix.lean}]?"
                ixn = ix.lean
            elif ix.ty == "int":
                scrut = f"PyRt.getItemI {atom(lst.lean)} {atom(ix.lean)}"
                ixn = None
            else:
                raise Unsupported(f"index of type {ix.ty}")
            alias = None
            pl2 = lst.src if lst.src and lst.src[0] in ("field", "local") else None
            if pl2 and ixn is not None:
                alias = (pl2, ixn, env2.ver.get(pl2, 0))
            v = Val(r, lst.ty[1], own="borrowed" if lst.ty[1] == "entry" else None, alias=alias)
            return Match(scrut, [("none", rais(".indexError", env2)), (f"some {r}", k(v, env2))])
        return self.ev_list([e.value, e.slice], env, k2)

    def listcomp(self, e, env, k):
        if len(e.generators) != 1 or e.generators[0].ifs or e.generators[0].is_async \
                or not isinstance(e.generators[0].target, ast.Name):
            raise Unsupported("list comprehension other than [f(x) for x in <list>]")
        g = e.generators[0]
        src = self.pure(g.iter, env)
        if not (isinstance(src.ty, tuple) and src.ty[0] == "list"):
            raise Unsupported("comprehension over a non-list")
        x = self.fresh(g.target.id + "_")
        env2 = env.copy()
        env2.vars[g.target.id] = Val(x, src.ty[1], own="borrowed" if src.ty[1] == "entry" else None)
        elt = self.pure(e.elt, env2)
        if elt.ty == "entry" and elt.own != "fresh":
            raise Unsupported("comprehension whose elements are existing entry objects (they would be shared)")
        return k(Val(f"({atom(src.lean)}.map (fun {x} => {elt.lean}))", ("list", elt.ty), own="fresh"), env)

    def call(self, e, env, k):
        rais = self.cur_rais
        f = e.func
        if e.keywords and not (isinstance(f, ast.Attribute) and isinstance(f.value, ast.Name)
                               and f.value.id == self.selfname):
            raise Unsupported("keyword arguments")
        # builtins
        if isinstance(f, ast.Name) and f.id in ("len", "bool") and len(e.args) == 1 and f.id not in env.vars:
            def k2(v, env2):
                if f.id == "bool":
                    return k(Val(self.truth(v), "bool"), env2)
                if not (isinstance(v.ty, tuple) and v.ty[0] == "list"):
                    raise Unsupported(f"len of a {v.ty}")
                return k(Val(f"{atom(v.lean)}.length", "nat"), env2)
            return self.ev(e.args[0], env, k2)
        if isinstance(f, ast.Name) and f.id in ("list", "tuple") and len(e.args) == 1 and f.id not in env.vars:
            def k3(v, env2):
                if not (isinstance(v.ty, tuple) and v.ty[0] == "list"):
                    raise Unsupported("list() of a non-list")
                return k(v.clone(), env2)
            return self.ev(e.args[0], env, k3)
        if isinstance(f, ast.Name) and f.id == "PriEntry" and f.id not in env.vars:
            ctor = entry_ctor(self.module)       # which field each positional parameter initialises
            if len(e.args) != len(ctor):
                raise Unsupported(f"PriEntry() with {len(e.args)} arguments")

            def k4(vs, env2):
                parts = []
                for v, attr in zip(vs, ctor):
                    lf, ty = ENTRY_FIELDS[attr]
                    if v.ty != ty:
                        raise Unsupported(f"PriEntry(…): {attr} := a {v.ty}")
                    parts.append(f"{lf} := {v.lean}")
                return k(Val("({ " + ", ".join(parts) + " } : Entry π)", "entry", own="fresh"), env2)
            return self.ev_list(e.args, env, k4)
        if isinstance(f, ast.Name) and f.id in env.vars and isinstance(env.vars[f.id].ty, tuple) \
                and env.vars[f.id].ty[0] == "fn":
            fty = env.vars[f.id].ty

            def k5(vs, env2):
                if tuple(v.ty for v in vs) != tuple(fty[1]):
                    raise Unsupported(f"call of {f.id} with {[v.ty for v in vs]}")
                return k(Val(f"({env.vars[f.id].lean} " + " ".join(atom(v.lean) for v in vs) + ")", fty[2]), env2)
            return self.ev_list(e.args, env, k5)
        # object construction: type(self)() / <ClassName>() / self.__class__()
        if not e.args and self.is_ctor(f):
            if "__init__" not in self.helpers:
                raise Unsupported("constructor call but __init__ was not translated")
            return k(Val("(init (π := π))", "pq", own="fresh"), env)
        # heapq
        if isinstance(f, ast.Attribute) and isinstance(f.value, ast.Name) and f.value.id == "heapq":
            if f.attr == "heappop" and len(e.args) == 1:
                pl = self.need_place(e.args[0], env)
                r, l2 = self.fresh("e"), self.fresh("l")
                body = self.place_set(pl, l2, env, lambda env2: k(Val(r, "entry", own="moved"), env2))
                return Match(f"H.pop {LT} {self.place_get(pl, env)}",
                             [("none", rais(".indexError", env)), (f"some ({r}, {l2})", body)])
            if f.attr == "heappush" and len(e.args) == 2:
                pl = self.need_place(e.args[0], env)

                def k6(v, env2):
                    self.check_store(v, pl, env2)
                    return self.place_set(pl, f"H.push {LT} {self.place_get(pl, env2)} {atom(v.lean)}", env2,
                                          lambda env3: k(Val("none", "none"), env3))
                return self.ev(e.args[1], env, k6)
            if f.attr == "heapify" and len(e.args) == 1:
                pl = self.need_place(e.args[0], env)
                return self.place_set(pl, f"H.heapify {LT} {self.place_get(pl, env)}", env,
                                      lambda env2: k(Val("none", "none"), env2))
            raise Unsupported(f"heapq.{f.attr}")
        # list methods
        if isinstance(f, ast.Attribute):
            pl = self.place_of(f.value, env)
            if pl:
                return self.list_method(pl, f.attr, e.args, env, k)
            if isinstance(f.value, ast.Name) and f.value.id in env.objs:
                return self.method_call(f.value.id, f.attr, e, env, k)
        raise Unsupported(f"call {ast.unparse(e)[:80]}")

    def is_ctor(self, f):
        if isinstance(f, ast.Name) and f.id == self.cls.name:
            return True
        if isinstance(f, ast.Call) and isinstance(f.func, ast.Name) and f.func.id == "type" and len(f.args) == 1 \
                and isinstance(f.args[0], ast.Name) and f.args[0].id == self.selfname:
            return True
        if isinstance(f, ast.Attribute) and f.attr == "__class__" and isinstance(f.value, ast.Name) \
                and f.value.id == self.selfname:
            return True
        return False

    def need_place(self, e, env):
        pl = self.place_of(e, env)
        if pl is None:
            raise Unsupported(f"{ast.unparse(e)[:40]} is not a list this translator tracks")
        return pl

    def check_store(self, v, pl, env):
        """an entry object stored into list place `pl`"""
        if v.ty != self.place_elem_ty(pl, env):
            raise Unsupported(f"storing a {v.ty} into a list of {self.place_elem_ty(pl, env)}")
        if v.ty != "entry":
            return
        if v.own in ("fresh", "moved"):
            return
        # a borrowed entry: only out of a local list (which dies with the call) into a field of self
        if v.alias and v.alias[0][0] == "local" and pl[0] == "field" and pl[1] == self.selfname:
            return
        if v.alias and v.alias[0][0] == "local" and pl[0] == "local":
            return
        raise Unsupported("an entry object that is still referenced from a list is stored into a list "
                          "(two references to one mutable entry)")

    def list_method(self, pl, name, args, env, k):
        rais = self.cur_rais
        cur = self.place_get(pl, env)
        ety = self.place_elem_ty(pl, env)
        if name == "pop" and not args:
            r, l2 = self.fresh("x"), self.fresh("l")
            body = self.place_set(pl, l2, env, lambda env2: k(Val(r, ety, own="moved" if ety == "entry" else None), env2))
            return Match(f"PyRt.listPop {cur}", [("none", rais(".indexError", env)), (f"some ({r}, {l2})", body)])
        if name == "append" and len(args) == 1:
            def k2(v, env2):
                self.check_store(v, pl, env2)
                return self.place_set(pl, f"{self.place_get(pl, env2)} ++ [{v.lean}]", env2,
                                      lambda env3: k(Val("none", "none"), env3))
            return self.ev(args[0], env, k2)
        if name == "extend" and len(args) == 1:
            def k3(v, env2):
                if v.ty != ("list", ety):
                    raise Unsupported("extend with a different kind of list")
                if ety == "entry" and not (pl[0] == "local" or v.own == "fresh"):
                    raise Unsupported("extend of a field list with existing entry objects")
                return self.place_set(pl, f"{self.place_get(pl, env2)} ++ {atom(v.lean)}", env2,
                                      lambda env3: k(Val("none", "none"), env3))
            return self.ev(args[0], env, k3)
        if name == "clear" and not args:
            return self.place_set(pl, "[]", env, lambda env2: k(Val("none", "none"), env2))
        if name == "sort" and not args:
            if ety != "entry":
                raise Unsupported("sort of a list of non-entries")
            return self.place_set(pl, f"PyRt.listSort {LT} {cur}", env, lambda env2: k(Val("none", "none"), env2))
        raise Unsupported(f"list method .{name}")

    def inline_call(self, m, e, env, k):
        """`self.m(args)`: the body of `m` is translated in place (parameters bound to the argument
        values, `return v` continues after the call), so extracting or inlining a helper method
        leaves the generated text — and the equalities proved about it — unchanged"""
        rais = self.cur_rais
        name = m.name
        if name in self.inline_stack or len(self.inline_stack) >= 6:
            raise Unsupported(f"recursive call of {name}")
        if any(isinstance(n, (ast.Yield, ast.YieldFrom)) for n in ast.walk(m)):
            raise Unsupported(f"call of the generator method {name}")
        a = m.args
        if a.vararg or a.kwarg or a.kwonlyargs or a.posonlyargs or m.decorator_list:
            raise Unsupported(f"call of {name}: parameter kinds / decorators")
        if a.args[0].arg != self.selfname:
            raise Unsupported(f"{name} names its receiver differently")
        params = a.args[1:]
        if len(e.args) > len(params) or any(isinstance(x, ast.Starred) for x in e.args):
            raise Unsupported(f"call of {name}: too many / starred arguments")
        exprs = list(e.args) + [None] * (len(params) - len(e.args))
        for kw in e.keywords:
            idx = next((i for i, p in enumerate(params) if p.arg == kw.arg), None)
            if idx is None or exprs[idx] is not None:
                raise Unsupported(f"call of {name}: keyword {kw.arg}")
            exprs[idx] = kw.value
        ndef = len(a.defaults)
        for i, p in enumerate(params):
            if exprs[i] is None:
                j = i - (len(params) - ndef)
                if j < 0 or not isinstance(a.defaults[j], ast.Constant):
                    raise Unsupported(f"call of {name}: argument {p.arg} missing")
                exprs[i] = a.defaults[j]
        saved_rais = rais

        def k2(vs, env2):
            cenv = Env()
            cenv.objs[self.selfname] = env2.objs[self.selfname]
            cenv.ver = {pl: v for pl, v in env2.ver.items() if pl[0] == "field" and pl[1] == self.selfname}
            cenv.iterating, cenv.dirty = list(env2.iterating), env2.dirty

            def merge(ce):
                env3 = env2.copy()
                env3.objs[self.selfname] = ce.objs[self.selfname]
                for pl, v in ce.ver.items():
                    if pl[0] == "field" and pl[1] == self.selfname:
                        env3.ver[pl] = v
                env3.dirty = ce.dirty
                return env3

            def back(v, ce):
                env3 = merge(ce)
                if v is None:
                    v = Val("none", "none")
                if v.ty == "entry" and v.own not in ("fresh", "moved") and not \
                        (v.alias and v.alias[0][0] == "field" and v.alias[0][1] == self.selfname):
                    raise Unsupported(f"{name} returns an entry object of unknown provenance")
                if isinstance(v.ty, tuple) and v.ty[0] == "list" and v.src:
                    raise Unsupported(f"{name} returns one of its lists")
                if v.ty == "pq" and v.src and v.src[0] == "obj" and v.src[1] == self.selfname:
                    raise Unsupported(f"{name} returns self")
                stack = list(self.inline_stack)
                self.inline_stack.remove(name)
                self.cur_rais = saved_rais
                try:
                    return k(v, env3)
                finally:
                    self.inline_stack = stack

            def go(i, ce):
                if i == len(params):
                    cctx = Ctx(end=lambda c: back(None, c), ret=back, rais=lambda exc, c: saved_rais(exc, merge(c)))
                    return self.blk(body_no_doc(m), ce, cctx)
                p, v = params[i], vs[i]
                if p.annotation is None or ann_ty(p.annotation) != v.ty:
                    raise Unsupported(f"argument {p.arg} of {name}: {v.ty}")
                self.cur_rais = saved_rais
                return self.bind_local(p.arg, v, ce, lambda ce2: go(i + 1, ce2))
            self.inline_stack.append(name)
            try:
                return go(0, cenv)
            finally:
                if name in self.inline_stack:
                    self.inline_stack.remove(name)
        return self.ev_list(exprs, env, k2)

    def method_call(self, obj, name, e, env, k):
        """`self.m(args)` (inlined) / `c.m(args)` for an already translated method of the class"""
        rais = self.cur_rais
        if obj == self.selfname:
            m = next((n for n in self.cls.body if isinstance(n, ast.FunctionDef) and n.name == name), None)
            if m is None:
                raise Unsupported(f"call of self.{name}, which is not a method of the class")
            return self.inline_call(m, e, env, k)
        if name not in self.helpers:
            raise Unsupported(f"call of {obj}.{name}, which is not a translated method")
        h = self.helpers[name]
        if h["gen"]:
            raise Unsupported(f"call of the generator method {name}")
        if e.keywords or len(e.args) != len(h["params"]):
            raise Unsupported(f"call of {name} with keyword / default arguments")

        def k2(vs, env2):
            for v, (pn, pt) in zip(vs, h["params"]):
                if v.ty != pt:
                    raise Unsupported(f"argument {pn} of {name}: {v.ty} for {pt}")
            callee = f"{h['lean']} H plt {env2.objs[obj]}" + "".join(" " + atom(v.lean) for v in vs)
            r, st = self.fresh("r"), self.fresh("s" if obj == self.selfname else obj + "_")
            env3 = env2.copy()
            env3.objs[obj] = st
            for pl in list(env3.ver) + [("field", obj, "_pq")]:
                if pl[0] == "field" and pl[1] == obj:
                    env3.ver[pl] = self.newver()
                    if pl in env3.iterating:
                        env3.dirty = True
            rt = h["ret"]
            val = Val("none", "none") if rt == "unit" else Val(r, rt, own="fresh" if rt == "pq" else
                                                                ("moved" if rt == "entry" else None))
            if obj != self.selfname:
                # an exception in a method of another object leaves `self` as it is
                err = rais("exc", env2)
            else:
                err = rais("exc", env3)
            if rt == "pq":
                # the result is a new object
                ro = self.fresh("o")
                env3.objs[ro] = r
                val = Val(r, "pq", src=("obj", ro), own="fresh")
            return Match(callee, [(f"(.error exc, {st})", err), (f"(.ok {r}, {st})", k(val, env3))])
        return self.ev_list(e.args, env, k2)

    # -- statements
    def blk(self, stmts, env, ctx):
        if not stmts:
            return ctx.end(env)
        return self.stmt(stmts[0], env, ctx.with_(end=lambda env2: self.blk(stmts[1:], env2, ctx)))

    def bind_local(self, name, v, env, k):
        if name in env.objs or name == self.selfname:
            raise Unsupported(f"re-binding of the object name {name}")
        env = env.copy()
        if v.ty == "pq":
            # a local naming an object: `new = type(self)()`, `c = self.copy()`
            nm = self.fresh(name + "_")
            env.objs[name] = nm
            return Let(nm, "PQ π", v.lean, k(env))
        if isinstance(v.ty, tuple) and v.ty[0] == "list":
            if v.src and v.src[0] in ("field", "local"):
                raise Unsupported(f"{name} would be a second name of a list object")
            nm = self.fresh(name + "_")
            env.lists[name] = (nm, v.ty[1])
            env.dead.discard(name)
            env.ver[("local", name)] = self.newver()
            env.vars.pop(name, None)
            return Let(nm, lean_ty(v.ty), v.lean, k(env))
        if v.ty == "none":
            env.lists.pop(name, None)
            env.vars[name] = Val("none", "none")       # only `is None` tests can read it
            return k(env)
        env.lists.pop(name, None)
        if v.ty == "entry":
            env.vars[name] = v.clone()
            return k(env)
        if re.fullmatch(r"[A-Za-z_][A-Za-z0-9_']*", v.lean) and v.lean not in ("true", "false"):
            env.vars[name] = Val(v.lean, v.ty)          # a second Python name for the same Lean value
            return k(env)
        nm = self.fresh(name + "_")
        env.vars[name] = Val(nm, v.ty)
        return Let(nm, lean_ty(v.ty), v.lean, k(env))

    def assign_to(self, tgt, v, env, k):
        rais = self.cur_rais
        if isinstance(tgt, ast.Name):
            return self.bind_local(tgt.id, v, env, k)
        if isinstance(tgt, ast.Tuple):
            if not (isinstance(v.ty, tuple) and v.ty[0] == "tuple" and len(v.ty[1]) == len(tgt.elts)):
                raise Unsupported("tuple assignment from a non-tuple")
            parts = self.tuple_parts(v)

            def go(i, env2):
                if i == len(tgt.elts):
                    return k(env2)
                return self.assign_to(tgt.elts[i], parts[i], env2, lambda env3: go(i + 1, env3))
            return go(0, env)
        if isinstance(tgt, ast.Attribute) and isinstance(tgt.value, ast.Name):
            base = tgt.value.id
            if base in env.objs:
                if tgt.attr not in FIELDS:
                    raise Unsupported(f"assignment to {base}.{tgt.attr}: not a modelled field")
                pl = self.place_of(tgt, env)
                if pl:
                    return self.assign_list_field(pl, v, env, k)
                return self.set_scalar_field(base, tgt.attr, v, env, k)
            if base in env.vars and env.vars[base].ty == "entry":
                return self.entry_write(base, tgt.attr, v, env, k)
        if isinstance(tgt, ast.Subscript):
            pl = self.need_place(tgt.value, env)
            if isinstance(tgt.slice, ast.Slice):
                if tgt.slice.lower or tgt.slice.upper or tgt.slice.step:
                    raise Unsupported("slice assignment other than l[:] = …")
                return self.assign_list_field(pl, v, env, k, move=False)

            def k2(ix, env2):
                self.check_store(v, pl, env2)
                l2 = self.fresh("l")
                cur = self.place_get(pl, env2)
                if ix.ty == "nat":
                    scrut = f"PyRt.setItem {cur} {atom(ix.lean)} {atom(v.lean)}"
                elif ix.ty == "int":
                    scrut = f"PyRt.setItemI {cur} {atom(ix.lean)} {atom(v.lean)}"
                else:
                    raise Unsupported(f"index of type {ix.ty}")
                return Match(scrut, [("none", rais(".indexError", env2)),
                                     (f"some {l2}", self.place_set(pl, l2, env2, k))])
            return self.ev(tgt.slice, env, k2)
        raise Unsupported(f"assignment target {ast.unparse(tgt)[:60]}")

    def tuple_parts(self, v):
        n = len(v.ty[1])
        out = []
        for i, t in enumerate(v.ty[1]):
            proj = ".2" * i + (".1" if i < n - 1 else "")
            out.append(Val(f"{atom(v.lean)}{proj}", t))
        return out

    def assign_list_field(self, pl, v, env, k, move=True):
        """`obj._pq = v` / `obj._pq[:] = v`"""
        ety = self.place_elem_ty(pl, env)
        if v.ty != ("list", ety):
            raise Unsupported(f"assigning a {v.ty} to a list of {ety}")
        if v.src and v.src[0] == "local":
            if not move:
                # l[:] = local copies the references; the local dies with the call
                pass
            env = env.copy()
            env.dead.add(v.src[1])
        elif v.src and v.src[0] == "field":
            if v.src != pl:
                raise Unsupported("the entry objects of one queue are stored into another (shared mutable entries)")
        elif ety == "entry" and v.own != "fresh":
            raise Unsupported("list of entries of unknown provenance stored into a field")
        return self.place_set(pl, v.lean, env, k)

    def entry_write(self, name, attr, v, env, k):
        """`entry.priority = v` where `entry` names the element of a list place at a known index"""
        ev_ = env.vars[name]
        if attr not in ENTRY_FIELDS:
            raise Unsupported(f"assignment to .{attr} of an entry")
        lf, ty = ENTRY_FIELDS[attr]
        if v.ty != ty:
            raise Unsupported(f"{name}.{attr} := a {v.ty}")
        if ev_.poisoned:
            raise Unsupported(f"{name} may have been changed through another reference")
        if ev_.alias is None:
            if ev_.own in ("fresh", "moved"):
                env = env.copy()
                nm = self.fresh(name + "_")
                env.vars[name] = ev_.clone(lean=nm)
                return Let(nm, "Entry π", f"{{ {ev_.lean} with {lf} := {v.lean} }}", k(env))
            raise Unsupported(f"in-place write to {name}, whose position in a list is not known")
        pl, ix, ver = ev_.alias
        if env.ver.get(pl, 0) != ver:
            raise Unsupported(f"in-place write to {name} after the list it came from was re-arranged")
        env = env.copy()
        nm = self.fresh(name + "_")
        for other, ov in env.vars.items():
            if other != name and ov.ty == "entry":
                ov.poisoned = True       # may be the same object
        env.vars[name] = ev_.clone(lean=nm)
        body = self.place_set(pl, f"{self.place_get(pl, env)}.set {atom(ix)} {nm}", env, k, structural=False)
        return Let(nm, "Entry π", f"{{ {ev_.lean} with {lf} := {v.lean} }}", body)

    def stmt(self, s, env, ctx):
        self.cur_rais = ctx.rais
        if isinstance(s, ast.Pass):
            return ctx.end(env)
        if isinstance(s, ast.Expr):
            if isinstance(s.value, ast.Constant) and isinstance(s.value.value, str):
                return ctx.end(env)
            if isinstance(s.value, ast.Yield):
                return self.yield_stmt(s.value, env, ctx)
            if not isinstance(s.value, ast.Call):
                raise Unsupported(f"expression statement {ast.unparse(s)[:60]}")
            return self.ev(s.value, env, lambda v, env2: ctx.end(env2))
        if isinstance(s, ast.Return):
            if s.value is None:
                return ctx.ret(None, env)

            def kr(v, env2):
                if v.ty == "entry" and v.own not in ("fresh", "moved") and not self.inline_stack:
                    raise Unsupported("a method returns an entry object that is still in a list")
                if isinstance(v.ty, tuple) and v.ty[0] == "list" and v.src:
                    raise Unsupported("a method returns one of its lists")
                return ctx.ret(v, env2)
            return self.ev(s.value, env, kr)
        if isinstance(s, ast.Raise):
            exc = s.exc
            name = exc.func.id if isinstance(exc, ast.Call) and isinstance(exc.func, ast.Name) else \
                (exc.id if isinstance(exc, ast.Name) else None)
            if name not in EXCS or s.cause is not None:
                raise Unsupported(f"raise {ast.unparse(s)[:60]}")
            return ctx.rais(EXCS[name], env)       # the message (an f-string of repr) is not modelled
        if isinstance(s, ast.Break):
            if ctx.brk is None:
                raise Unsupported("break outside a translated loop")
            return ctx.brk(env)
        if isinstance(s, ast.Continue):
            if ctx.cont is None:
                raise Unsupported("continue outside a translated loop")
            return ctx.cont(env)
        if isinstance(s, (ast.Assign, ast.AnnAssign)):
            if isinstance(s, ast.AnnAssign):
                if s.value is None:
                    return ctx.end(env)
                targets = [s.target]
            else:
                targets = s.targets

            def ka(v, env2):
                def go(i, env3):
                    if i == len(targets):
                        return ctx.end(env3)
                    self.cur_rais = ctx.rais
                    return self.assign_to(targets[i], v, env3, lambda env4: go(i + 1, env4))
                return go(0, env2)
            # tuple on both sides: element-wise (no tuple of entries is built)
            if len(targets) == 1 and isinstance(targets[0], ast.Tuple) and isinstance(s.value, ast.Tuple) \
                    and len(targets[0].elts) == len(s.value.elts):
                def kt(vs, env2):
                    def go(i, env3):
                        if i == len(vs):
                            return ctx.end(env3)
                        self.cur_rais = ctx.rais
                        return self.assign_to(targets[0].elts[i], vs[i], env3, lambda env4: go(i + 1, env4))
                    return go(0, env2)
                return self.ev_list(s.value.elts, env, kt)
            return self.ev(s.value, env, ka)
        if isinstance(s, ast.AugAssign):
            if not isinstance(s.op, (ast.Add, ast.Sub, ast.Mult)):
                raise Unsupported("augmented assignment operator")
            load = ast.copy_location(ast.BinOp(left=self.as_load(s.target), op=s.op, right=s.value), s)
            return self.stmt(ast.copy_location(ast.Assign(targets=[s.target], value=load), s), env, ctx)
        if isinstance(s, ast.If):
            def ki(c, env2):
                if c.ty == "bool" and c.lean in ("true", "false"):
                    # decided at translation time (`x is None` on this path): only that branch exists
                    return self.blk(s.body if c.lean == "true" else s.orelse, env2.copy(), ctx)
                a = self.blk(s.body, env2.copy(), ctx)
                b = self.blk(s.orelse, env2.copy(), ctx)
                return If(self.truth(c), a, b)
            return self.ev(s.test, env, ki)
        if isinstance(s, ast.For):
            return self.for_stmt(s, env, ctx)
        if isinstance(s, ast.While):
            return self.while_stmt(s, env, ctx)
        if isinstance(s, ast.Try):
            return self.try_stmt(s, env, ctx)
        raise Unsupported(f"statement {type(s).__name__}: {ast.unparse(s)[:60]}")

    @staticmethod
    def as_load(t):
        t2 = ast.parse(ast.unparse(t), mode="eval").body
        return t2

    # -- for loops
    def iter_source(self, e, env):
        """-> (lean list text, element description) ; element description is a tree:
           ("val", type, place-or-None) | ("pair", a, b) for zipIdx pairs (value, index)"""
        if isinstance(e, ast.Call) and isinstance(e.func, ast.Name) and len(e.args) == 1 and not e.keywords:
            if e.func.id == "enumerate":
                src, d = self.iter_source(e.args[0], env)
                return f"{atom(src)}.zipIdx", ("enum", d)
            if e.func.id == "reversed":
                src, d = self.iter_source(e.args[0], env)
                if d[0] == "enum":
                    raise Unsupported("reversed(enumerate(…))")
                return f"{atom(src)}.reverse", d
            if e.func.id in ("list", "tuple"):
                return self.iter_source(e.args[0], env)
        pl = self.place_of(e, env)
        if pl:
            return f"{atom(self.place_get(pl, env))}.zipIdx", ("elem", self.place_elem_ty(pl, env), pl)
        v = self.pure(e, env)
        if isinstance(v.ty, tuple) and v.ty[0] == "list":
            return v.lean, ("plain", v.ty[1])
        raise Unsupported(f"iteration over {ast.unparse(e)[:60]}")

    def bind_item(self, tgt, d, acc, env, binds):
        """bind loop target `tgt` to the item `acc` described by `d`; returns names bound"""
        if d[0] == "enum":
            if not (isinstance(tgt, ast.Tuple) and len(tgt.elts) == 2 and isinstance(tgt.elts[0], ast.Name)):
                raise Unsupported("enumerate() target must be `i, x`")
            i = self.fresh(tgt.elts[0].id + "_")
            binds.append((i, f"{acc}.2"))
            env.vars[tgt.elts[0].id] = Val(i, "nat")
            env.lists.pop(tgt.elts[0].id, None)
            return [tgt.elts[0].id] + self.bind_item(tgt.elts[1], d[1], f"{acc}.1", env, binds)
        if d[0] == "elem":
            if not isinstance(tgt, ast.Name):
                raise Unsupported("tuple target over a list of entries")
            x, ix = self.fresh(tgt.id + "_"), self.fresh(tgt.id + "_ix")
            binds.append((x, f"{acc}.1"))
            binds.append((ix, f"{acc}.2"))
            env.lists.pop(tgt.id, None)
            env.vars[tgt.id] = Val(x, d[1], own="borrowed" if d[1] == "entry" else None,
                                   alias=(d[2], ix, env.ver.get(d[2], 0)))
            return [tgt.id]
        # plain values
        ty = d[1]
        if isinstance(tgt, ast.Name):
            if ty == "entry":
                raise Unsupported("entries out of a plain list")
            x = self.fresh(tgt.id + "_")
            binds.append((x, acc))
            env.lists.pop(tgt.id, None)
            env.vars[tgt.id] = Val(x, ty)
            return [tgt.id]
        if isinstance(tgt, ast.Tuple) and isinstance(ty, tuple) and ty[0] == "tuple" and len(ty[1]) == len(tgt.elts):
            names = []
            n = len(ty[1])
            for i, (t, sub) in enumerate(zip(tgt.elts, ty[1])):
                proj = ".2" * i + (".1" if i < n - 1 else "")
                names += self.bind_item(t, ("plain", sub), f"{acc}{proj}", env, binds)
            return names
        raise Unsupported("loop target does not match the element type")

    @staticmethod
    def assigned_in(stmts):
        """names (locals / list locals) and object names possibly re-bound or mutated in `stmts`"""
        names = set()
        for st in stmts:
            for n in ast.walk(st):
                if isinstance(n, ast.Name) and isinstance(n.ctx, (ast.Store, ast.Del)):
                    names.add(n.id)
                elif isinstance(n, ast.Call) and isinstance(n.func, ast.Attribute) and isinstance(n.func.value, ast.Name):
                    names.add(n.func.value.id)            # receiver of a method call
                    if n.func.value.id == "heapq":
                        for a in n.args[:1]:
                            if isinstance(a, ast.Name):
                                names.add(a.id)
                elif isinstance(n, (ast.Attribute, ast.Subscript)) and isinstance(n.ctx, ast.Store):
                    b = n.value
                    while isinstance(b, (ast.Attribute, ast.Subscript)):
                        b = b.value
                    if isinstance(b, ast.Name):
                        names.add(b.id)
        return names

    def carried(self, stmts, env, extra=()):
        """loop-carried variables: [(kind, python name)] in a fixed order; self's state first"""
        mod = self.assigned_in(stmts)
        out = [("obj", self.selfname)] if self.selfname in env.objs else []
        for o in env.objs:
            if o != self.selfname and o in mod:
                out.append(("obj", o))
        for l in env.lists:
            if l in mod and l not in env.dead:
                out.append(("list", l))
        for v in env.vars:
            if v in mod and v not in extra:
                if env.vars[v].ty == "entry":
                    raise Unsupported(f"entry variable {v} is re-assigned inside a loop")
                out.append(("var", v))
        return out

    def pack(self, items, env, sep=False):
        parts = []
        for kind, n in items:
            if kind == "obj":
                parts.append(env.objs[n])
            elif kind == "list":
                parts.append(env.lists[n][0])
            elif kind == "ix":
                parts.append(n)
            elif kind == "gen_n":
                parts.append(env.gen[0])
            elif kind == "gen_out":
                parts.append(env.gen[1])
            else:
                parts.append(env.vars[n].lean)
        if sep:
            return "".join(" " + atom(x) for x in parts)
        return parts[0] if len(parts) == 1 else "(" + ", ".join(parts) + ")"

    def pack_ty(self, items, env, as_list=False):
        parts = []
        for kind, n in items:
            if kind == "obj":
                parts.append("PQ π")
            elif kind == "list":
                parts.append(lean_ty(("list", env.lists[n][1])))
            elif kind in ("ix", "gen_n"):
                parts.append("Nat")
            elif kind == "gen_out":
                parts.append("List (⟪Y⟫)")
            else:
                parts.append(lean_ty(env.vars[n].ty))
        if as_list:
            return parts
        return parts[0] if len(parts) == 1 else "(" + " × ".join(parts) + ")"

    def unpack(self, items, env, acc=None, binds=None):
        """rebind the carried variables to fresh names; returns (pattern text or binds, env)"""
        env = env.copy()
        names = []
        n = len(items)
        for i, (kind, nme) in enumerate(items):
            if kind == "obj":
                nm = self.fresh("s" if nme == self.selfname else nme + "_")
                env.objs[nme] = nm
            elif kind == "list":
                nm = self.fresh(nme + "_")
                env.lists[nme] = (nm, env.lists[nme][1])
            elif kind == "ix":
                nm = nme
            elif kind == "gen_n":
                nm = self.fresh("n")
                env.gen = (nm, env.gen[1])
            elif kind == "gen_out":
                nm = self.fresh("out")
                env.gen = (env.gen[0], nm)
            else:
                nm = self.fresh(nme + "_")
                env.vars[nme] = env.vars[nme].clone(lean=nm)
            names.append(nm)
            if binds is not None:
                proj = "" if n == 1 else ".2" * i + (".1" if i < n - 1 else "")
                binds.append((nm, f"{acc}{proj}"))
        self.last_names = names
        pat = names[0] if n == 1 else "(" + ", ".join(names) + ")"
        return pat, env

    def invalidate(self, env, stmts):
        """before a loop body / after a loop: every list the body may re-arrange gets a new version"""
        mod = self.assigned_in(stmts)
        for pl in [("local", l) for l in env.lists if l in mod] + \
                  [("field", o, "_pq") for o in env.objs if o in mod]:
            env.ver[pl] = self.newver()
        return env

    def for_stmt(self, s, env, ctx):
        if getattr(s, "type_comment", None):
            pass
        src, d = self.iter_source(s.iter, env)
        iter_pl = None
        dd = d
        while dd[0] == "enum":
            dd = dd[1]
        if dd[0] == "elem":
            iter_pl = dd[2]
        items = self.carried(s.body, env)
        beta = self.pack_ty(items, env)
        init = self.pack(items, env)
        # body
        binds = []
        _, benv = self.unpack(items, env, "st", binds)
        benv = self.invalidate(benv, [])     # versions are kept: the dirty check below guards iteration
        tnames = self.bind_item(s.target, d, "it", benv, binds)
        if iter_pl:
            benv.iterating.append(iter_pl)
        benv.dirty = False
        # a body that re-arranges a list other than the iterated one: aliases into it die at once
        mod = self.assigned_in(s.body)
        for pl in [("local", l) for l in benv.lists if l in mod] + [("field", o, "_pq") for o in benv.objs if o in mod]:
            if pl != iter_pl:
                benv.ver[pl] = self.newver()
        # break payload: carried + loop targets (+ the alias indices of entry targets)
        brk_items = list(items)
        for t in tnames:
            brk_items.append(("var", t))
            if benv.vars[t].alias:
                brk_items.append(("ix", benv.vars[t].alias[1]))
        brk_envs, end_envs = [], []

        def b_end(env2):
            if env2.dirty:
                raise Unsupported("the loop goes on after the list it iterates was modified")
            end_envs.append(env2)
            return Leaf(f".next {atom(self.pack(items, env2))}")

        def b_brk(env2):
            brk_envs.append(env2)
            return Leaf(f".brk {atom(self.pack(brk_items, env2))}")
        # `return` / `raise` in the body leave through the enclosing context; the leaves they
        # produce are created while `depth` is one higher, i.e. wrapped in one more `.ret`
        self.depth += 1
        bctx = Ctx(b_end, ctx.ret, ctx.rais, b_brk, b_end, None)
        body = self.blk(s.body, benv, bctx)
        self.depth -= 1
        self.cur_rais = ctx.rais
        gamma = self.pack_ty(brk_items, benv) if brk_envs else "Empty"
        loop = ForLoop(beta, gamma, atom(src), atom(init), binds, body)
        arms = [(".ret r", Leaf("r"))]
        # after the loop ran to its end: else-clause, then the rest
        pat, nenv = self.unpack(items, env)
        nenv = self.invalidate(nenv, s.body)
        for t in tnames:
            nenv.vars.pop(t, None)          # possibly unbound (empty sequence)
        arms.append((f".next {atom(pat)}", self.blk(s.orelse, nenv, ctx)))
        if brk_envs:
            bpat, benv2 = self.unpack(brk_items, benv)
            benv2.iterating = list(env.iterating)
            benv2.dirty = env.dirty
            # merge the break points: a list re-arranged on some path invalidates aliases
            for pl in set().union(*[set(e.ver) for e in brk_envs]):
                vs = {e.ver.get(pl, 0) for e in brk_envs}
                benv2.ver[pl] = vs.pop() if len(vs) == 1 else self.newver()
            for t in tnames:
                benv2.vars[t].poisoned = any(e.vars[t].poisoned for e in brk_envs)
            for n, v in env.vars.items():
                if n in benv2.vars and n not in tnames:
                    benv2.vars[n].poisoned = any(e.vars[n].poisoned for e in brk_envs if n in e.vars)
            arms.append((f".brk {atom(bpat)}", ctx.end(benv2)))
        else:
            arms.append((".brk e", Leaf("nomatch e")))
        return Match(loop, arms)

    def frame(self, env):
        """everything a sub-definition (finally block, while loop) can see: objects, live local
        lists, non-entry locals (entry locals are references into lists and stay behind)"""
        items = [("obj", o) for o in env.objs]
        items += [("list", l) for l in env.lists if l not in env.dead]
        items += [("var", v) for v in env.vars if env.vars[v].ty != "entry"]
        if env.gen:
            items += [("gen_n", None), ("gen_out", None)]
        return items

    def enter_frame(self, items, env):
        """environment of a sub-definition whose parameters are the frame; -> (binder text, env)"""
        tys = self.pack_ty(items, env, as_list=True)
        _, fenv = self.unpack(items, env)
        names = self.last_names
        for n in list(fenv.vars):
            if fenv.vars[n].ty == "entry":
                del fenv.vars[n]
        fenv.iterating, fenv.dirty = [], False
        for pl in [("local", l) for l in fenv.lists] + [("field", o, "_pq") for o in fenv.objs]:
            fenv.ver[pl] = self.newver()
        return "".join(f" ({n} : {t})" for n, t in zip(names, tys)), fenv

    def after_frame(self, items, env):
        """environment after a sub-definition returned the frame; -> (pattern, env)"""
        for kind, n in items:
            if kind == "list" and n in env.dead:
                raise Unsupported(f"list {n} is needed here but was stored into a field")
        pat, env2 = self.unpack(items, env)
        for pl in [("local", l) for l in env2.lists] + [("field", o, "_pq") for o in env2.objs]:
            env2.ver[pl] = self.newver()
        return pat, env2

    def try_stmt(self, s, env, ctx):
        if s.handlers or s.orelse or not s.finalbody:
            raise Unsupported("try statement other than try/finally")
        items = [i for i in self.frame(env) if not i[0].startswith("gen_")]   # a finally block cannot yield
        self.naux += 1
        name = f"{self.lean_name}.fin{self.naux}"
        binders, fenv = self.enter_frame(items, env)
        fty = self.pack_ty(items, env)
        saved, self.depth = self.depth, 0

        fin_dead = set()

        def f_end(e):
            fin_dead.update(e.dead)       # a local list stored into a field is that field from now on
            return Final(self, self.depth, lambda: f"(.ok (), {self.pack(items, e)})", "aux")

        def f_rais(exc, e):
            return Final(self, self.depth, lambda: f"(.error {exc}, {self.pack(items, e)})", "aux")

        def f_no(*a):
            raise Unsupported("return / break / continue / yield inside a finally block")
        saved_rais = self.cur_rais
        node = self.blk(s.finalbody, fenv, Ctx(f_end, f_no, f_rais, f_no, f_no, None))
        self.depth = saved
        self.cur_rais = saved_rais
        self.aux.append((f"/-- the `finally:` block at src/asynkit/tools.py:{s.finalbody[0].lineno - 1} -/\n"
                         f"def {name} {self.BINDERS}{binders} : Except Exc Unit × {fty} :=", node))

        def run_fin(env2, then):
            for kind, n in items:
                if kind == "list" and n in env2.dead:
                    raise Unsupported(f"list {n} is needed by the finally block but was stored into a field")
            args = self.pack(items, env2, sep=True)
            pat, env3 = self.after_frame(items, env2)
            env3.dead |= fin_dead
            exc = self.fresh("exc")
            return Match(f"{name} {self.FIX}{args}", [(f"(.error {exc}, {pat})", ctx.rais(exc, env3)),
                                                  (f"(.ok _, {pat})", then(env3))])
        ctx2 = ctx.with_(end=lambda e: run_fin(e, ctx.end),
                         ret=lambda v, e: run_fin(e, lambda e3: ctx.ret(v, e3)),
                         rais=lambda exc, e: run_fin(e, lambda e3: ctx.rais(exc, e3)),
                         brk=(lambda e: run_fin(e, ctx.brk)) if ctx.brk else None,
                         cont=(lambda e: run_fin(e, ctx.cont)) if ctx.cont else None)
        return self.blk(s.body, env, ctx2)

    def while_stmt(self, s, env, ctx):
        """`while c: body` in a generator: a recursive auxiliary definition; Lean accepts it only if
        every way round the loop passes a `yield` (structural recursion on the remaining `next()`s)"""
        if ctx.yld is None or env.gen is None:
            raise Unsupported("while loop outside a generator")
        if s.orelse:
            raise Unsupported("while … else")
        if self.depth != 0:
            raise Unsupported("while loop nested in another loop")
        items = self.frame(env)
        self.naux += 1
        name = f"{self.lean_name}.loop{self.naux}"
        binders, benv = self.enter_frame(items, env)
        fty = self.pack_ty(items, env)
        self.depth = 1
        saved_rais = self.cur_rais

        def b_next(e):
            return Leaf(f"{name} {self.FIX}{self.pack(items, e, sep=True)}")

        def b_exit(e):
            return Leaf(f".next {atom(self.pack(items, e))}")
        bctx = Ctx(b_next, ctx.ret, ctx.rais, b_exit, b_next, ctx.yld)
        self.cur_rais = ctx.rais
        node = self.ev(s.test, benv, lambda c, e2: If(self.truth(c), self.blk(s.body, e2.copy(), bctx), b_exit(e2)))
        self.depth = 0
        self.cur_rais = saved_rais
        self.aux.append((f"/-- the `while` loop at src/asynkit/tools.py:{s.lineno} -/\n"
                         f"def {name} {self.BINDERS}{binders} : PyRt.Ctl {fty} Empty (⟪R⟫) :=", node))
        args = self.pack(items, env, sep=True)
        pat, env3 = self.after_frame(items, env)
        return Match(f"{name} {self.FIX}{args}", [(".ret r", Leaf("r")), (f".next {pat}", ctx.end(env3)),
                                              (".brk e", Leaf("nomatch e"))])

    def yield_stmt(self, y, env, ctx):
        if ctx.yld is None or env.gen is None:
            raise Unsupported("yield here (inside a for loop / finally block / plain method)")
        if y.value is None:
            raise Unsupported("bare yield")

        def ky(v, env2):
            if v.ty == "entry" or v.ty == "none" or (isinstance(v.ty, tuple) and v.ty[0] == "list"):
                raise Unsupported(f"yield of a {v.ty}")
            if self.yield_ty is None:
                self.yield_ty = v.ty
            elif self.yield_ty != v.ty:
                raise Unsupported("yields of different types")
            n, out = env2.gen
            out2, n2 = self.fresh("out"), self.fresh("n")
            e_exit = env2.copy()
            e_exit.gen = (n, out2)
            e_go = env2.copy()
            e_go.gen = (n2, out2)
            # the consumer either calls next() again or close()s: GeneratorExit is raised here
            return Let(out2, "List (⟪Y⟫)", f"{out} ++ [{v.lean}]",
                       Match(n, [("0", ctx.rais(".generatorExit", e_exit)), (f"{n2} + 1", ctx.end(e_go))]))
        return self.ev(y.value, env, ky)

    # -- whole method
    def translate(self):
        fn = self.fn
        a = fn.args
        if a.vararg or a.kwarg or a.kwonlyargs or a.posonlyargs:
            raise Unsupported("parameter kinds")
        if fn.decorator_list:
            raise Unsupported("decorated method")
        self.selfname = a.args[0].arg
        env = Env()
        env.objs[self.selfname] = "s"
        params = []
        for p in a.args[1:]:
            if p.annotation is None:
                raise Unsupported(f"parameter {p.arg} has no annotation")
            ty = ann_ty(p.annotation)
            nm = p.arg + "_"
            params.append((p.arg, ty, nm))
            if isinstance(ty, tuple) and ty[0] == "list":
                if ty[1] == "entry":
                    raise Unsupported("list of entries as a parameter")
                env.vars[p.arg] = Val(nm, ty)
            else:
                env.vars[p.arg] = Val(nm, ty)
        self.params = params
        return env

    def method_text(self, lean_name):
        env = self.translate()
        if self.fn.name == "__init__":
            return self.init_text(lean_name, env)
        ctx = Ctx(end=lambda e: self.final("ret", None, e),
                  ret=lambda v, e: self.final("ret", v, e),
                  rais=lambda exc, e: self.final("raise", exc, e))
        self.cur_rais = ctx.rais
        node = self.blk(body_no_doc(self.fn), env, ctx)
        self.resolve_ret()
        sig = "".join(f" ({nm} : {lean_ty(ty)})" for _, ty, nm in self.params)
        lines = [f"/-- `{self.cls.name}.{self.fn.name}` (src/asynkit/tools.py:{self.fn.lineno}) -/",
                 f"def {lean_name} {BINDERS} (s : PQ π){sig} : Except Exc ({lean_ty(self.ret_ty)}) × PQ π :="]
        lines += node.lines("  ")
        self.info = {"lean": lean_name, "params": [(n, t) for n, t, _ in self.params], "ret": self.ret_ty, "gen": False}
        return self.aux_text() + "\n".join(lines)

    def aux_text(self):
        out = []
        for header, node in self.aux:
            out += [header] + node.lines("  ") + [""]
        return "\n".join(out) + ("\n" if out else "")

    def init_text(self, lean_name, env):
        """`__init__`: every assignment must be `self.<field> = <constant>`; the result is the
        initial record"""
        vals = {}
        for st in body_no_doc(self.fn):
            if isinstance(st, ast.AnnAssign):
                tgt, val = st.target, st.value
            elif isinstance(st, ast.Assign) and len(st.targets) == 1:
                tgt, val = st.targets[0], st.value
            else:
                raise Unsupported(f"__init__: {ast.unparse(st)[:60]}")
            if not (isinstance(tgt, ast.Attribute) and isinstance(tgt.value, ast.Name) and tgt.value.id == self.selfname
                    and tgt.attr in FIELDS):
                raise Unsupported(f"__init__ assigns {ast.unparse(tgt)[:40]}, which the model does not have")
            lf, ty = FIELDS[tgt.attr]
            if ty == "nat" and isinstance(val, ast.Constant) and isinstance(val.value, int) \
                    and not isinstance(val.value, bool) and val.value >= 0:
                vals[lf] = str(val.value)
            elif isinstance(ty, tuple) and isinstance(val, ast.List) and not val.elts:
                vals[lf] = "[]"
            else:
                raise Unsupported(f"__init__: initial value {ast.unparse(val)[:40]}")
        if set(vals) != {v[0] for v in FIELDS.values()}:
            raise Unsupported("__init__ does not initialise every modelled field")
        self.info = {"lean": lean_name, "params": [], "ret": "pq", "gen": False}
        return (f"/-- `{self.cls.name}.__init__` (src/asynkit/tools.py:{self.fn.lineno}) -/\n"
                f"def {lean_name} {{π : Type}} : PQ π :=\n  {{ " + ", ".join(f"{k} := {v}" for k, v in vals.items()) + " }")


class GenFn(Fn):
    """a generator method, translated for the driver `k × next()` (stopping at StopIteration or an
    exception), then `close()`:  `def m … (k : Nat) : GenRes Y × PQ π`.

    `k = 0`: `close()` of a generator that never started runs nothing.  Otherwise the body runs
    with `n` = the number of `next()` calls still to come and `out` = the values yielded so far;
    `yield v` appends `v` and, when `n = 0`, raises GeneratorExit at that point (the `close()`),
    else goes on with `n - 1`.  Falling off the end / `return` is StopIteration: the driver stops.
    GeneratorExit leaving the body is swallowed by `close()`; any other exception is reported in
    `GenRes.exc` (it propagates out of `next()`)."""

    def method_text(self, lean_name):
        env = self.translate()
        env.gen = ("n0", "out0")

        def res(e, exc):
            return f"(⟨{e.gen[1]}, {exc}⟩, {e.objs[self.selfname]})"

        def g_ret(v, e):
            if v is not None and v.ty != "none":
                raise Unsupported("return with a value in a generator")
            return Final(self, self.depth, lambda: res(e, "none"), "aux")
        ctx = Ctx(end=lambda e: Final(self, self.depth, lambda: res(e, "none"), "aux"),
                  ret=g_ret,
                  rais=lambda exc, e: Final(self, self.depth, lambda: res(e, f"PyRt.escaped {exc}"), "aux"),
                  yld=True)
        self.cur_rais = ctx.rais
        node = self.blk(body_no_doc(self.fn), env, ctx)
        if self.yield_ty is None:
            raise Unsupported("generator without a translatable yield")
        sig = "".join(f" ({nm} : {lean_ty(ty)})" for _, ty, nm in self.params)
        rty = f"PyRt.GenRes (⟪Y⟫) × PQ π"
        lines = [f"/-- `{self.cls.name}.{self.fn.name}` (src/asynkit/tools.py:{self.fn.lineno}), a generator, driven by",
                 "    `k` calls of `next()` and then `close()` -/",
                 f"def {lean_name} {BINDERS} (s : PQ π){sig} (k : Nat) : {rty} :=",
                 "  match k with", "  | 0 => (⟨[], none⟩, s)", "  | n0 + 1 =>",
                 "    let out0 : List (⟪Y⟫) := []"]
        lines += node.lines("    ")
        self.info = {"lean": lean_name, "params": [(n, t) for n, t, _ in self.params], "ret": None, "gen": True}
        text = self.aux_text() + "\n".join(lines)
        return text.replace("⟪R⟫", rty).replace("⟪Y⟫", lean_ty(self.yield_ty))


# ---- the class --------------------------------------------------------------------------------

LEAN_NAMES = {"__init__": "init", "__len__": "len", "__bool__": "bool"}
# methods GenEqPQ.lean has an equality for: they must exist (anything else that translates is emitted too)
REQUIRED = ["__init__", "__len__", "__bool__", "add", "pop", "popitem", "peek", "peekitem", "extend", "remove",
            "find", "reschedule", "refresh", "sort", "sorted", "clear", "copy", "ordereditems"]


def stub(lean_name, what, msg):
    m = (what + ": " + msg).replace("\\", "\\\\").replace('"', "'").replace("\n", " ")
    return (f"-- pq2lean: UNSUPPORTED {m}\n"
            f"def {lean_name} : Unit := (\"pq2lean cannot translate {m}\" : String)")


def make_fn(cls, fn, helpers, module):
    if any(isinstance(n, (ast.Yield, ast.YieldFrom)) for n in ast.walk(fn)):
        return GenFn(cls, fn, helpers, module)
    return Fn(cls, fn, helpers, module)


MUTATORS = {"append", "extend", "insert", "remove", "pop", "clear", "sort", "reverse", "popleft", "appendleft",
            "rotate", "update", "add", "discard", "setdefault", "popitem", "__setitem__", "__delitem__", "__setattr__"}
READERS = ("len", "bool", "iter", "reversed", "enumerate", "list", "tuple", "sorted")


def read_only(m, translated):
    """a method the translator cannot express but that evidently leaves every queue alone (plain
    iteration protocols): no store to an attribute or subscript, no call of a mutating container
    method or of heapq on anything, and `self.<x>` occurs only as the iterable of a `for`, as the
    argument of len/bool/reversed/enumerate/…, or as a call of an already translated method"""
    me = m.args.args[0].arg if m.args.args else None
    parent = {}
    for n in ast.walk(m):
        for c in ast.iter_child_nodes(n):
            parent[c] = n
    for n in ast.walk(m):
        if isinstance(n, (ast.Attribute, ast.Subscript)) and isinstance(n.ctx, (ast.Store, ast.Del)):
            return False
        if isinstance(n, (ast.Global, ast.Nonlocal, ast.Lambda, ast.Await, ast.AsyncFor, ast.AsyncWith)):
            return False
        if isinstance(n, ast.Call) and isinstance(n.func, ast.Attribute):
            if n.func.attr in MUTATORS and not (isinstance(n.func.value, ast.Name) and n.func.value.id == me):
                return False
            if isinstance(n.func.value, ast.Name) and n.func.value.id == "heapq":
                return False
        if isinstance(n, ast.Call) and isinstance(n.func, ast.Name) and n.func.id in ("setattr", "delattr", "exec", "eval",
                                                                                      "vars", "getattr"):
            return False
        if isinstance(n, ast.Name) and n.id == me:
            p = parent.get(n)
            if not (isinstance(p, ast.Attribute) and p.value is n):
                return False                                  # bare `self` handed around
            pp = parent.get(p)
            if isinstance(pp, ast.Call) and pp.func is p and p.attr in translated:
                continue                                      # self.m(...)
            if isinstance(pp, ast.For) and pp.iter is p:
                continue                                      # for x in self._pq
            if isinstance(pp, ast.Call) and isinstance(pp.func, ast.Name) and pp.func.id in READERS and p in pp.args:
                continue                                      # len(self._pq), reversed(self._pq), …
            return False
    return True


def generate(src: Path) -> dict:
    strict = os.environ.get("PQ2LEAN_STRICT") == "1"
    tree = ast.parse((src / "asynkit/tools.py").read_text())
    cls = next((n for n in ast.walk(tree) if isinstance(n, ast.ClassDef) and n.name == "PriorityQueue"), None)
    out = ["-- GENERATED by translator/pq2lean.py from src/asynkit/tools.py (class PriorityQueue) — do not edit",
           "import Asynkit.Model.PQ", "import Asynkit.Model.PyRt", "import Asynkit.Gen.PriEntry",
           "set_option linter.unusedVariables false",
           "namespace Asynkit.Gen.PQ", "open Asynkit Asynkit.PyRt",
           ""]
    problems = []
    if cls is None:
        if strict:
            raise Unsupported("class PriorityQueue not found")
        out.append(stub("missing", "tools.py", "class PriorityQueue not found"))
        problems.append("class PriorityQueue not found")
        methods = []
    else:
        methods = [n for n in cls.body if isinstance(n, ast.FunctionDef)]
        for n in cls.body:
            if isinstance(n, (ast.AsyncFunctionDef, ast.ClassDef)):
                problems.append(f"nested {type(n).__name__} {n.name}")
        for b in cls.bases:
            if not (isinstance(b, ast.Subscript) and isinstance(b.value, ast.Name) and b.value.id == "Generic"):
                problems.append(f"base class {ast.unparse(b)[:40]} (inherited methods are not translated)")
        if cls.decorator_list or cls.keywords:
            problems.append("class decorators / metaclass")
        if any(p.startswith(("nested", "base class", "class decorators")) for p in problems):
            out.append(stub("classShape", "class PriorityQueue", "; ".join(problems)))
    # translate in dependency order: a method that calls self.m() needs m first
    names = [m.name for m in methods]
    helpers = {}
    done = set()
    texts = {}

    def deps(m):
        ds = set()
        for n in ast.walk(m):
            if isinstance(n, ast.Call) and isinstance(n.func, ast.Attribute) and isinstance(n.func.value, ast.Name) \
                    and n.func.attr in names and n.func.attr != m.name:
                ds.add(n.func.attr)
            if isinstance(n, ast.Call) and not n.args and isinstance(n.func, (ast.Call, ast.Name, ast.Attribute)):
                if (isinstance(n.func, ast.Name) and n.func.id == "PriorityQueue") or \
                        (isinstance(n.func, ast.Call) and isinstance(n.func.func, ast.Name) and n.func.func.id == "type") or \
                        (isinstance(n.func, ast.Attribute) and n.func.attr == "__class__"):
                    if m.name != "__init__" and "__init__" in names:
                        ds.add("__init__")
        return ds

    order = []
    visiting = set()

    def visit(m):
        if m.name in done or m.name in visiting:
            return
        visiting.add(m.name)
        for d in sorted(deps(m)):
            visit(next(x for x in methods if x.name == d))
        visiting.discard(m.name)
        done.add(m.name)
        order.append(m)
    for m in methods:
        visit(m)
    for m in order:
        lean_name = LEAN_NAMES.get(m.name, m.name)
        try:
            f = make_fn(cls, m, helpers, tree)
            texts[m.name] = f.method_text(lean_name)
            helpers[m.name] = f.info
        except Unsupported as e:
            if m.name not in REQUIRED and read_only(m, set(helpers)):
                texts[m.name] = (f"-- `{cls.name}.{m.name}` (src/asynkit/tools.py:{m.lineno}) is not translated ({e});\n"
                                 f"-- it stores nothing itself and calls only translated methods of the class")
                continue
            if strict:
                raise Unsupported(f"PriorityQueue.{m.name}: {e}")
            problems.append(f"PriorityQueue.{m.name}: {e}")
            texts[m.name] = stub(lean_name, f"PriorityQueue.{m.name}", str(e))
        except (KeyError, IndexError, AttributeError, TypeError, ValueError, AssertionError, RecursionError) as e:
            # a shape the translator did not anticipate: just as loud
            msg = f"internal {type(e).__name__}: {e}"
            if strict:
                raise Unsupported(f"PriorityQueue.{m.name}: {msg}")
            problems.append(f"PriorityQueue.{m.name}: {msg}")
            texts[m.name] = stub(lean_name, f"PriorityQueue.{m.name}", msg)
    for r in REQUIRED:
        if r not in texts:
            if strict:
                raise Unsupported(f"PriorityQueue.{r} not found")
            problems.append(f"PriorityQueue.{r}: method not found")
            texts[r] = stub(LEAN_NAMES.get(r, r), f"PriorityQueue.{r}", "method not found")
            order.append(ast.FunctionDef(name=r))
    for m in order:
        if m.name in texts:
            out.append(texts[m.name])
            out.append("")
    out.append("end Asynkit.Gen.PQ")
    for p in problems:
        print(f"pq2lean: UNSUPPORTED {p}", file=sys.stderr)
    return {"PQ.lean": "\n".join(out) + "\n"}


if __name__ == "__main__":
    for name, text in generate(Path(sys.argv[1])).items():
        if len(sys.argv) > 2:
            (Path(sys.argv[2]) / name).write_text(text)
        else:
            print(text)
