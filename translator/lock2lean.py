"""lock2lean — regenerate `Asynkit/Gen/Lock.lean` from the source of the lock layer of

    experimental/priority.py : PriorityLock.{release,_wake_up_first,_take_lock,effective_priority,
                               propagate_priority,acquire}, PriorityTask.{add_owned_lock,
                               remove_owned_lock,set_waiting_on,priority,effective_priority,
                               propagate_priority}, the `_waiting_on` context manager and every module
                               level helper they call

as Lean definitions over the state and the primitives of `Asynkit/Model/LockPrims.lean`.
`Asynkit/Lemmas/GenEqLock.lean` proves them equal to the events of `Asynkit/Model/Lock.lean` and to
`PrioGraph.effT/effL`.

The translation is generic and statement by statement, in continuation-passing style: the statements
after an `if` are translated once per branch (what the branch learned - "this Optional is not None" -
flows on), `try/finally`, `with` and `return` run the pending finalisers, `try/except AttributeError`
around a duck-typed call becomes a test "is the object a PriorityTask / does the loop have the method".
Methods that call each other recursively get a recursion bound (`fuel`), decremented at every call
inside the group; callers outside pass `s.fuel`.  A coroutine is translated segment by segment: from
its entry to the `await`, and from the `await` - resumed by a value, or by an exception - to its end,
honouring the `finally` clauses and the exit of the context manager on both resumptions.
Everything outside the supported subset raises `Unsupported` (the unit is then poisoned).
"""
import ast
from pathlib import Path


class Unsupported(Exception):
    pass


LEAN_TYPE = {"lock": "Nat", "task": "Nat", "ptask": "Nat", "opttask": "Option Nat", "optlock": "Option Nat",
             "rat": "Rat", "optrat": "Option Rat", "bool": "Bool", "ratlist": "List Rat",
             "optratlist": "List (Option Rat)", "boollist": "List Bool", "entry": "Waiter", "myentry": "Nat", "unit": "Unit"}
OPT_OF = {"opttask": "task", "optlock": "lock", "optrat": "rat"}
TO_OPT = {v: k for k, v in OPT_OF.items()}
TO_OPT["ptask"] = "opttask"

PRIO_TASK_METHODS = {"add_owned_lock", "remove_owned_lock", "set_waiting_on", "priority",
                     "effective_priority", "propagate_priority"}
LOCK_METHODS = {"release", "_wake_up_first", "_take_lock", "effective_priority", "propagate_priority", "acquire"}
RUNTIME_MESSAGES = {"Lock is not acquired.": "notAcquired"}


def lname(pyname, cls):
    parts = [p for p in pyname.strip("_").split("_") if p]
    camel = parts[0] + "".join(p.capitalize() for p in parts[1:])
    return {"PriorityLock": "lock", "PriorityTask": "task", None: ""}[cls] + (camel[0].upper() + camel[1:] if cls else camel)


def _doc_free(body):
    if body and isinstance(body[0], ast.Expr) and isinstance(body[0].value, ast.Constant) \
            and isinstance(body[0].value.value, str):
        return body[1:]
    return body


def _is_none(e):
    return isinstance(e, ast.Constant) and e.value is None


def ind(text, n=2):
    pad = " " * n
    return "\n".join(pad + ln if ln else ln for ln in text.split("\n"))


class Val:
    """a translated value: kind + Lean term (+ extra data for entries/futures/closures)"""

    def __init__(self, kind, term, extra=None):
        self.kind, self.term, self.extra = kind, term, extra


class Unit:
    """the whole lock-layer unit: function registry, call graph, emission"""

    def __init__(self, tree):
        self.tree = tree
        self.classes, self.funcs = {}, {}
        for node in tree.body:
            if isinstance(node, ast.ClassDef):
                self.classes[node.name] = {n.name: n for n in node.body
                                           if isinstance(n, (ast.FunctionDef, ast.AsyncFunctionDef))}
            elif isinstance(node, (ast.FunctionDef, ast.AsyncFunctionDef)):
                self.funcs[node.name] = node
        for c in ("PriorityLock", "PriorityTask"):
            if c not in self.classes:
                raise Unsupported(f"class {c} not found")
        self.done = {}          # key -> dict(name, params, ret, pure, text, calls)
        self.order = []
        self.stack = []
        self.recursive = set()  # keys known to be in a recursive group (pass 2)
        self.edges = {}

    # ------------------------------------------------------------------ registry
    def find(self, cls, name):
        if cls is None:
            if name in self.funcs:
                return self.funcs[name]
            raise Unsupported(f"module function {name} not found")
        if name in self.classes[cls]:
            return self.classes[cls][name]
        raise Unsupported(f"{cls}.{name} not found")

    def request(self, cls, name, argkinds):
        """make sure the function is translated for these argument kinds; -> its record"""
        # only `self` of a PriorityTask method is known to be a PriorityTask inside the callee
        argkinds = [kd if (i == 0 and cls == "PriorityTask") else ("task" if kd == "ptask" else kd)
                    for i, kd in enumerate(argkinds)]
        key = (cls, name, tuple(argkinds))
        if self.stack:
            self.edges.setdefault(self.stack[-1], set()).add(key)
        if key in self.done:
            return self.done[key]
        if key in self.stack:
            # recursion: the record is not finished yet; signature from the declared result kind
            if self.provisional.get(key) is None:
                raise Unsupported(f"recursive call of {cls}.{name} whose result kind is not declared")
            return self.provisional[key]
        node = self.find(cls, name)
        tr = FnTr(self, cls, node, key)
        self.stack.append(key)
        self.provisional = getattr(self, "provisional", {})
        self.provisional[key] = tr.signature()
        try:
            rec = tr.translate()
        finally:
            self.stack.pop()
        self.done[key] = rec
        self.order.append(key)
        return rec

    def sccs(self):
        """recursive groups of the call graph (Tarjan)"""
        index, low, onst, st, out, counter = {}, {}, set(), [], [], [0]

        def visit(v):
            index[v] = low[v] = counter[0]
            counter[0] += 1
            st.append(v)
            onst.add(v)
            for w in self.edges.get(v, ()):
                if w not in index:
                    visit(w)
                    low[v] = min(low[v], low[w])
                elif w in onst:
                    low[v] = min(low[v], index[w])
            if low[v] == index[v]:
                comp = []
                while True:
                    w = st.pop()
                    onst.discard(w)
                    comp.append(w)
                    if w == v:
                        break
                out.append(comp)
        for v in list(self.edges) + [k for k in self.done]:
            if v not in index:
                visit(v)
        rec = set()
        for comp in out:
            if len(comp) > 1 or comp[0] in self.edges.get(comp[0], ()):
                rec.update(comp)
        return rec, out


class FnTr:
    """translator of one function (or of the segments of one coroutine / context manager)"""

    def __init__(self, unit, cls, node, key):
        self.u, self.cls, self.node, self.key = unit, cls, node, key
        self.argkinds = key[2]
        self.fresh = 0
        self.effect = False          # touches the state or can raise
        self.is_async = isinstance(node, ast.AsyncFunctionDef)
        self.ret_kind = None
        self.recursive = key in unit.recursive

    # ------------------------------------------------------------------ signature
    def params(self):
        args = [a.arg for a in self.node.args.args]
        if len(args) != len(self.argkinds):
            raise Unsupported(f"{self.node.name}: {len(args)} parameters, {len(self.argkinds)} argument kinds")
        return list(zip(args, self.argkinds))

    def signature(self):
        cls, name, kinds = self.key
        prev = self.u.provisional.get(self.key) if hasattr(self.u, "provisional") else None
        if prev:
            return prev
        hint = RET_HINT.get((cls, name))
        if hint is None:
            return None
        return {"name": lname(name, cls), "ret": hint[0], "pure": hint[1], "recursive": True, "key": self.key}

    def new(self, base):
        self.fresh += 1
        return f"{str(base).replace('.', '_').strip('_') or 'v'}_{self.fresh}"

    # ------------------------------------------------------------------ results
    def ok(self, val):
        """term for a normal return"""
        if not self.effect_mode:
            return val.term if val is not None else "()"
        if val is None or val.kind == "unit":
            return ".ok s"
        return f".ok (s, {val.term})"

    def err(self, kind):
        self.effect = True
        if not self.effect_mode:
            raise NeedEffect()
        return f".error (.{kind}, s)"

    # ------------------------------------------------------------------ expressions (pure)
    def val(self, e, env):
        if isinstance(e, ast.Name):
            if e.id in env:
                return env[e.id]
            raise Unsupported(f"unknown name {e.id}")
        src = ast.unparse(e)
        if ("expr", src) in env:
            return env[("expr", src)]
        if _is_none(e):
            return Val("none", "none")
        if isinstance(e, ast.Constant):
            if e.value is True or e.value is False:
                return Val("bool", "true" if e.value else "false")
            if isinstance(e.value, int):
                return Val("rat", f"({e.value} : Rat)")
        if isinstance(e, ast.List) and not e.elts:
            return Val("emptylist", "[]")
        if isinstance(e, ast.Tuple):
            return Val("tuple", None, [self.val(x, env) for x in e.elts])
        if isinstance(e, ast.Attribute):
            base = self.val(e.value, env)
            return self.attr(base, e.attr, src)
        if isinstance(e, ast.IfExp):
            return self.ifexp(e, env)
        if isinstance(e, ast.Compare) or isinstance(e, ast.BoolOp) or \
                (isinstance(e, ast.UnaryOp) and isinstance(e.op, ast.Not)):
            return Val("bool", self.boolterm(e, env))
        if isinstance(e, ast.GeneratorExp) or isinstance(e, ast.ListComp):
            return self.genexp(e, env)
        if isinstance(e, ast.Call):
            return self.call_value(e, env)
        raise Unsupported(f"expression {src[:80]}")

    def attr(self, base, name, src):
        k = base.kind
        if k == "lock":
            if name == "_locked":
                return Val("bool", f"(lockLocked s {base.term})")
            if name == "_owning":
                return Val("optweak", f"(lockOwning s {base.term})")
            if name == "_waiters":
                return Val("pq", base.term)
        if k in ("task", "ptask"):
            if k == "task" and name in ("_holding_locks", "_waiting_on", "priority_value"):
                raise Unsupported(f"attribute {name} of an object that is not known to be a PriorityTask")
            if name == "_holding_locks":
                return Val("lockset", base.term)
            if name == "_waiting_on":
                return Val("optlock", f"(waitingOnOf s {base.term})")
            if name == "priority_value":
                return Val("rat", f"(priorityValue s {base.term})")
        methods = {"lock": set(self.u.classes["PriorityLock"]), "ptask": set(self.u.classes["PriorityTask"]),
                   "pq": {"add", "remove", "reschedule", "peek"}, "fut": {"done", "set_result"},
                   "lockset": {"add", "remove"}, "ratlist": {"append"}}
        if name in methods.get(k, ()):
            self.fresh += 1
            return Val("boundmethod", None, (base, name, f"_bound{self.fresh}"))
        raise Unsupported(f"attribute .{name} of a {k} ({src[:60]})")

    def ifexp(self, e, env):
        """`a if c else b` as a value; the condition may refine names for the chosen branch"""
        def then_k(env2):
            return self.val(e.body, env2)

        def else_k(env2):
            return self.val(e.orelse, env2)
        res = {}

        def emit_then(env2):
            res["t"] = then_k(env2)
            return "@T@"

        def emit_else(env2):
            res["e"] = else_k(env2)
            return "@E@"
        skeleton = self.cond(e.test, env, emit_then, emit_else)
        t, el = res.get("t"), res.get("e")
        if t is None or el is None:
            raise Unsupported("conditional expression with a branch that is never taken")
        kind, tt, et = self.unify(t, el)
        return Val(kind, "(" + skeleton.replace("@T@", tt).replace("@E@", et) + ")")

    def unify(self, a, b):
        if a.kind == b.kind:
            return a.kind, a.term, b.term
        if a.kind == "ptask" and b.kind == "task" or a.kind == "task" and b.kind == "ptask":
            return "task", a.term, b.term
        if b.kind == "none" and a.kind in TO_OPT:
            return TO_OPT[a.kind], f"(some {a.term})", "none"
        if a.kind == "none" and b.kind in TO_OPT:
            return TO_OPT[b.kind], "none", f"(some {b.term})"
        if b.kind == "none" and a.kind in OPT_OF:
            return a.kind, a.term, "none"
        if a.kind == "none" and b.kind in OPT_OF:
            return b.kind, "none", b.term
        if a.kind in TO_OPT and b.kind == TO_OPT[a.kind]:
            return b.kind, f"(some {a.term})", b.term
        if b.kind in TO_OPT and a.kind == TO_OPT[b.kind]:
            return a.kind, a.term, f"(some {b.term})"
        raise Unsupported(f"cannot unify kinds {a.kind} / {b.kind}")

    def boolterm(self, e, env):
        return "(" + self.cond(e, env, lambda _: "true", lambda _: "false") + ")"

    def genexp(self, e, env):
        if len(e.generators) != 1 or e.generators[0].is_async:
            raise Unsupported("generator expression with several `for`")
        g = e.generators[0]
        it, elem_kind, elem_var = self.iterable(g.iter, env)
        if isinstance(g.target, ast.Tuple) and isinstance(elem_kind, tuple) and len(g.target.elts) == 2 \
                and all(isinstance(t, ast.Name) for t in g.target.elts) and not g.ifs:
            v = self.new("w")
            parts = [Val("fut", v, elem_kind[1]), Val("weak", f"{v}.task", "task")]
            env2 = dict(env)
            for t, p_ in zip(g.target.elts, parts):
                if t.id != "_":
                    env2[t.id] = p_
            elt = self.val(e.elt, env2)
            if elt.kind not in LIST_OF:
                raise Unsupported(f"generator expression of {elt.kind}")
            return Val(LIST_OF[elt.kind], f"({it}.map (fun ({v} : Waiter) => {elt.term}))")
        if not isinstance(g.target, ast.Name):
            raise Unsupported("generator expression with a tuple target")
        if isinstance(elem_kind, tuple):
            raise Unsupported("generator expression over queue entries without unpacking them")
        v = self.new(g.target.id)
        env2 = {**env, g.target.id: Val(elem_kind, v)}
        if g.ifs:
            if len(g.ifs) == 1 and isinstance(e.elt, ast.Name) and e.elt.id == g.target.id \
                    and elem_kind in OPT_OF and isinstance(g.ifs[0], ast.Compare) \
                    and isinstance(g.ifs[0].ops[0], ast.IsNot) and _is_none(g.ifs[0].comparators[0]) \
                    and isinstance(g.ifs[0].left, ast.Name) and g.ifs[0].left.id == g.target.id:
                return Val(LIST_OF[OPT_OF[elem_kind]], f"({it}.filterMap (fun {v} => {v}))")
            raise Unsupported("generator expression with a filter other than `x is not None`")
        elt = self.val(e.elt, env2)
        if elt.kind not in LIST_OF:
            raise Unsupported(f"generator expression of {elt.kind}")
        return Val(LIST_OF[elt.kind], f"({it}.map (fun {v} => {elt.term}))")

    def iterable(self, e, env):
        """-> (lean list term, element kind, _)"""
        v = self.val(e, env)
        if v.kind == "lockset":
            return f"(holdingLocks s {v.term})", "lock", None
        if v.kind == "pq":
            return f"(waitersOf s {v.term})", ("entry", v.term), None
        if v.kind in ("ratlist", "optratlist"):
            return v.term, {"ratlist": "rat", "optratlist": "optrat"}[v.kind], None
        raise Unsupported(f"iteration over a {v.kind}")

    def call_value(self, e, env):
        """a call in expression position that does not change the state"""
        f = e.func
        src = ast.unparse(e)
        if e.keywords and not (isinstance(f, ast.Name) and f.id == "min"):
            raise Unsupported(f"keyword arguments in {src[:60]}")
        if isinstance(f, ast.Attribute) and isinstance(f.value, ast.Name) and f.value.id in ("asyncio", "weakref"):
            if (f.value.id, f.attr) == ("asyncio", "current_task") and not e.args:
                return Val("opttask", "(currentTask s)")
            if (f.value.id, f.attr) == ("weakref", "ref") and len(e.args) == 1:
                t = self.val(e.args[0], env)
                if t.kind not in ("task", "ptask"):
                    raise Unsupported("weakref.ref of a non-task")
                return Val("weak", t.term, t.kind)
            if (f.value.id, f.attr) == ("asyncio", "get_running_loop") and not e.args:
                return Val("loop", "()")
        if isinstance(f, ast.Name):
            if f.id == "min":
                return self.min_call(e, env)
            if f.id == "task_is_runnable" and len(e.args) == 1:
                t = self.val(e.args[0], env)
                if t.kind not in ("task", "ptask"):
                    raise Unsupported("task_is_runnable of a non-task")
                return Val("bool", f"(taskIsRunnable s {t.term})")
            if f.id == "PriorityQueue" and not e.args:
                return Val("newpq", None)
            if f.id == "any" and len(e.args) == 1 and not e.keywords:
                x = self.val(e.args[0], env)
                if x.kind != "boollist":
                    raise Unsupported(f"any() of a {x.kind}")
                return Val("bool", f"({x.term}.any (fun b => b))")
            if f.id in env:
                c = env[f.id]
                if c.kind in ("weak", "optweak"):
                    return self.deref(c)
                if c.kind == "closure":
                    return self.inline_value(self.as_function(c.extra[0]), [self.val(a, env) for a in e.args],
                                             {**c.extra[1], **{kk: vv for kk, vv in env.items() if isinstance(kk, tuple)}})
                if c.kind == "boundmethod":
                    return self.call_value(self.unalias(c, e), {**env, c.extra[2]: c.extra[0]})
            if f.id in self.u.funcs:
                return self.inline_value(self.u.funcs[f.id], [self.val(a, env) for a in e.args], env)
        if isinstance(f, ast.Attribute):
            base = self.val(f.value, env)
            if base.kind in ("weak", "optweak") and f.attr == "__call__":
                return self.deref(base)
            if base.kind == "lock" and f.attr == "_get_loop" and not e.args:
                return Val("loop", "()")
            if base.kind == "loop" and f.attr == "create_future" and not e.args:
                return Val("newfut", None)
            if base.kind == "fut" and f.attr == "done" and not e.args:
                return Val("bool", f"(futDone {base.term})")
            if base.kind == "pq" and f.attr == "peek" and not e.args:
                return Val("optentry", f"(pqPeek s {base.term})", base.term)
            if base.kind in ("lock", "ptask", "task"):
                cls = "PriorityLock" if base.kind == "lock" else "PriorityTask"
                if f.attr in self.u.classes[cls]:
                    if base.kind == "task":
                        return self.duck_value(base, f.attr, [self.val(a, env) for a in e.args], env)
                    return self.user_call(cls, f.attr, [base] + [self.val(a, env) for a in e.args], env,
                                          pure_only=True)
        # calling a value: weak_task()
        fv = None
        try:
            fv = self.val(f, env)
        except Unsupported:
            pass
        if fv is not None and fv.kind in ("weak", "optweak") and not e.args:
            return self.deref(fv)
        raise Unsupported(f"call {src[:80]}")

    def deref(self, w):
        if w.kind == "weak":
            return Val(w.extra or "task", w.term)
        raise Unsupported("call of a weak reference that may be None")

    def min_call(self, e, env):
        default = [k for k in e.keywords if k.arg == "default"]
        if len(e.args) == 1 and len(default) == 1 and _is_none(default[0].value) and len(e.keywords) == 1:
            x = self.val(e.args[0], env)
            if x.kind != "ratlist":
                raise Unsupported(f"min(.., default=None) of a {x.kind}")
            return Val("optrat", f"(minOpt {x.term})")
        if len(e.args) == 2 and not e.keywords:
            a, b = self.val(e.args[0], env), self.val(e.args[1], env)
            if a.kind == b.kind == "rat":
                return Val("rat", f"(min {a.term} {b.term})")
        raise Unsupported(f"min call {ast.unparse(e)[:60]}")

    def duck_value(self, base, meth, args, env):
        """`task.method(..)` as a value on an object that may not be a PriorityTask: only allowed where an
        `except AttributeError` handler supplies the alternative value"""
        h = env.get(("attrvalue",))
        if h is None:
            raise Unsupported(f".{meth}() on a task that is not known to be a PriorityTask, outside "
                              f"try/except AttributeError")
        good = self.user_call("PriorityTask", meth, [Val("ptask", base.term)] + args, env, pure_only=True)
        alt = h()
        kind, gt, at = self.unify(good, alt)
        return Val(kind, f"(if isPrio s {base.term} then {gt} else {at})")

    def declared(self, cls, name, args):
        """arguments coerced to the parameter kinds the method is declared with (ROOTS)"""
        for c, n, kinds in ROOTS:
            if (c, n) == (cls, name) and len(kinds) == len(args):
                out = []
                for a, kd in zip(args, kinds):
                    if a.kind == kd or (kd == "task" and a.kind == "ptask"):
                        out.append(a)
                    elif kd == "ptask" and a.kind == "task":
                        raise Unsupported(f"{cls}.{name} called on a task that is not known to be a PriorityTask")
                    else:
                        out.append(coerce(a, kd))
                return out
        return args

    # module-level helper functions are inlined at the call (so that extracting / inlining a private
    # helper does not change the generated definitions)
    def inline_env(self, fn, args, env):
        if isinstance(fn, ast.AsyncFunctionDef) or fn.decorator_list:
            raise Unsupported(f"call of {fn.name}: coroutines / decorated functions cannot be inlined")
        params = [a.arg for a in fn.args.args]
        if len(params) != len(args) or fn.args.kwonlyargs or fn.args.vararg or fn.args.kwarg:
            raise Unsupported(f"arguments of {fn.name}")
        self.inline_depth = getattr(self, "inline_depth", 0) + 1
        if self.inline_depth > 8:
            raise Unsupported(f"recursive helper function {fn.name}")
        pre = f"{fn.name}{self.new('')}."
        names = set(params) | {n.id for n in ast.walk(fn) if isinstance(n, ast.Name) and isinstance(n.ctx, ast.Store)}

        class R(ast.NodeTransformer):
            def visit_Name(self, n):
                return ast.copy_location(ast.Name(id=pre + n.id, ctx=n.ctx), n) if n.id in names else n
        body = [R().visit(ast.parse(ast.unparse(st)).body[0]) for st in _doc_free(fn.body)]
        env2 = {kk: vv for kk, vv in env.items() if kk not in (("attrstmt",), ("attrvalue",))}
        env2.update({pre + p_: a for p_, a in zip(params, args)})
        return body, env2, pre

    def inline_value(self, fn, args, env):
        body, env2, pre = self.inline_env(fn, args, env)
        got = {}

        def ret(v, e2):
            if v is None:
                raise Unsupported(f"{fn.name} used as a value returns nothing")
            got.setdefault("vals", []).append(v)
            return f"@R{len(got['vals']) - 1}@"
        saved = self.effect_mode
        self.effect_mode = False
        try:
            text = self.block(body, env2, {"next": lambda e2: ret(None, e2), "ret": ret,
                                           "final": lambda e2, then: then(e2)})
        except NeedEffect:
            raise Unsupported(f"{fn.name} changes the state or can raise but is used inside an expression")
        finally:
            self.effect_mode = saved
            self.inline_depth -= 1
        vals = got["vals"]
        kind = vals[0].kind
        terms = [vals[0].term]
        for v in vals[1:]:
            kind, _, _ = self.unify(Val(kind, "x"), v)
        for i, v in enumerate(vals):
            text = text.replace(f"@R{i}@", coerce(v, kind).term if v.kind != kind else v.term)
        return Val(kind, "(" + text + ")")

    def inline_stmt(self, fn, args, env, k, bind):
        body, env2, pre = self.inline_env(fn, args, env)

        def back(e2):
            e3 = {kk: vv for kk, vv in e2.items() if not (isinstance(kk, str) and kk.startswith(pre))
                  and kk not in (("attrstmt",), ("attrvalue",))}
            for kk in (("attrstmt",), ("attrvalue",)):
                if kk in env:
                    e3[kk] = env[kk]
            return e3
        try:
            return self.block(body, env2, {"next": lambda e2: bind(None, back(e2)),
                                           "ret": lambda v, e2: bind(v, back(e2)),
                                           "final": lambda e2, then: then(e2)})
        finally:
            self.inline_depth -= 1

    def as_function(self, node):
        """a nested `def`; a generator function (one that yields values) is turned into the function that
        returns the list of the yielded values: `yield v` -> append, lazily consumed or not makes no
        difference for code that only reads the state"""
        if not any(isinstance(n, (ast.Yield, ast.YieldFrom)) for n in ast.walk(node)):
            return node
        acc = "_yielded"

        class Y(ast.NodeTransformer):
            def visit_Expr(self, n):
                if isinstance(n.value, ast.Yield) and n.value.value is not None:
                    return ast.copy_location(ast.Expr(ast.Call(
                        func=ast.Attribute(value=ast.Name(id=acc, ctx=ast.Load()), attr="append", ctx=ast.Load()),
                        args=[n.value.value], keywords=[])), n)
                if isinstance(n.value, (ast.Yield, ast.YieldFrom)):
                    raise Unsupported("bare `yield` / `yield from` in a local generator function")
                return n

            def visit_Return(self, n):
                raise Unsupported("return inside a local generator function")
        new = ast.parse(ast.unparse(node)).body[0]
        new = Y().visit(new)
        for n in ast.walk(new):
            if isinstance(n, (ast.Yield, ast.YieldFrom)):
                raise Unsupported("`yield` used as an expression")
        new.body = ([ast.Assign(targets=[ast.Name(id=acc, ctx=ast.Store())], value=ast.List(elts=[], ctx=ast.Load()))]
                    + _doc_free(new.body) + [ast.Return(value=ast.Name(id=acc, ctx=ast.Load()))])
        return ast.fix_missing_locations(new)

    def unalias(self, c, call):
        """`m = obj.method` ... `m(args)`  ->  the call `obj.method(args)` on the object as it was bound"""
        base_name, attr = c.extra[2], c.extra[1]
        return ast.fix_missing_locations(ast.copy_location(ast.Call(
            func=ast.Attribute(value=ast.Name(id=base_name, ctx=ast.Load()), attr=attr, ctx=ast.Load()),
            args=call.args, keywords=call.keywords), call))

    def user_call(self, cls, name, args, env, pure_only=False):
        args = self.declared(cls, name, args)
        kinds = [a.kind for a in args]
        rec = self.u.request(cls, name, kinds)
        if not rec["pure"]:
            if pure_only:
                raise NeedStatement()
        fuel = ""
        if rec.get("recursive") or rec["key"] in self.u.recursive:
            fuel = " fuel" if self.in_group(rec["key"]) else " s.fuel"
        return Val(rec["ret"], f"({rec['name']} s{fuel} " + " ".join(a.term for a in args) + ")", rec)

    def in_group(self, key):
        return self.recursive and key in self.u.group_of.get(self.key, ())

    # ------------------------------------------------------------------ conditions (CPS)
    def cond(self, e, env, then_k, else_k):
        if isinstance(e, ast.UnaryOp) and isinstance(e.op, ast.Not):
            return self.cond(e.operand, env, else_k, then_k)
        if isinstance(e, ast.BoolOp) and isinstance(e.op, ast.And):
            rest = e.values[1] if len(e.values) == 2 else ast.BoolOp(op=ast.And(), values=e.values[1:])
            return self.cond(e.values[0], env, lambda env2: self.cond(rest, env2, then_k, else_k), else_k)
        if isinstance(e, ast.BoolOp) and isinstance(e.op, ast.Or):
            rest = e.values[1] if len(e.values) == 2 else ast.BoolOp(op=ast.Or(), values=e.values[1:])
            return self.cond(e.values[0], env, then_k, lambda env2: self.cond(rest, env2, then_k, else_k))
        if isinstance(e, ast.Compare) and len(e.ops) == 1:
            op, a, b = e.ops[0], e.left, e.comparators[0]
            if isinstance(op, (ast.Is, ast.IsNot)):
                neg = isinstance(op, ast.IsNot)
                if _is_none(b):
                    return self.none_test(a, env, else_k if neg else then_k, then_k if neg else else_k)
                va, vb = self.val(a, env), self.val(b, env)
                if {va.kind, vb.kind} <= {"task", "ptask"} or va.kind == vb.kind == "lock":
                    t = f"{va.term} = {vb.term}"
                    yes, no = (else_k, then_k) if neg else (then_k, else_k)
                    return f"if {t} then\n{ind(yes(env))}\nelse\n{ind(no(env))}"
                raise Unsupported(f"`is` between {va.kind} and {vb.kind}")
            if isinstance(op, (ast.Lt, ast.Gt, ast.LtE, ast.GtE)):
                va, vb = self.val(a, env), self.val(b, env)
                if va.kind == vb.kind == "rat":
                    sym = {ast.Lt: "<", ast.Gt: ">", ast.LtE: "≤", ast.GtE: "≥"}[type(op)]
                    return f"if {va.term} {sym} {vb.term} then\n{ind(then_k(env))}\nelse\n{ind(else_k(env))}"
                raise Unsupported(f"comparison of {va.kind} and {vb.kind}")
        # truth value of an expression
        v = self.val(e, env)
        if v.kind == "bool":
            return f"if {v.term} then\n{ind(then_k(env))}\nelse\n{ind(else_k(env))}"
        if v.kind == "pq":
            return f"if (waitersOf s {v.term}).isEmpty then\n{ind(else_k(env))}\nelse\n{ind(then_k(env))}"
        if v.kind in OPT_OF or v.kind == "optweak":
            return self.none_test(e, env, else_k, then_k)
        raise Unsupported(f"truth value of a {v.kind} ({ast.unparse(e)[:60]})")

    def none_test(self, a, env, none_k, some_k):
        """`a is None` with refinement of `a` in the not-None branch"""
        v = self.val(a, env)
        key = a.id if isinstance(a, ast.Name) else ("expr", ast.unparse(a))
        if v.kind in ("task", "ptask", "lock", "rat", "entry", "weak"):
            return some_k(env)                       # statically not None
        if v.kind == "none":
            return none_k(env)
        if v.kind == "pq":
            # `self._waiters is None`: None and the empty queue are identified
            return f"if (waitersOf s {v.term}).isEmpty then\n{ind(none_k(env))}\nelse\n{ind(some_k(env))}"
        if v.kind in OPT_OF or v.kind == "optweak":
            inner = OPT_OF.get(v.kind, "weak")
            x = self.new(a.id if isinstance(a, ast.Name) else "v")
            refined = Val(inner, x, "task" if inner == "weak" else None)
            return (f"match {v.term} with\n| none =>\n{ind(none_k({**env, key: Val('none', 'none')}))}\n"
                    f"| some {x} =>\n{ind(some_k({**env, key: refined}))}")
        raise Unsupported(f"`is None` test of a {v.kind}")

    # ------------------------------------------------------------------ statements (CPS)
    def block(self, stmts, env, k):
        """k: dict(next, ret, raise_) of continuations; -> lean term"""
        if not stmts:
            return k["next"](env)
        st, rest = stmts[0], stmts[1:]
        knext = dict(k, next=lambda env2: self.block(rest, env2, k))
        return self.stmt(st, env, knext)

    def stmt(self, st, env, k):
        if isinstance(st, ast.Pass):
            return k["next"](env)
        if isinstance(st, ast.Expr) and isinstance(st.value, ast.Constant):
            return k["next"](env)
        if isinstance(st, ast.Return):
            v = None if st.value is None else self.val(st.value, env)
            return k["ret"](v, env)
        if isinstance(st, ast.Assert):
            return self.cond(st.test, env, k["next"], lambda env2: self.err("assertion"))
        if isinstance(st, ast.Raise):
            return self.raise_stmt(st, env)
        if isinstance(st, ast.If):
            return self.cond(st.test, env, lambda e2: self.block(st.body, e2, k),
                             lambda e2: self.block(st.orelse, e2, k))
        if isinstance(st, ast.Assign) and len(st.targets) == 1:
            return self.assign(st.targets[0], st.value, env, k)
        if isinstance(st, ast.AnnAssign) and isinstance(st.target, ast.Name):
            if st.value is None:
                return k["next"](env)            # a bare declaration `x: T`
            return self.assign(st.target, st.value, env, k)
        if isinstance(st, ast.Expr) and isinstance(st.value, ast.Call):
            return self.call_stmt(st.value, env, k, None)
        if isinstance(st, ast.Expr) and isinstance(st.value, ast.Await):
            return k["await_"](st.value.value, env, k)
        if isinstance(st, ast.Expr) and isinstance(st.value, ast.Yield) and st.value.value is None:
            return k["yield_"](env, k)
        if isinstance(st, ast.Try):
            return self.try_stmt(st, env, k)
        if isinstance(st, ast.With) and len(st.items) == 1 and st.items[0].optional_vars is None:
            return self.with_stmt(st, env, k)
        if isinstance(st, ast.For) and not st.orelse:
            return self.for_stmt(st, env, k)
        if isinstance(st, ast.FunctionDef):
            return k["next"]({**env, st.name: Val("closure", None, (st, dict(env)))})
        raise Unsupported(f"statement {ast.unparse(st)[:80]!r}")

    def raise_stmt(self, st, env):
        e = st.exc
        if isinstance(e, ast.Call) and isinstance(e.func, ast.Name) and e.func.id == "RuntimeError" \
                and len(e.args) == 1 and isinstance(e.args[0], ast.Constant):
            kind = RUNTIME_MESSAGES.get(e.args[0].value)
            if kind is None:
                raise Unsupported(f"RuntimeError with an unknown message {e.args[0].value!r}")
            return self.err(kind)
        raise Unsupported(f"raise {ast.unparse(st)[:60]}")

    def assign(self, target, value, env, k):
        # parallel assignment  a, b = x, y
        if isinstance(target, ast.Tuple) and isinstance(value, ast.Tuple) and len(target.elts) == len(value.elts):
            vals = [self.val(v, env) for v in value.elts]      # right-hand side first
            tmp = {}
            out_env = dict(env)
            names = []
            for t, v in zip(target.elts, vals):
                n = self.new("tmp")
                tmp[n] = v
                names.append((t, n))

            def go(i, env2):
                if i == len(names):
                    return k["next"](env2)
                t, n = names[i]
                v = tmp[n]
                return self.assign_value(t, v, env2, dict(k, next=lambda e3: go(i + 1, e3)))
            # bind the right-hand sides to fresh names so that later targets cannot disturb them
            binds = ""
            env2 = dict(out_env)
            for n, v in tmp.items():
                if v.term is not None and v.kind in LEAN_TYPE or v.kind in ("optweak",):
                    binds += f"let {n} := {v.term}\n"
                    tmp[n] = Val(v.kind, n, v.extra)
            return binds + go(0, env2)
        if isinstance(target, ast.Tuple):
            # destructuring of an entry  fut, weak = entry
            if isinstance(value, ast.Call):
                v = self.val(value, env)
            else:
                v = self.val(value, env)
            return self.destructure(target, v, env, k)
        if isinstance(value, ast.Call):
            return self.call_stmt(value, env, k, target)
        if isinstance(value, ast.Await):
            raise Unsupported("the value of an await is used")
        return self.assign_value(target, self.val(value, env), env, k)

    def destructure(self, target, v, env, k):
        if len(target.elts) != 2:
            raise Unsupported("tuple target of length != 2")
        if v.kind == "optentry":
            w = self.new("w")
            self.effect = True
            if not self.effect_mode:
                raise NeedEffect()
            inner = self.destructure(target, Val("entry", w, v.extra), env, k)
            return f"match {v.term} with\n| none => .error (.indexError, s)\n| some {w} =>\n{ind(inner)}"
        if v.kind == "entry":
            lockterm = v.extra
            parts = [Val("fut", v.term, lockterm), Val("weak", f"{v.term}.task", "task")]
        elif v.kind == "tuple":
            parts = v.extra
        else:
            raise Unsupported(f"destructuring of a {v.kind}")
        env2 = dict(env)
        for t, p in zip(target.elts, parts):
            if not isinstance(t, ast.Name):
                raise Unsupported("nested destructuring")
            if t.id != "_":
                env2[t.id] = p
        return k["next"](env2)

    def assign_value(self, target, v, env, k):
        if isinstance(target, ast.Name):
            if v.kind == "emptylist":
                v = Val("ratlist", "([] : List Rat)")
            if v.kind == "tuple" and len(v.extra) == 2 and v.extra[0].kind == "newfut" and v.extra[1].kind == "weak":
                return k["next"]({**env, target.id: Val("myentry", v.extra[1].term)})
            if v.kind in LEAN_TYPE and v.term is not None and not v.term.isidentifier():
                n = self.new(target.id)
                return f"let {n} := {v.term}\n" + k["next"]({**env, target.id: Val(v.kind, n, v.extra)})
            return k["next"]({**env, target.id: v})
        if isinstance(target, ast.Attribute):
            base = self.val(target.value, env)
            return self.set_attr(base, target.attr, v, env, k)
        raise Unsupported(f"assignment target {ast.unparse(target)[:60]}")

    def mutate(self, term, env, k):
        """state := term, then continue (refinements of attribute expressions are dropped)"""
        self.effect = True
        if not self.effect_mode:
            raise NeedEffect()
        env2 = {kk: vv for kk, vv in env.items() if not (isinstance(kk, tuple) and kk[0] == "expr")}
        return f"let s := {term}\n" + k["next"](env2)

    def set_attr(self, base, name, v, env, k):
        if base.kind == "lock":
            if name == "_locked" and v.kind == "bool":
                return self.mutate(f"setLocked s {base.term} {v.term}", env, k)
            if name == "_owning":
                if v.kind == "none":
                    return self.mutate(f"setOwning s {base.term} none", env, k)
                if v.kind == "weak":
                    return self.mutate(f"setOwning s {base.term} (some {v.term})", env, k)
                if v.kind == "optweak":
                    return self.mutate(f"setOwning s {base.term} {v.term}", env, k)
            if name == "_waiters" and v.kind == "newpq":
                return self.mutate(f"newWaiters s {base.term}", env, k)
        if base.kind == "ptask" and name == "_waiting_on":
            if v.kind == "optlock":
                return self.mutate(f"setWaitingOn s {base.term} {v.term}", env, k)
            if v.kind == "lock":
                return self.mutate(f"setWaitingOn s {base.term} (some {v.term})", env, k)
            if v.kind == "none":
                return self.mutate(f"setWaitingOn s {base.term} none", env, k)
        raise Unsupported(f"assignment to .{name} of a {base.kind} with a {v.kind}")

    def call_stmt(self, call, env, k, target):
        """a call as a statement, or as the whole right-hand side of `target = call`"""
        f = call.func
        bind = (lambda v, e2: self.assign_value(target, v, e2, k)) if target is not None \
            else (lambda v, e2: k["next"](e2))
        if isinstance(f, ast.Attribute):
            try:
                base = self.val(f.value, env)
            except Unsupported:
                base = None
            args = call.args
            if base is not None:
                if base.kind == "pq" and f.attr == "add" and len(args) == 2:
                    p, ent = self.val(args[0], env), self.val(args[1], env)
                    if p.kind == "rat" and ent.kind == "myentry":
                        return self.mutate(f"pqAdd s {base.term} {p.term} {ent.term}", env, dict(k, next=lambda e2: bind(None, e2)))
                    raise Unsupported(f"_waiters.add({p.kind}, {ent.kind})")
                if base.kind == "pq" and f.attr == "remove" and len(args) == 1:
                    ent = self.val(args[0], env)
                    if ent.kind == "myentry":
                        return self.mutate(f"pqRemove s {base.term} {ent.term}", env, dict(k, next=lambda e2: bind(None, e2)))
                    raise Unsupported(f"_waiters.remove({ent.kind})")
                if base.kind == "pq" and f.attr == "reschedule" and len(args) == 2:
                    key, p = self.val(args[0], env), self.val(args[1], env)
                    if key.kind == "closure" and p.kind == "rat":
                        lam = self.closure(key)
                        return self.mutate(f"pqReschedule s {base.term} {lam} {p.term}", env,
                                           dict(k, next=lambda e2: bind(None, e2)))
                    raise Unsupported(f"_waiters.reschedule({key.kind}, {p.kind})")
                if base.kind == "fut" and f.attr == "set_result" and len(args) == 1:
                    return self.mutate(f"futSetResult s {base.extra} {base.term}", env,
                                       dict(k, next=lambda e2: bind(None, e2)))
                if base.kind == "lockset" and f.attr in ("add", "remove") and len(args) == 1:
                    l = self.val(args[0], env)
                    if l.kind != "lock":
                        raise Unsupported("_holding_locks.add of a non-lock")
                    prim = "holdingAdd" if f.attr == "add" else "holdingRemove"
                    return self.mutate(f"{prim} s {base.term} {l.term}", env, dict(k, next=lambda e2: bind(None, e2)))
                if base.kind == "ratlist" and f.attr == "append" and len(args) == 1 and target is None \
                        and isinstance(f.value, ast.Name):
                    x = self.append_value(args[0], env)
                    n = self.new(f.value.id)
                    return f"let {n} := {base.term} ++ [{x.term}]\n" + \
                        k["next"]({**env, f.value.id: Val("ratlist", n)})
                if base.kind == "loop" and f.attr == "task_reschedule" and len(args) == 1:
                    t = self.val(args[0], env)
                    if t.kind != "ptask":
                        raise Unsupported("loop.task_reschedule of an object that is not known to be a PriorityTask")
                    h = env.get(("attrstmt",))
                    if h is None:
                        raise Unsupported("loop.task_reschedule outside try/except AttributeError")
                    eff = self.user_call("PriorityTask", "effective_priority", [t], env, pure_only=True)
                    good = self.mutate(f"loopTaskReschedule s {t.term} {eff.term}", env,
                                       dict(k, next=lambda e2: bind(None, e2)))
                    return f"if loopHasReschedule s then\n{ind(good)}\nelse\n{ind(h(env))}"
                if base.kind in ("lock", "ptask", "task") and \
                        f.attr in self.u.classes["PriorityLock" if base.kind == "lock" else "PriorityTask"]:
                    cls = "PriorityLock" if base.kind == "lock" else "PriorityTask"
                    argv = [self.val(a, env) for a in args]
                    if base.kind == "task":
                        h = env.get(("attrstmt",))
                        if h is None and env.get(("attrvalue",)) is not None:
                            v = self.duck_value(base, f.attr, argv, env)
                            return bind(v, env)
                        good = self.do_user_call(cls, f.attr, [Val("ptask", base.term)] + argv, env, k, bind)
                        # not a PriorityTask: AttributeError, caught by the enclosing handler if there is one
                        bad = h(env) if h is not None else self.err("attributeError")
                        return f"if isPrio s {base.term} then\n{ind(good)}\nelse\n{ind(bad)}"
                    return self.do_user_call(cls, f.attr, [base] + argv, env, k, bind)
        if isinstance(f, ast.Name) and f.id in env and env[f.id].kind == "boundmethod":
            c = env[f.id]
            return self.call_stmt(self.unalias(c, call), {**env, c.extra[2]: c.extra[0]}, k, target)
        if isinstance(f, ast.Name) and f.id in self.u.funcs and f.id not in ("task_is_runnable",):
            argv = [self.val(a, env) for a in call.args]
            return self.inline_stmt(self.u.funcs[f.id], argv, env, k, bind)
        # a call without effect on the state
        v = self.call_value(call, env)
        return bind(v, env)

    def append_value(self, e, env):
        v = self.val(e, env)
        if v.kind != "rat":
            raise Unsupported(f"append of a {v.kind}")
        return v

    def do_user_call(self, cls, name, argv, env, k, bind):
        argv = self.declared(cls, name, argv)
        rec = self.u.request(cls, name, [a.kind for a in argv])
        fuel = ""
        if rec.get("recursive") or rec["key"] in self.u.recursive:
            fuel = " fuel" if self.in_group(rec["key"]) else " s.fuel"
        call = f"{rec['name']}{' s' if rec['pure'] else ''}{fuel}{'' if rec['pure'] else ' s'} " + \
            " ".join(a.term for a in argv)
        if rec["pure"]:
            return bind(Val(rec["ret"], f"({call})"), env)
        self.effect = True
        if not self.effect_mode:
            raise NeedEffect()
        env2 = {kk: vv for kk, vv in env.items() if not (isinstance(kk, tuple) and kk[0] == "expr")}
        if rec["ret"] == "unit":
            return f"match {call} with\n| .error e => .error e\n| .ok s =>\n{ind(bind(None, env2))}"
        r = self.new("r")
        return (f"match {call} with\n| .error e => .error e\n| .ok (s, {r}) =>\n"
                f"{ind(bind(Val(rec['ret'], r), env2))}")

    def closure(self, c):
        """a nested `def key(entry): ...` used as a predicate over queue entries -> lean lambda"""
        node, cenv = c.extra
        if len(node.args.args) != 1:
            raise Unsupported("closure with more than one parameter")
        x = self.new(node.args.args[0].arg)
        env = {**cenv, node.args.args[0].arg: Val("entry", x, None)}
        sub = FnTr(self.u, self.cls, node, self.key)
        sub.fresh = self.fresh + 100
        sub.effect_mode = False
        sub.recursive = self.recursive
        body = sub.block(_doc_free(node.body), env,
                         {"next": lambda e2: (_ for _ in ()).throw(Unsupported("closure falls off its end")),
                          "ret": lambda v, e2: v.term if v.kind == "bool" else
                          (_ for _ in ()).throw(Unsupported("closure does not return a bool"))})
        return f"(fun ({x} : Waiter) =>\n{ind(body, 4)})"

    # ------------------------------------------------------------------ try / with / for
    def try_stmt(self, st, env, k):
        if st.handlers:
            if st.finalbody:
                raise Unsupported("try with both except and finally")
            if len(st.handlers) != 1 or not isinstance(st.handlers[0].type, ast.Name) \
                    or st.handlers[0].type.id != "AttributeError" or st.handlers[0].name:
                raise Unsupported("except clause other than `except AttributeError:`")
            hbody = st.handlers[0].body
            after = dict(k)

            def handler(env_h):
                # the handler runs in the environment of the failing statement, without the try's handlers
                envh = {kk: vv for kk, vv in env_h.items() if kk not in (("attrstmt",), ("attrvalue",))}
                for kk in (("attrstmt",), ("attrvalue",)):
                    if kk in env:
                        envh[kk] = env[kk]
                return self.block(hbody, envh, after)

            def value_handler():
                # `x = obj.m()` / `return obj.m()` with `except AttributeError: x = c` / `return c`
                if len(hbody) == 1 and isinstance(hbody[0], (ast.Assign, ast.Return)):
                    return self.val(hbody[0].value, env)
                if len(hbody) == 1 and isinstance(hbody[0], ast.Expr) and isinstance(hbody[0].value, ast.Call) \
                        and isinstance(hbody[0].value.func, ast.Attribute) and hbody[0].value.func.attr == "append":
                    return self.val(hbody[0].value.args[0], env)
                raise Unsupported("handler of a duck-typed value is not a single assignment / return / append")
            env_t = dict(env)
            single = len(st.body) == 1 and not st.orelse
            if single and self.value_shaped(st.body[0], hbody):
                env_t[("attrvalue",)] = value_handler
                env_t.pop(("attrstmt",), None)
            else:
                env_t[("attrstmt",)] = handler
                env_t.pop(("attrvalue",), None)

            def leave(env2):
                env3 = {kk: vv for kk, vv in env2.items() if kk not in (("attrstmt",), ("attrvalue",))}
                for kk in (("attrstmt",), ("attrvalue",)):
                    if kk in env:
                        env3[kk] = env[kk]
                return self.block(st.orelse, env3, k)
            kk_ = dict(k, next=leave,
                       ret=lambda v, e2: k["ret"](v, {a: b for a, b in e2.items()
                                                      if a not in (("attrstmt",), ("attrvalue",))}))
            return self.block(st.body, env_t, kk_)
        if st.finalbody and not st.orelse:
            fin = st.finalbody

            def run_final(env2, then):
                return self.block(fin, env2, dict(k, next=then))
            kk_ = dict(k,
                       next=lambda e2: run_final(e2, k["next"]),
                       ret=lambda v, e2: run_final(e2, lambda e3: k["ret"](v, e3)),
                       final=lambda e2, then: run_final(e2, lambda e3: k["final"](e3, then) if "final" in k else then(e3)))
            return self.block(st.body, env, kk_)
        raise Unsupported("try statement shape")

    def value_shaped(self, s0, hbody):
        """try body `x = obj.m()` / `return obj.m()` / `xs.append(obj.m())` with a matching handler"""
        if len(hbody) != 1:
            return False
        h = hbody[0]
        if isinstance(s0, ast.Assign) and isinstance(h, ast.Assign) and \
                ast.unparse(s0.targets[0]) == ast.unparse(h.targets[0]) and isinstance(s0.value, ast.Call):
            return True
        if isinstance(s0, ast.Return) and isinstance(h, ast.Return) and isinstance(s0.value, ast.Call):
            return True
        if isinstance(s0, ast.Expr) and isinstance(h, ast.Expr) and isinstance(s0.value, ast.Call) \
                and isinstance(h.value, ast.Call) and isinstance(s0.value.func, ast.Attribute) \
                and isinstance(h.value.func, ast.Attribute) and s0.value.func.attr == "append" \
                and h.value.func.attr == "append" \
                and ast.unparse(s0.value.func.value) == ast.unparse(h.value.func.value):
            return True
        return False

    def with_stmt(self, st, env, k):
        ce = st.items[0].context_expr
        if not (isinstance(ce, ast.Call) and isinstance(ce.func, ast.Name) and ce.func.id in self.u.funcs):
            raise Unsupported(f"with {ast.unparse(ce)[:60]}")
        cm = self.u.funcs[ce.func.id]
        if not any(isinstance(d, ast.Attribute) and d.attr == "contextmanager" for d in cm.decorator_list):
            raise Unsupported(f"{cm.name} is not a contextlib.contextmanager")
        argv = [self.val(a, env) for a in ce.args]
        params = [a.arg for a in cm.args.args]
        if len(params) != len(argv):
            raise Unsupported(f"arguments of {cm.name}")
        prefix = f"{cm.name}."
        cenv = {**{kk: vv for kk, vv in env.items() if isinstance(kk, tuple)},
                **{prefix + p: v for p, v in zip(params, argv)}}
        outer_names = {kk: vv for kk, vv in env.items() if not isinstance(kk, tuple)}

        def rename(tree):
            class R(ast.NodeTransformer):
                def visit_Name(self, n):
                    return ast.copy_location(ast.Name(id=prefix + n.id, ctx=n.ctx), n) \
                        if n.id in locals_ else n
            return [R().visit(ast.parse(ast.unparse(s)).body[0]) for s in tree]
        locals_ = set(params) | {n.id for n in ast.walk(cm) if isinstance(n, ast.Name) and isinstance(n.ctx, ast.Store)}
        body = rename(_doc_free(cm.body))

        def yield_(env_y, k_y):
            # the generator is suspended at its `yield`: run the body of the `with`; every way of leaving
            # the body resumes the generator (normally, or - after an exception - by throwing into it,
            # which for a `try: yield finally:` runs the same finaliser and re-raises)
            def resume_then(env_b, then):
                merged = {**env_y, **env_b}
                return k_y["next_after_yield"](merged, then)
            kb = dict(k,
                      next=lambda e2: resume_then(e2, lambda e3: k["next"](self.strip(e3, prefix))),
                      ret=lambda v, e2: resume_then(e2, lambda e3: k["ret"](v, self.strip(e3, prefix))),
                      final=lambda e2, then: resume_then(e2, lambda e3: (k["final"](self.strip(e3, prefix), then)
                                                                         if "final" in k else then(self.strip(e3, prefix)))))
            return self.block(st.body, {**env_y, **outer_names}, kb)
        kcm = {"next": lambda e2: (_ for _ in ()).throw(Unsupported("context manager without yield")),
               "ret": lambda v, e2: (_ for _ in ()).throw(Unsupported("return inside a context manager")),
               "yield_": yield_}
        for extra in ("await_",):
            if extra in k:
                kcm[extra] = k[extra]
        return self.cm_block(body, {**cenv, **outer_names}, kcm, prefix)

    def strip(self, env, prefix):
        return {kk: vv for kk, vv in env.items() if not str(kk).startswith(prefix)}

    def cm_block(self, body, env, kcm, prefix):
        """the statements of the generator function; the `yield` must be the whole body of a
        `try: yield finally: ...` (or a bare statement)"""
        def go(stmts, env2):
            if not stmts:
                raise Unsupported("context manager without yield")
            st, rest = stmts[0], stmts[1:]
            if isinstance(st, ast.Try) and st.finalbody and not st.handlers and len(st.body) == 1 \
                    and isinstance(st.body[0], ast.Expr) and isinstance(st.body[0].value, ast.Yield):
                def after_yield(env3, then):
                    return self.block(st.finalbody + rest, env3,
                                      {"next": then,
                                       "ret": lambda v, e4: (_ for _ in ()).throw(Unsupported("return in a finaliser"))})
                return kcm["yield_"](env2, dict(kcm, next_after_yield=after_yield))
            if isinstance(st, ast.Expr) and isinstance(st.value, ast.Yield):
                def after_yield(env3, then):
                    return self.block(rest, env3, {"next": then, "ret": lambda v, e4: then(e4)})
                return kcm["yield_"](env2, dict(kcm, next_after_yield=after_yield))
            return self.stmt(st, env2, {"next": lambda e3: go(rest, e3),
                                        "ret": lambda v, e3: (_ for _ in ()).throw(
                                            Unsupported("return before the yield of a context manager"))})
        return go(body, env)

    def for_stmt(self, st, env, k):
        """a loop that does not change the state: a fold over the iterable; an early `return` inside the
        body ends the function with that value (the fold carries `Option result`)"""
        it, elem_kind, _ = self.iterable(st.iter, env)
        carried = sorted({n.id for s_ in st.body for n in ast.walk(s_)
                          if isinstance(n, ast.Name) and n.id in env and not isinstance(n.id, tuple)
                          and self.is_mutated(n.id, st.body)})
        for c in carried:
            if env[c].kind not in LEAN_TYPE:
                raise Unsupported(f"loop-carried variable {c} of kind {env[c].kind}")
        has_ret = any(isinstance(n, ast.Return) for s_ in st.body for n in ast.walk(s_))
        x = self.new("x")
        elem = Val("entry", x, elem_kind[1]) if isinstance(elem_kind, tuple) else Val(elem_kind, x)
        elem_ty = "Waiter" if isinstance(elem_kind, tuple) else LEAN_TYPE[elem_kind]
        acc = self.new("acc")
        ret_kind = self.ret_kind_hint()
        if has_ret and ret_kind != "unit":
            raise Unsupported("early return of a value from a loop")
        acc_ty = " × ".join((["Bool"] if has_ret else []) + [LEAN_TYPE[env[c].kind] for c in carried]) or "Unit"

        def pack(e2, stop):
            parts = (["true" if stop else "false"] if has_ret else []) + [e2[c].term for c in carried]
            return "(" + ", ".join(parts) + ")" if len(parts) != 1 else parts[0]

        def proj(i, n):
            if n == 1:
                return acc
            return f"{acc}" + ".2" * i + (".1" if i < n - 1 else "")
        n = (1 if has_ret else 0) + len(carried)
        benv = dict(env)
        off = 1 if has_ret else 0
        for j, c in enumerate(carried):
            benv[c] = Val(env[c].kind, f"({proj(j + off, n)})" if n > 1 else acc)
        if isinstance(st.target, ast.Tuple):
            pre_env = None

            def start(e2):
                return self.destructure(st.target, elem, e2, {"next": lambda e3: self.block(st.body, e3, kb)})
        elif isinstance(st.target, ast.Name):
            def start(e2):
                return self.block(st.body, {**e2, st.target.id: elem}, kb)
        else:
            raise Unsupported("loop target")
        saved_mode, saved_effect = self.effect_mode, self.effect
        self.effect_mode = False
        kb = {"next": lambda e2: pack(e2, False), "ret": lambda v, e2: pack(e2, True)}
        try:
            body = start(benv)
        except NeedEffect:
            raise Unsupported("loop body that changes the state or can raise")
        finally:
            self.effect_mode, self.effect = saved_mode, saved_effect
        if has_ret:
            guard = f"if {proj(0, n)} then {acc} else\n{ind(body)}" if n > 1 else f"if {acc} then {acc} else\n{ind(body)}"
        else:
            guard = body
        init = pack(env, False)
        r = self.new("loop")
        text = (f"let {r} := List.foldl (fun ({acc} : {acc_ty}) ({x} : {elem_ty}) =>\n{ind(guard, 4)}) "
                f"{init} {it}\n")
        env2 = dict(env)
        for j, c in enumerate(carried):
            term = f"{r}" + ".2" * (j + off) + (".1" if (j + off) < n - 1 else "") if n > 1 else r
            env2[c] = Val(env[c].kind, f"({term})" if n > 1 else r)
        if has_ret:
            stopped = f"{r}.1" if n > 1 else r
            return text + f"if {stopped} then\n{ind(k['ret'](None, env2))}\nelse\n{ind(k['next'](env2))}"
        return text + k["next"](env2)

    def is_mutated(self, name, body):
        for s_ in body:
            for n in ast.walk(s_):
                if isinstance(n, ast.Name) and n.id == name and isinstance(n.ctx, ast.Store):
                    return True
                if isinstance(n, ast.Call) and isinstance(n.func, ast.Attribute) and n.func.attr == "append" \
                        and isinstance(n.func.value, ast.Name) and n.func.value.id == name:
                    return True
        return False

    def ret_kind_hint(self):
        hint = RET_HINT.get((self.key[0], self.key[1]))
        return hint[0] if hint else "unit"

    # ------------------------------------------------------------------ whole functions
    def translate(self):
        if self.is_async:
            raise Unsupported("coroutines are translated by segments()")
        params = self.params()
        env = {n: Val(kd, n if n != "self" else "self_") for n, kd in params}
        body = _doc_free(self.node.body)
        result = {}

        def attempt(effect_mode):
            self.effect_mode = effect_mode
            self.effect = False
            self.fresh = 0
            kinds = []

            def ret(v, e2):
                kinds.append("unit" if v is None else v.kind)
                result.setdefault("vals", []).append(v)
                return self.ok(v)
            text = self.block(body, env, {"next": lambda e2: ret(None, e2), "ret": ret})
            return text, kinds
        try:
            text, kinds = attempt(False)
            pure = True
        except NeedEffect:
            text, kinds = attempt(True)
            pure = False
        rk = self.join_kinds(kinds)
        name = lname(self.key[1], self.key[0])
        return {"name": name, "params": [(("self_" if n == "self" else n), kd) for n, kd in params], "ret": rk,
                "pure": pure, "text": text, "key": self.key, "doc": f"{self.key[0] or 'module'}.{self.key[1]}"}

    def join_kinds(self, kinds):
        ks = set(kinds)
        if ks <= {"unit"}:
            return "unit"
        ks.discard("unit") if False else None
        if len(ks) == 1:
            return ks.pop()
        if ks == {"rat", "none"} or ks == {"optrat", "none"} or ks == {"rat", "optrat"} or ks == {"rat", "optrat", "none"}:
            return "optrat"
        if ks == {"ptask", "task"}:
            return "task"
        raise Unsupported(f"function returns values of kinds {sorted(ks)}")


class NeedEffect(Exception):
    pass


class NeedStatement(Exception):
    pass


LIST_OF = {"rat": "ratlist", "optrat": "optratlist", "bool": "boollist"}
# result kind and purity of the methods that can be reached recursively (needed before their body is done)
RET_HINT = {("PriorityTask", "effective_priority"): ("rat", True),
            ("PriorityLock", "effective_priority"): ("optrat", True),
            ("PriorityTask", "propagate_priority"): ("unit", False),
            ("PriorityLock", "propagate_priority"): ("unit", False),
            ("PriorityLock", "_wake_up_first"): ("unit", False),
            ("PriorityLock", "release"): ("unit", False),
            ("PriorityLock", "_take_lock"): ("unit", False),
            ("PriorityTask", "set_waiting_on"): ("unit", False)}


# ----------------------------------------------------------------------------------------------
# coercion of returned values, coroutine segments, emission


def coerce(v, kind):
    if v is None:
        return None
    if v.kind == kind or kind is None:
        return v
    if kind in OPT_OF and v.kind == OPT_OF[kind]:
        return Val(kind, f"(some {v.term})")
    if kind in OPT_OF and v.kind == "none":
        return Val(kind, "none")
    if kind == "task" and v.kind == "ptask":
        return Val("task", v.term)
    if kind == "optrat" and v.kind == "rat":
        return Val(kind, f"(some {v.term})")
    raise Unsupported(f"cannot return a {v.kind} where a {kind} is expected")


def _translate(self):
    """FnTr.translate with result-kind coercion and fuel (replaces the first version)"""
    if self.is_async:
        raise Unsupported("coroutines are translated by segments()")
    params = self.params()
    env = {n: Val(kd, n if n != "self" else "self_") for n, kd in params}
    body = _doc_free(self.node.body)

    def attempt(effect_mode, ret_kind):
        self.effect_mode, self.effect, self.fresh = effect_mode, False, 0
        kinds = []

        def ret(v, e2):
            kinds.append("unit" if v is None else v.kind)
            return self.ok(coerce(v, ret_kind) if ret_kind else v)
        return self.block(body, env, {"next": lambda e2: ret(None, e2), "ret": ret,
                                      "final": lambda e2, then: then(e2)}), kinds
    pure = True
    try:
        _, kinds = attempt(False, None)
    except NeedEffect:
        pure = False
        _, kinds = attempt(True, None)
    rk = self.join_kinds(kinds)
    hint = RET_HINT.get((self.key[0], self.key[1]))
    if hint and (hint[0] != rk or hint[1] != pure):
        raise Unsupported(f"{self.key[0]}.{self.key[1]}: result kind/purity {rk}/{pure} differs from the declared "
                          f"{hint[0]}/{hint[1]}")
    text, _ = attempt(not pure, rk)
    name = lname(self.key[1], self.key[0])
    return {"name": name, "params": [(("self_" if n == "self" else n), kd) for n, kd in params], "ret": rk,
            "pure": pure, "text": text, "key": self.key, "doc": f"{self.key[0] or 'module'}.{self.key[1]}"}


FnTr.translate = _translate


def _segments(self):
    """an `async def` with one `await` (possibly inside `with` / `try..finally`):
    entry -> await | return,  await -> end (resumed by a value),  await -> end (resumed by an exception)"""
    params = self.params()
    env = {n: Val(kd, n if n != "self" else "self_") for n, kd in params}
    body = _doc_free(self.node.body)
    name = lname(self.key[1], self.key[0])
    out_ty = name[0].upper() + name[1:] + "Out"
    self.effect_mode, self.effect, self.fresh = True, True, 0
    seg = {}

    def await_(awaited, env_a, k):
        v = self.val(awaited, env_a)
        if v.kind != "newfut":
            raise Unsupported(f"await of a {v.kind}")
        # live locals: names read lexically after the await (the rest of the try body, the finally
        # clauses) and the locals of the context managers that are open at the await
        later = {n.id for n in ast.walk(self.node) if isinstance(n, ast.Name) and isinstance(n.ctx, ast.Load)
                 and (n.lineno, n.col_offset) > (awaited.lineno, awaited.col_offset)}
        live = sorted((n for n, x in env_a.items() if isinstance(n, str) and x.kind in LEAN_TYPE
                       and x.term is not None and (n in later or "." in n)),
                      key=lambda n: (n != "self", n))
        fields = [(n.replace(".", "_").strip("_") if n != "self" else "self_", env_a[n].kind) for n in live]
        if "fields" in seg:
            if seg["fields"] != fields:
                raise Unsupported("the await is reached with different live locals: %r vs %r" % (seg["fields"], fields))
        else:
            seg["fields"] = fields
            env_r = {n: Val(env_a[n].kind, f) for n, (f, _) in zip(live, fields)}
            saved = self.fresh
            self.seg_mode = "resume"
            self.fresh = 1000
            seg["value"] = k["next"](dict(env_r))
            self.fresh = 2000
            seg["throw"] = k["final"](dict(env_r), lambda e3: ".ok s")
            self.fresh = saved
            self.seg_mode = "entry"
        return f".ok (s, {out_ty}.suspended " + " ".join(env_a[n].term for n in live) + ")"
    self.seg_mode = "entry"

    def finish(*_):
        return ".ok s" if self.seg_mode == "resume" else f".ok (s, {out_ty}.returned)"
    entry = self.block(body, env, {"next": finish, "ret": finish,
                                   "final": lambda e2, then: then(e2), "await_": await_})
    if "fields" not in seg:
        raise Unsupported("coroutine without await")
    return {"name": name, "out_ty": out_ty, "params": [(("self_" if n == "self" else n), kd) for n, kd in params],
            "fields": seg["fields"], "entry": entry, "value": seg["value"], "throw": seg["throw"]}


FnTr.segments = _segments


def lean_params(params):
    return " ".join(f"({n} : {LEAN_TYPE[k]})" for n, k in params)


def ret_type(rec):
    r = LEAN_TYPE[rec["ret"]] if rec["ret"] != "unit" else None
    if rec["pure"]:
        return r or "Unit"
    return "Except (LockErr × State) " + ("State" if r is None else f"(State × {r})")


def fuel_default(rec):
    if rec["pure"]:
        return {"rat": f"fuelOutRat s {rec['params'][0][0]}", "optrat": "none", "bool": "false",
                "unit": "()"}.get(rec["ret"]) or (_ for _ in ()).throw(Unsupported("no default for " + rec["ret"]))
    if rec["ret"] != "unit":
        raise Unsupported("recursive method with effects and a result")
    return ".ok s"


def emit(rec, recursive):
    doc = f"/-- `{rec['doc']}` -/\n"
    ps, names = lean_params(rec["params"]), " ".join(n for n, _ in rec["params"])
    tys = " → ".join(LEAN_TYPE[k] for _, k in rec["params"])
    if not recursive:
        return doc + f"def {rec['name']} (s : State) {ps} : {ret_type(rec)} :=\n{ind(rec['text'])}\n"
    if rec["pure"]:
        return (doc + f"def {rec['name']} (s : State) : Nat → {tys} → {ret_type(rec)}\n"
                f"  | 0, {', '.join(n for n, _ in rec['params'])} => {fuel_default(rec)}\n"
                f"  | fuel + 1, {', '.join(n for n, _ in rec['params'])} =>\n{ind(rec['text'], 4)}\n")
    return (doc + f"def {rec['name']} : Nat → State → {tys} → {ret_type(rec)}\n"
            f"  | 0, s, {', '.join('_' for _ in rec['params'])} => {fuel_default(rec)}\n"
            f"  | fuel + 1, s, {', '.join(n for n, _ in rec['params'])} =>\n{ind(rec['text'], 4)}\n")


ROOTS = [("PriorityTask", "priority", ["ptask"]),
         ("PriorityTask", "add_owned_lock", ["ptask", "lock"]),
         ("PriorityTask", "remove_owned_lock", ["ptask", "lock"]),
         ("PriorityTask", "set_waiting_on", ["ptask", "optlock"]),
         ("PriorityTask", "effective_priority", ["ptask"]),
         ("PriorityLock", "effective_priority", ["lock"]),
         ("PriorityTask", "propagate_priority", ["ptask", "lock"]),
         ("PriorityLock", "propagate_priority", ["lock", "task"]),
         ("PriorityLock", "_take_lock", ["lock", "task"]),
         ("PriorityLock", "_wake_up_first", ["lock"]),
         ("PriorityLock", "release", ["lock"])]


def build(tree, recursive=frozenset(), group_of=None):
    u = Unit(tree)
    u.recursive = set(recursive)
    u.group_of = group_of or {}
    for cls, name, kinds in ROOTS:
        u.request(cls, name, kinds)
    acq = FnTr(u, "PriorityLock", u.find("PriorityLock", "acquire"), ("PriorityLock", "acquire", ("lock",)))
    u.stack.append(acq.key)
    try:
        seg = acq.segments()
    finally:
        u.stack.pop()
    return u, seg


def generate(src: Path):
    path = Path(src) / "asynkit" / "experimental" / "priority.py"
    tree = ast.parse(path.read_text())
    u, _ = build(tree)
    rec, comps = u.sccs()
    group_of = {}
    for comp in comps:
        if len(comp) > 1 or comp[0] in u.edges.get(comp[0], ()):
            for kx in comp:
                group_of[kx] = set(comp)
    u, seg = build(tree, rec, group_of)
    # one lean name per python function (a function requested with two different argument kinds would clash)
    seen = {}
    for key in u.order:
        n = u.done[key]["name"]
        if n in seen and seen[n] != key:
            raise Unsupported(f"{key[0]}.{key[1]} is used with argument kinds {seen[n][2]} and {key[2]}")
        seen[n] = key
    out = ["-- GENERATED by translator/lock2lean.py from src/asynkit/experimental/priority.py — do not edit",
           "import Asynkit.Model.LockPrims", "set_option linter.unusedVariables false",
           "namespace Asynkit.Gen", "open Asynkit.Lock", ""]
    emitted = set()
    for key in u.order:
        if key in emitted:
            continue
        if key in group_of:
            grp = [kx for kx in u.order if kx in group_of[key]]
            out.append("mutual")
            for kx in grp:
                out.append(emit(u.done[kx], True))
                emitted.add(kx)
            out.append("end\n")
        else:
            out.append(emit(u.done[key], False))
            emitted.add(key)
    ps = lean_params(seg["params"])
    fs = " ".join(f"({n} : {LEAN_TYPE[k]})" for n, k in seg["fields"])
    out.append(f"/-- where `PriorityLock.acquire` can leave its first segment -/\n"
               f"inductive {seg['out_ty']} where\n  | returned\n  | suspended {fs}\n")
    out.append(f"/-- `PriorityLock.acquire` from its entry to `await fut` (or to `return True`) -/\n"
               f"def {seg['name']}Entry (s : State) {ps} : Except (LockErr × State) (State × {seg['out_ty']}) :=\n"
               f"{ind(seg['entry'])}\n")
    out.append(f"/-- `PriorityLock.acquire` resumed at `await fut` by the future's result, to its `return True` -/\n"
               f"def {seg['name']}ResumeValue (s : State) {fs} : Except (LockErr × State) State :=\n"
               f"{ind(seg['value'])}\n")
    out.append(f"/-- `PriorityLock.acquire` resumed at `await fut` by an exception: the `finally` clause and the\n"
               f"    exit of `_waiting_on`; the exception then propagates -/\n"
               f"def {seg['name']}ResumeThrow (s : State) {fs} : Except (LockErr × State) State :=\n"
               f"{ind(seg['throw'])}\n")
    out.append("end Asynkit.Gen")
    return {"Lock.lean": "\n".join(out) + "\n"}


if __name__ == "__main__":
    import sys
    print(generate(Path(sys.argv[1]))["Lock.lean"])
