"""asynciolocks2lean — the parts of CPython's `asyncio/locks.py` that C14 rests on, regenerated into
lean/Asynkit/Gen/AsyncioLocks.lean on every run (unit of py2lean; DESIGN §3.3 / §4) from the file of the
*running interpreter* (`importlib.util.find_spec("asyncio.locks").origin`; its sha256 and the Python version
are recorded in the generated file).  For testing only, `ASYNKIT_STDLIB_LOCKS=<path>` substitutes another file.

Translated with segexec.py:
  Lock.locked, Lock.release, Lock._wake_up_first (synchronous, whole); Lock.acquire (entry → `await fut`; `await fut`
  resumed normally / by an exception → return / raise);
  Condition.notify (whole; the baseline used by InterruptCondition), Condition.notify_all (whole, over whichever
  `notify` the class has), Condition.wait_for (the predicate loop around `await self.wait()`, segment by segment).
`Lemmas/GenEqC14Std.lean` proves them equal to `Model/StdLock.lean` resp. to the `notify`/`notifyAll`/`wfPred`
transitions of `Model/Cond.lean`.
"""
import ast
import hashlib
import importlib.util
import os
import platform
from pathlib import Path

from cond2lean import CondDomain, EXN
from segexec import Const, Dyn, Ent, Executor, Unsupported, find_func, paren

LEXN = "Exn"


def is_self_attr(e, attr):
    return isinstance(e, ast.Attribute) and e.attr == attr and isinstance(e.value, ast.Name) and e.value.id == "self"


class LockDomain:
    """kernel interface `Model/StdLock.lean` (state `LS`)"""
    exn_ty = LEXN
    self_kind = "lock"

    def global_name(self, name):
        if name in ("exceptions", "collections"):
            return Ent("module", name)
        return None

    def expr_hook(self, ex, e, scopes, cur, st, as_bool):
        if is_self_attr(e, "_locked"):
            return Dyn(f"Prim.isLocked {st}", "Bool")
        if as_bool and is_self_attr(e, "_waiters"):
            return Dyn(f"Prim.waitersNonEmpty {st}", "Bool")
        if isinstance(e, ast.Compare) and len(e.ops) == 1 and is_self_attr(e.left, "_waiters") \
                and isinstance(e.comparators[0], ast.Constant) and e.comparators[0].value is None:
            if isinstance(e.ops[0], ast.Is):
                return Dyn(f"Prim.waitersIsNone {st}", "Bool")
            if isinstance(e.ops[0], ast.IsNot):
                return Dyn(f"!Prim.waitersIsNone {st}", "Bool")
        # all(w.cancelled() for w in self._waiters)
        if isinstance(e, ast.Call) and isinstance(e.func, ast.Name) and e.func.id == "all" and len(e.args) == 1 \
                and isinstance(e.args[0], ast.GeneratorExp):
            g = e.args[0]
            if len(g.generators) == 1 and not g.generators[0].ifs and is_self_attr(g.generators[0].iter, "_waiters") \
                    and isinstance(g.generators[0].target, ast.Name) and isinstance(g.elt, ast.Call) \
                    and isinstance(g.elt.func, ast.Attribute) and g.elt.func.attr == "cancelled" \
                    and isinstance(g.elt.func.value, ast.Name) and g.elt.func.value.id == g.generators[0].target.id \
                    and not g.elt.args:
                return Dyn(f"Prim.allCancelled {st}", "Bool")
            raise Unsupported(f"all(...) of {ast.unparse(g)}")
        return None

    def call_hook(self, ex, e, scopes, cur, st):
        # next(iter(self._waiters))
        if isinstance(e.func, ast.Name) and e.func.id == "next" and len(e.args) == 1 and isinstance(e.args[0], ast.Call) \
                and isinstance(e.args[0].func, ast.Name) and e.args[0].func.id == "iter" and len(e.args[0].args) == 1 \
                and is_self_attr(e.args[0].args[0], "_waiters"):
            return ("mayraise-ent", f"Prim.firstWaiter {st}", Dyn("Exn.stopIteration", LEXN, "stopIteration"))
        return None

    def attr(self, base, attr):
        if isinstance(base, Ent) and base.kind == "lock" and attr == "_waiters":
            return Ent("waiters")
        if isinstance(base, Ent) and base.kind == "module" and base.data == "exceptions" and attr == "CancelledError":
            return Ent("global", "CancelledError")
        raise Unsupported(f"attribute .{attr} of {base}")

    def lean_of(self, v):
        if isinstance(v, Dyn):
            return v.lean
        if isinstance(v, Const) and isinstance(v.v, bool):
            return "true" if v.v else "false"
        raise Unsupported(f"no Lean value for {v}")

    def const_ty(self, v):
        raise Unsupported(f"type of {v}")

    def method(self, ex, base, name, args, kw, st):
        k = base.kind if isinstance(base, Ent) else None
        if k == "lock" and name == "_get_loop" and not args:
            return ("pure", Ent("loop"))
        if k == "lock" and name == "_wake_up_first" and not args:
            # another translated synchronous method of the lock: called, not inlined (it returns `LS × Fin`)
            s2, x = ex.new(), ex.new("x")
            return ("choice", f"wakeUpFirst {st}",
                    [(f"({s2}, .ret _)", lambda ind: (s2, ("normal", Const(None)), "")),
                     (f"({s2}, .raised {x})", lambda ind: (s2, ("raise", Dyn(x, LEXN)), ""))])
        if k == "loop" and name == "create_future" and not args:
            return ("eff", f"Prim.createFuture {st} j", Ent("fut", "mine"))
        if k == "module" and base.data == "collections" and name == "deque" and not args:
            return ("pure", Ent("newdeque"))
        if k == "waiters" and name == "append" and len(args) == 1 and self.is_mine(args[0]):
            return ("eff", f"Prim.waitersAppend {st} j", Const(None))
        if k == "waiters" and name == "remove" and len(args) == 1 and self.is_mine(args[0]):
            return ("eff", f"Prim.waitersRemove {st} j", Const(None))
        if k == "fut" and name == "done" and not args and base.data != "mine":
            return ("pure", Dyn(f"Prim.futDone {st} {base.data}", "Bool"))
        if k == "fut" and name == "set_result" and len(args) == 1 and base.data != "mine":
            return ("eff", f"Prim.futSetResult {st} {base.data}", Const(None))
        raise Unsupported(f"call .{name}() on {base} with {len(args)} argument(s)")

    @staticmethod
    def is_mine(v):
        return isinstance(v, Ent) and v.kind == "fut" and v.data == "mine"

    def function(self, ex, name, args, kw, st):
        raise Unsupported(f"call of {name}()")

    def call_closure(self, ex, ent, args, kw, st):
        raise Unsupported("nested function call")

    def identical(self, a, b):
        return None

    def make_exn(self, cls):
        if cls == "RuntimeError":
            return Dyn("Exn.runtime", LEXN, "runtime")
        return None

    def exn_match(self, exn, cls):
        table = {"exceptions.CancelledError": ("dlv", "Exn.isCancelled"),
                 "StopIteration": ("stopIteration", "Exn.isStopIteration")}
        if cls not in table:
            raise Unsupported(f"except {cls}")
        ctor, pred = table[cls]
        if isinstance(exn, Dyn) and exn.ctor is not None:
            return exn.ctor == ctor
        return f"{pred} {paren(exn.lean)}"

    def assign(self, ex, scopes, cur, name, val):
        return ex.bind(scopes, cur, name, val)

    def assign_eff(self, ex, scopes, cur, targets, val, st, ind):
        pre = ""
        for t in targets:
            if isinstance(t, ast.Name):
                scopes = ex.bind(scopes, cur, t.id, val)
            elif is_self_attr(t, "_locked") and isinstance(val, Const) and isinstance(val.v, bool):
                s2 = ex.new()
                pre += f"{ind}let {s2} := Prim.setLocked {st} {'true' if val.v else 'false'}\n"
                st = s2
            elif is_self_attr(t, "_waiters") and isinstance(val, Ent) and val.kind == "newdeque":
                s2 = ex.new()
                pre += f"{ind}let {s2} := Prim.initWaiters {st}\n"
                st = s2
            else:
                raise Unsupported(f"assignment to {ast.unparse(t)}")
        return scopes, pre, st

    def iterate(self, ex, seq, st):
        return None

    def bind_loop_target(self, ex, scopes, cur, target, x):
        raise Unsupported("for loop in the lock")

    def await_kind(self, ex, e, scopes, cur, st, ind):
        if isinstance(e, ast.Name) and self.is_mine(ex.lookup(scopes, cur, e.id)):
            return "fut", st, "", None
        raise Unsupported(f"await {ast.unparse(e)}")

    def resumes(self, ex, p):
        return [(".ok", lambda ind, st: (st, ("normal", Const(None)), "")),
                (".exc e", lambda ind, st: (st, ("raise", Dyn("Exn.dlv e", LEXN, "dlv")), ""))]

    def finish(self, ex, o):
        if o[0] == "normal":
            return ".fin (.ret false)"
        if o[0] == "return":
            v = o[1]
            if isinstance(v, Const) and v.v is None:
                return ".fin (.ret false)"
            return f".fin (.ret {paren(self.lean_of(v))})"
        if o[0] == "raise":
            return f".fin (.raised {paren(self.lean_of(o[1]))})"
        raise Unsupported(f"{o[0]} at function level")


class LockSync(LockDomain):
    def finish(self, ex, o):
        return LockDomain.finish(self, ex, o)[len(".fin "):]


class StdCondDomain(CondDomain):
    """asyncio.Condition's own methods over the state of Model/Cond.lean (kernel interface CondPrims)"""

    def __init__(self, sync):
        super().__init__("ic")
        self.sync = sync

    def attr(self, base, attr):
        if isinstance(base, Ent) and base.kind == "cond" and attr == "_waiters":
            return Ent("waiters")
        return super().attr(base, attr)

    def call_hook(self, ex, e, scopes, cur, st):
        # len(self._waiters)
        if isinstance(e.func, ast.Name) and e.func.id == "len" and len(e.args) == 1 and is_self_attr(e.args[0], "_waiters"):
            return ("pure", Dyn(f"{st}.queue.length", "Nat"))
        # predicate()
        if isinstance(e.func, ast.Name) and not e.args and not e.keywords:
            v = ex.lookup(scopes, cur, e.func.id)
            if isinstance(v, Ent) and v.kind == "predicate":
                return ("pure", Dyn("pred", "Bool"))
        return None

    def method(self, ex, base, name, args, kw, st):
        k = base.kind if isinstance(base, Ent) else None
        if k == "cond" and name == "notify" and len(args) == 1 and not kw:
            # dynamic dispatch: whichever `notify` the class has
            return self.call_sync(ex, "notify", [self.nat_of(args[0])], st)
        if k == "fut" and name == "set_result" and len(args) == 1 and base.data != "mine":
            return ("eff", f"Prim.futSetResult {st} {base.data}", Const(None))
        return super().method(ex, base, name, args, kw, st)

    def iterate(self, ex, seq, st):
        if isinstance(seq, Ent) and seq.kind == "waiters":
            return f"{st}.queue", None
        return super().iterate(ex, seq, st)

    def bind_loop_target(self, ex, scopes, cur, target, x):
        if isinstance(target, ast.Name):
            return ex.bind(scopes, cur, target.id, Ent("fut", x))
        return super().bind_loop_target(ex, scopes, cur, target, x)

    def await_kind(self, ex, e, scopes, cur, st, ind):
        if isinstance(e, ast.Call) and isinstance(e.func, ast.Attribute) and e.func.attr == "wait" and not e.args \
                and isinstance(e.func.value, ast.Name) and e.func.value.id == "self":
            return "wait", st, "", None
        raise Unsupported(f"await {ast.unparse(e)}")

    def resumes(self, ex, p):
        return [(".ok", lambda ind, st: (st, ("normal", Const(True)), "")),
                (".exc e", lambda ind, st: (st, ("raise", Dyn("Exn.dlv e", EXN, "dlv")), ""))]

    def finish(self, ex, o):
        if self.sync:
            if o[0] in ("normal", "return"):
                return ".ret"
            return f".raised {paren(self.lean_of(o[1]))}"
        return super().finish(ex, o)


def segments_text(prefix, doc, ex, state_ty, resume_ty, fin_ty, entry_sig, seg_sig):
    ent, segs = ex.all_segments()
    out = ""
    for p in ex.order:
        out += f"structure {prefix}_L_{p.name} where\n"
        for i, (ty, d) in enumerate(zip(p.field_tys, p.field_docs)):
            out += f"  d{i} : {ty}   -- {d}\n"
        out += "deriving DecidableEq, Repr\n\n"
    out += f"inductive {prefix}Out\n"
    for p in ex.order:
        out += f"  | susp_{p.name} (l : {prefix}_L_{p.name})\n"
    out += f"  | fin (f : {fin_ty})\nderiving DecidableEq, Repr\n\n"
    out += f"/-- {doc}: from the call to the first suspension -/\n"
    out += f"def {prefix}_entry {entry_sig}: {state_ty} × {prefix}Out :=\n{ent}\n"
    for p, alts in segs:
        out += f"/-- {doc}: resumed at point `{p.name}` (line {p.node.lineno}) -/\n"
        out += (f"def {prefix}_{p.name} {seg_sig}(l : {prefix}_L_{p.name}) (r : {resume_ty}) : "
                f"{state_ty} × {prefix}Out :=\n  match r with\n")
        for pat, txt in alts:
            out += f"  | {pat} =>\n{txt}"
        out += "\n"
    return out


def generate(src):
    path = os.environ.get("ASYNKIT_STDLIB_LOCKS") or importlib.util.find_spec("asyncio.locks").origin
    data = Path(path).read_bytes()
    tree = ast.parse(data.decode())
    sha = hashlib.sha256(data).hexdigest()
    text = (f"-- GENERATED by translator/asynciolocks2lean.py from {path}\n"
            f"-- Python {platform.python_version()}  sha256 {sha} — do not edit\n"
            "import Asynkit.Model.StdLock\nimport Asynkit.Model.CondPrims\n"
            "set_option linter.unusedVariables false\n"
            "namespace Asynkit.Gen.AsyncioLocks\n\n"
            f"def sourceSha256 : String := \"{sha}\"\n"
            f"def pythonVersion : String := \"{platform.python_version()}\"\n\n"
            "namespace Lock\nopen Asynkit.StdLock\nopen Asynkit.Cond (Resume)\n\n")

    def lock_sync(name, py, doc, sig=""):
        ex = Executor(LockSync(), find_func(tree, "Lock", py), {"self": Ent("lock")}, ident=f"Lock.{py}")
        body = ex.entry()
        if ex.order:
            raise Unsupported(f"Lock.{py} suspends")
        return f"/-- {doc} -/\ndef {name} (s : LS) {sig}: LS × Fin :=\n{body}\n"

    text += lock_sync("locked", "locked", "`Lock.locked()`")
    text += lock_sync("wakeUpFirst", "_wake_up_first", "`Lock._wake_up_first()`")
    text += lock_sync("release", "release", "`Lock.release()`")
    ex = Executor(LockDomain(), find_func(tree, "Lock", "acquire"), {"self": Ent("lock")}, ident="Lock.acquire")
    text += segments_text("acq", "`Lock.acquire()`", ex, "LS", "Resume", "Fin", "(s : LS) (j : Nat) ", "(s : LS) (j : Nat) ")
    text += "end Lock\n\nnamespace Condition\nopen Asynkit.Cond\n\n"
    # Condition.notify / notify_all / wait_for
    ex = Executor(StdCondDomain(True), find_func(tree, "Condition", "notify"),
                  {"self": Ent("cond"), "n": Dyn("n", "Nat")}, ident="Condition.notify")
    body = ex.entry()
    text += f"/-- `asyncio.Condition.notify(n)` -/\ndef notify (s : State) (n : Nat) : State × Fin :=\n{body}\n"
    ex = Executor(StdCondDomain(True), find_func(tree, "Condition", "notify_all"), {"self": Ent("cond")},
                  ident="Condition.notify_all")
    body = ex.entry()
    text += ("/-- `asyncio.Condition.notify_all()`, over the `notify` of the actual class -/\n"
             f"def notifyAll (notify : State → Nat → State × Fin) (s : State) : State × Fin :=\n{body}\n")
    wf = find_func(tree, "Condition", "wait_for")
    if [a.arg for a in wf.args.args] != ["self", wf.args.args[1].arg] or len(wf.args.args) != 2:
        raise Unsupported("Condition.wait_for signature")
    ex = Executor(StdCondDomain(False), wf, {"self": Ent("cond"), wf.args.args[1].arg: Ent("predicate")},
                  ident="Condition.wait_for")
    text += segments_text("wf", "`asyncio.Condition.wait_for(predicate)` (`pred` = what this evaluation of the "
                          "predicate returns)", ex, "State", "Resume", "Asynkit.Cond.Fin",
                          "(s : State) (pred : Bool) ", "(s : State) (pred : Bool) ")
    text += "end Condition\nend Asynkit.Gen.AsyncioLocks\n"
    return {"AsyncioLocks.lean": text}


if __name__ == "__main__":
    print(generate(None)["AsyncioLocks.lean"])
