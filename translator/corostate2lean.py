"""corostate2lean — translate the coroutine state helpers of src/asynkit/coroutine.py to Lean.

`generate(src)` returns {"CoroState.lean": text}; py2lean.generate() merges it into the files it
regenerates under lean/Asynkit/Gen/ on every run.  The helpers

    coro_get_frame, _asyncgen_frame_state, coro_is_new, coro_is_suspended, coro_is_finished

(and whatever module-level functions / constants they use, e.g. `_coro_getattr`,
`_RETURN_GENERATOR`) are synchronous decision code over what CPython exposes about a coroutine,
generator or async generator.  Each becomes a Lean function `ObjView → Except PyErr τ` over the
object view of lean/Asynkit/Model/PyView.lean: attribute reads, `hasattr`, `getattr(x, n, d)`,
`isinstance`, comparisons with constants, `raise X(...)` become the primitives of that file;
if / elif / else chains, early returns, local (re)assignments, `for` over a constant tuple
(unrolled), `and` / `or` / conditional expressions (short-circuit kept) are translated statement
by statement.  Anything else raises `Unsupported` — loudly: the check then reports a broken
obligation instead of silently skipping a function.

The `inspect` functions the helpers call are translated by the SAME translator from the verbatim
text of CPython 3.12's Lib/inspect.py kept in STDLIB below (trusted base: that this text is what
the interpreter runs; when the translator itself runs on 3.12 it compares the text with
`inspect.getsource` and refuses to go on if they differ).

lean/Asynkit/Lemmas/GenEqC20.lean proves the generated functions equal to the hand-written helper
definitions of Model/CoroState.lean on every view the attribute table can produce.
"""
from __future__ import annotations

import ast
import sys
import textwrap
from pathlib import Path


class Unsupported(KeyError):
    """outside the translatable subset (a KeyError so that py2lean.main() reports it as
    `cannot translate` and exits 1 instead of dying with a traceback)"""

    def __str__(self):
        return str(self.args[0]) if self.args else ""


# verbatim from CPython 3.12 Lib/inspect.py (docstrings removed) --------------------------------
STDLIB = '''
def isgenerator(object):
    return isinstance(object, types.GeneratorType)

def iscoroutine(object):
    return isinstance(object, types.CoroutineType)

def isasyncgen(object):
    return isinstance(object, types.AsyncGeneratorType)

GEN_CREATED = 'GEN_CREATED'
GEN_RUNNING = 'GEN_RUNNING'
GEN_SUSPENDED = 'GEN_SUSPENDED'
GEN_CLOSED = 'GEN_CLOSED'

def getgeneratorstate(generator):
    if generator.gi_running:
        return GEN_RUNNING
    if generator.gi_suspended:
        return GEN_SUSPENDED
    if generator.gi_frame is None:
        return GEN_CLOSED
    return GEN_CREATED

CORO_CREATED = 'CORO_CREATED'
CORO_RUNNING = 'CORO_RUNNING'
CORO_SUSPENDED = 'CORO_SUSPENDED'
CORO_CLOSED = 'CORO_CLOSED'

def getcoroutinestate(coroutine):
    if coroutine.cr_running:
        return CORO_RUNNING
    if coroutine.cr_suspended:
        return CORO_SUSPENDED
    if coroutine.cr_frame is None:
        return CORO_CLOSED
    return CORO_CREATED

AGEN_CREATED = 'AGEN_CREATED'
AGEN_RUNNING = 'AGEN_RUNNING'
AGEN_SUSPENDED = 'AGEN_SUSPENDED'
AGEN_CLOSED = 'AGEN_CLOSED'

def getasyncgenstate(agen):
    if agen.ag_running:
        return AGEN_RUNNING
    if agen.ag_suspended:
        return AGEN_SUSPENDED
    if agen.ag_frame is None:
        return AGEN_CLOSED
    return AGEN_CREATED
'''

HELPERS = ["coro_get_frame", "_asyncgen_frame_state", "coro_is_new", "coro_is_suspended", "coro_is_finished"]

PYTYPES = {"CoroutineType": ".coroutine", "GeneratorType": ".generator", "AsyncGeneratorType": ".asyncGen"}
ERRORS = {"TypeError": ".typeError", "AttributeError": ".attributeError", "ValueError": ".valueError",
          "RuntimeError": ".runtimeError"}
# object attributes: suffix -> (accessor, result type, `getattr(.., None)` form, presence predicate)
OBJ_ATTRS = {
    "frame": ("getFrame", "optframe", None, "always"),
    "code": ("getCode", "code", None, "always"),
    "running": ("getRunning", "bool", "getRunningOr", "always"),
    "suspended": ("getSuspended", "bool", "getSuspendedOr", "hasSuspended"),
    "await": ("getAwait", "optunit", None, "always"),
    "yieldfrom": ("getAwait", "optunit", None, "always"),
}
LEAN_TY = {"bool": "Bool", "str": "String", "int": "Int", "nat": "Nat", "optnat": "Option Nat",
           "optframe": "Option FrameView", "frame": "FrameView", "code": "CodeView", "optbool": "Option Bool",
           "optunit": "Option Unit", "obj": "ObjView"}


def _strip_doc(fn):
    b = fn.body
    if b and isinstance(b[0], ast.Expr) and isinstance(b[0].value, ast.Constant) and isinstance(b[0].value.value, str):
        b = b[1:]
    return b


def _check_stdlib_is_live():
    """On the interpreter version STDLIB was copied from, compare with the running `inspect`."""
    if sys.version_info[:2] != (3, 12):
        return
    import inspect as live
    mine = {n.name: n for n in ast.parse(STDLIB).body if isinstance(n, ast.FunctionDef)}
    for name, node in mine.items():
        real = ast.parse(textwrap.dedent(live.getsource(getattr(live, name)))).body[0]
        a = ast.dump(ast.Module(body=_strip_doc(node), type_ignores=[]))
        b = ast.dump(ast.Module(body=_strip_doc(real), type_ignores=[]))
        if a != b:
            raise Unsupported(f"inspect.{name} of the running interpreter differs from the transcribed text")


class Module:
    """Functions and constants of one Python module, plus the Lean definitions produced so far."""

    def __init__(self, tree, prefix, stdlib=None):
        self.prefix = prefix                    # lean name prefix ("" or "inspect_")
        self.stdlib = stdlib                    # Module for `inspect.*`
        self.funcs = {}
        self.const_nodes = {}
        for node in tree.body:
            if isinstance(node, ast.FunctionDef):
                self.funcs[node.name] = node
            elif isinstance(node, ast.Assign) and len(node.targets) == 1 and isinstance(node.targets[0], ast.Name):
                self.const_nodes[node.targets[0].id] = node.value
        self.defs = {}                          # lean name -> (text, result type)
        self.consts = {}                        # python name -> (lean text, type) once translated
        self.reads = set()                      # attribute names read (for the doc comment)
        self.in_progress = set()

    # -- module-level constants ----------------------------------------------------------------
    def constant(self, name):
        if name in self.consts:
            return self.consts[name]
        if name not in self.const_nodes:
            return None
        node = self.const_nodes[name]
        if isinstance(node, ast.Constant) and isinstance(node.value, str):
            res = (_lean_str(node.value), "str", ("const", node.value))
        elif isinstance(node, ast.Constant) and isinstance(node.value, int) and not isinstance(node.value, bool):
            res = (str(node.value), "int", ("const", node.value))
        elif (isinstance(node, ast.Call) and isinstance(node.func, ast.Attribute) and node.func.attr == "get"
              and isinstance(node.func.value, ast.Attribute) and node.func.value.attr == "opmap"
              and isinstance(node.func.value.value, ast.Name) and node.func.value.value.id == "opcode"
              and len(node.args) in (1, 2) and isinstance(node.args[0], ast.Constant) and isinstance(node.args[0].value, str)
              and (len(node.args) == 1 or (isinstance(node.args[1], ast.Constant) and node.args[1].value is None))):
            # inlined at its uses (so that renaming the constant changes nothing)
            res = (f"(opmapGet {_lean_str(node.args[0].value)})", "optnat", None)
        else:
            raise Unsupported(f"module constant {name} = {ast.dump(node)[:80]}")
        self.consts[name] = res
        return res

    # -- functions -------------------------------------------------------------------------------
    def function(self, name, const_args=()):
        """Translate (once) the function `name`, specialised for compile-time string arguments
        `const_args` = ((param, value), ...).  Returns (lean name, result type)."""
        if name not in self.funcs:
            raise Unsupported(f"function {name} not found")
        lean = self.prefix + name + "".join("__" + v for _, v in const_args)
        if lean in self.defs:
            return lean, self.defs[lean][1]
        if lean in self.in_progress:
            raise Unsupported(f"recursive function {name}")
        self.in_progress.add(lean)
        fn = self.funcs[name]
        a = fn.args
        if a.vararg or a.kwarg or a.kwonlyargs or a.defaults or a.posonlyargs:
            raise Unsupported(f"signature of {name}")
        params = [x.arg for x in a.args]
        cenv = dict(const_args)
        dyn = [p for p in params if p not in cenv]
        if len(dyn) != 1:
            raise Unsupported(f"{name}: exactly one object parameter expected, got {dyn}")
        f = FnTr(self, name, dyn[0], {k: ("str", v) for k, v in cenv.items()})
        body = f.block(_strip_doc(fn), 1)
        if not f.always_returns(_strip_doc(fn)):
            raise Unsupported(f"{name} may fall off its end")
        rty = f.result_type()
        spec = "".join(f", {p} = {v!r}" for p, v in const_args)
        text = (f"/-- `{name}`{spec} -/\n"
                f"def {lean} ({_ident(dyn[0])} : ObjView) : Except PyErr {_paren(LEAN_TY[rty])} := do\n{body}\n")
        self.in_progress.discard(lean)
        self.defs[lean] = (text, rty)
        return lean, rty


def _lean_str(s):
    return '"' + s.replace("\\", "\\\\").replace('"', '\\"') + '"'


def _paren(t):
    return f"({t})" if " " in t else t


def _ident(n):
    return n + "'" if n in ("from", "at", "end", "fun", "open", "instance", "structure", "match", "do", "then") else n


class FnTr:
    """Translation of one function body.  Expressions are (lean text, type, effect) where type is
    one of LEAN_TY's keys, 'none' for the literal None, ('const', v) info for compile-time
    constants (strings, stdlib functions); `effect` says the text contains a `(← …)`."""

    def __init__(self, mod: Module, name, obj_param, consts):
        self.mod = mod
        self.name = name
        self.consts = dict(consts)          # compile-time constants: python name -> (kind, value)
        self.vars = {obj_param: "obj"}      # python local -> type
        self.assigned = {}                  # python local -> number of assignments (mutability)
        self.ret_types = []

    # ---- helpers
    def result_type(self):
        ts = set(self.ret_types)
        if not ts:
            raise Unsupported(f"{self.name}: no return value")
        if len(ts) > 1:
            raise Unsupported(f"{self.name}: returns values of different types {sorted(ts)}")
        return ts.pop()

    def always_returns(self, stmts):
        if not stmts:
            return False
        s = stmts[-1]
        if isinstance(s, (ast.Return, ast.Raise)):
            return True
        if isinstance(s, ast.Expr) and isinstance(s.value, ast.Call) and isinstance(s.value.func, ast.Name) \
                and s.value.func.id in self.mod.funcs:
            body = _strip_doc(self.mod.funcs[s.value.func.id])
            return len(body) == 1 and isinstance(body[0], ast.Raise)      # a helper that only raises
        if isinstance(s, ast.If):
            return bool(s.orelse) and self.always_returns(s.body) and self.always_returns(s.orelse)
        if isinstance(s, ast.For):
            return False
        return False

    def count_assignments(self, stmts):
        for node in stmts:
            for sub in ast.walk(node):
                if isinstance(sub, (ast.Assign, ast.AnnAssign)):
                    tgts = sub.targets if isinstance(sub, ast.Assign) else [sub.target]
                    for t in tgts:
                        if isinstance(t, ast.Name):
                            self.assigned[t.id] = self.assigned.get(t.id, 0) + 1

    # ---- statements
    def block(self, stmts, depth, top=True):
        if top and depth == 1:
            self.count_assignments(stmts)
        out = []
        ind = "  " * depth
        for s in stmts:
            out.extend(self.stmt(s, depth, ind))
        if not out:
            out.append(ind + "pure ()")
        return "\n".join(out)

    def stmt(self, s, depth, ind):
        if isinstance(s, ast.Expr) and isinstance(s.value, ast.Constant):
            return []
        if isinstance(s, ast.Pass):
            return []
        if isinstance(s, ast.Return):
            if s.value is None:
                raise Unsupported("bare return")
            t, ty, _ = self.value(self.expr(s.value))
            if ty == "none":
                raise Unsupported("return None")
            self.ret_types.append(ty)
            return [f"{ind}return {t}"]
        if isinstance(s, ast.Raise):
            return [f"{ind}throw {self.error_of(s.exc)}"]
        if isinstance(s, ast.Expr) and isinstance(s.value, ast.Call) and isinstance(s.value.func, ast.Name) \
                and s.value.func.id in self.mod.funcs:
            # a private helper called for its effect: only one that does nothing but raise is understood
            body = _strip_doc(self.mod.funcs[s.value.func.id])
            if len(body) == 1 and isinstance(body[0], ast.Raise):
                return [f"{ind}throw {self.error_of(body[0].exc)}"]
            raise Unsupported(f"call of {s.value.func.id}() as a statement")
        if isinstance(s, ast.If):
            c = self.cond(s.test)
            if c == "true":                      # compile-time true: only the body
                return self.stmts_inline(s.body, depth, ind)
            if c == "false":
                return self.stmts_inline(s.orelse, depth, ind)
            saved = dict(self.vars), dict(self.consts)
            lines = [f"{ind}if {c} then", self.block(s.body, depth + 1, top=False)]
            self.vars, self.consts = self.merge(saved, (self.vars, self.consts))
            if s.orelse:
                before = dict(self.vars), dict(self.consts)
                lines += [f"{ind}else", self.block(s.orelse, depth + 1, top=False)]
                self.vars, self.consts = self.merge(before, (self.vars, self.consts))
            return lines
        if isinstance(s, ast.For):
            if s.orelse or not isinstance(s.target, ast.Name) or not isinstance(s.iter, (ast.Tuple, ast.List)):
                raise Unsupported("for loop that is not `for name in (constants…):`")
            for sub in ast.walk(s):
                if isinstance(sub, (ast.Break, ast.Continue)):
                    raise Unsupported("break/continue")
            lines = []
            for elt in s.iter.elts:
                if not (isinstance(elt, ast.Constant) and isinstance(elt.value, str)):
                    raise Unsupported("for over non-constant elements")
                self.consts[s.target.id] = ("str", elt.value)
                lines.append(f"{ind}-- {s.target.id} = {elt.value!r}")
                lines += self.stmts_inline(s.body, depth, ind)
            self.consts.pop(s.target.id, None)
            return lines
        if isinstance(s, (ast.Assign, ast.AnnAssign)):
            if isinstance(s, ast.Assign):
                if len(s.targets) != 1:
                    raise Unsupported("multiple assignment targets")
                tgt, val = s.targets[0], s.value
            else:
                tgt, val = s.target, s.value
            if not isinstance(tgt, ast.Name) or val is None:
                raise Unsupported("assignment form")
            t, ty, _ = self.expr(val)
            n = tgt.id
            if isinstance(ty, tuple):                       # compile-time constant: no Lean binding
                if self.assigned.get(n, 0) > 1:
                    raise Unsupported(f"re-assigned compile-time constant {n}")
                self.consts[n] = ("fn", ty[1]) if ty[0] == "cfn" else ("str", ty[1])
                return [f"{ind}-- {n} is the compile-time constant {ty[1]}"]
            if ty == "none":
                raise Unsupported(f"{n} = None")
            if n in self.vars:
                old = self.vars[n]
                if old == ty:
                    return [f"{ind}{_ident(n)} := {t}"]
                if old == "opt" + ty:                      # Optional[T] variable receives a T
                    return [f"{ind}{_ident(n)} := some {_paren(t)}"]
                raise Unsupported(f"{n} changes type from {old} to {ty}")
            self.vars[n] = ty
            mut = "mut " if self.assigned.get(n, 0) > 1 else ""
            return [f"{ind}let {mut}{_ident(n)} : {LEAN_TY[ty]} := {t}"]
        raise Unsupported(f"statement {type(s).__name__} in {self.name}")

    def error_of(self, e, depth=0):
        """the exception an expression denotes: `TypeError(...)`, `TypeError`, or a call of a private
        module-level helper whose body is just `return <such an expression>`"""
        if e is None or depth > 3:
            raise Unsupported("bare raise / too deep")
        if isinstance(e, ast.Call):
            f = e.func
            if isinstance(f, ast.Name) and f.id in ERRORS:
                return ERRORS[f.id]
            if isinstance(f, ast.Name) and f.id in self.mod.funcs:
                body = _strip_doc(self.mod.funcs[f.id])
                if len(body) == 1 and isinstance(body[0], ast.Return) and body[0].value is not None:
                    return self.error_of(body[0].value, depth + 1)
                raise Unsupported(f"raise {f.id}(...): {f.id} is not a plain `return <Exception>(...)`")
        if isinstance(e, ast.Name) and e.id in ERRORS:
            return ERRORS[e.id]
        raise Unsupported(f"raise of {ast.dump(e)[:60]}")

    def stmts_inline(self, stmts, depth, ind):
        out = []
        for s in stmts:
            out.extend(self.stmt(s, depth, ind))
        return out

    @staticmethod
    def merge(a, b):
        # variables first bound inside a branch are not visible afterwards
        return ({k: v for k, v in a[0].items()}, {k: v for k, v in a[1].items()})

    # ---- expressions
    def cond(self, e):
        """a condition: truthiness of an expression, as Lean Bool text ('true'/'false' when known
        at translation time)"""
        t, ty, _ = self.expr(e)
        return self.truthy(t, ty)

    def truthy(self, t, ty):
        if isinstance(ty, tuple):
            if ty[0] == "cfn":
                return "true"
            return "true" if ty[1] else "false"
        if ty == "none":
            return "false"
        if ty == "bool":
            return t
        if ty == "optbool":
            return f"({t}).getD false"
        if ty in ("optframe", "optunit", "optnat"):
            return f"({t}).isSome"
        if ty == "str":
            return f"({t} != \"\")"
        if ty in ("int", "nat"):
            return f"({t} != 0)"
        raise Unsupported(f"truth value of a {ty}")

    def prefix_of(self, attr):
        for p in ("cr_", "gi_", "ag_"):
            if attr.startswith(p):
                return p[:2], attr[3:]
        return None, None

    def obj_attr(self, objtext, attr, how):
        """attribute `attr` of an object view; how in {'read', 'default-none', 'has'}"""
        p, suf = self.prefix_of(attr)
        if p is None or suf not in OBJ_ATTRS:
            raise Unsupported(f"attribute {attr!r} of a coroutine-like object is not part of the object view")
        acc, ty, dflt, present = OBJ_ATTRS[suf]
        if (suf == "yieldfrom") != (p == "gi") and suf in ("await", "yieldfrom"):
            raise Unsupported(f"attribute {attr!r} does not exist")
        self.mod.reads.add(attr)
        if how == "read":
            return f"(← {objtext}.{acc} .{p})", ty, True
        if how == "has":
            return f"({objtext}.hasAttr .{p} {present})", "bool", False
        if dflt is None:
            raise Unsupported(f"getattr({attr!r}, None): attribute is always present; use a plain read")
        return f"({objtext}.{dflt} .{p})", "opt" + ty, False

    def const_str(self, e):
        t, ty, _ = self.expr(e)
        if isinstance(ty, tuple) and ty[0] == "const" and isinstance(ty[1], str):
            return ty[1]
        raise Unsupported(f"attribute name is not a compile-time string: {ast.dump(e)[:60]}")

    def expr(self, e):
        if isinstance(e, ast.Constant):
            v = e.value
            if v is None:
                return "none", "none", False
            if isinstance(v, bool):
                return ("true" if v else "false"), "bool", False
            if isinstance(v, int):
                return f"({v} : Int)", "int", False
            if isinstance(v, str):
                return _lean_str(v), ("const", v), False
            raise Unsupported(f"constant {v!r}")
        if isinstance(e, ast.JoinedStr):
            return '""', "str", False
        if isinstance(e, ast.Name):
            n = e.id
            if n in self.consts:
                k, v = self.consts[n]
                if k == "fn":
                    return n, ("cfn", v), False
                return _lean_str(v), ("const", v), False
            if n in self.vars:
                return _ident(n), self.vars[n], False
            c = self.mod.constant(n)
            if c is not None:
                t, ty, info = c
                return t, (info if info else ty), False
            raise Unsupported(f"name {n}")
        if isinstance(e, ast.BinOp) and isinstance(e.op, ast.Add):
            a, b = self.expr(e.left), self.expr(e.right)
            if all(isinstance(x[1], tuple) and x[1][0] == "const" and isinstance(x[1][1], str) for x in (a, b)):
                v = a[1][1] + b[1][1]
                return _lean_str(v), ("const", v), False
            raise Unsupported("+ on anything but compile-time strings")
        if isinstance(e, ast.Attribute):
            # inspect.CONSTANT
            if isinstance(e.value, ast.Name) and e.value.id == "inspect" and self.mod.stdlib is not None:
                c = self.mod.stdlib.constant(e.attr)
                if c is None:
                    raise Unsupported(f"inspect.{e.attr}")
                return c[0], (c[2] if c[2] else c[1]), False
            t, ty, eff = self.expr(e.value)
            if ty == "obj":
                return self.obj_attr(t, e.attr, "read")
            if ty == "optframe":
                t, ty, eff = f"(← deref {t})", "frame", True
            if ty == "frame":
                if e.attr == "f_lasti":
                    self.mod.reads.add("f_lasti")
                    return f"{t}.lasti", "int", eff
                if e.attr == "f_back":
                    self.mod.reads.add("f_back")
                    return f"{t}.back", "optunit", eff
                raise Unsupported(f"frame attribute {e.attr}")
            if ty == "code":
                if e.attr == "co_code":
                    self.mod.reads.add("co_code")
                    return f"{t}.co_code", "bytes", eff
                raise Unsupported(f"code attribute {e.attr}")
            raise Unsupported(f"attribute .{e.attr} of a {ty}")
        if isinstance(e, ast.Subscript):
            t, ty, eff = self.expr(e.value)
            if ty != "bytes":
                raise Unsupported("subscript of something that is not co_code")
            i, ity, ieff = self.expr(e.slice)
            if ity != "int":
                raise Unsupported("co_code index")
            return f"({t} {i})", "nat", eff or ieff
        if isinstance(e, ast.UnaryOp) and isinstance(e.op, ast.Not):
            c = self.cond(e.operand)
            if c in ("true", "false"):
                return ("false" if c == "true" else "true"), "bool", False
            return f"(!{c})", "bool", "←" in c
        if isinstance(e, ast.BoolOp):
            parts = [self.cond(v) for v in e.values]
            isand = isinstance(e.op, ast.And)
            # fold compile-time operands
            keep = []
            for p in parts:
                if p == ("true" if isand else "false"):
                    continue
                if p == ("false" if isand else "true"):
                    keep.append(p)
                    break
                keep.append(p)
            if not keep:
                return ("true" if isand else "false"), "bool", False
            parts = keep
            if not any("←" in p for p in parts[1:]):
                op = " && " if isand else " || "
                return "(" + op.join(parts) + ")", "bool", any("←" in p for p in parts)
            # short-circuit: later operands are only evaluated (and may only fail) when needed
            acc = f"pure {parts[-1]}" if "←" not in parts[-1] else f"(do pure {parts[-1]})"
            for p in reversed(parts[:-1]):
                if isand:
                    acc = f"(do if {p} then {acc} else pure false)"
                else:
                    acc = f"(do if {p} then pure true else {acc})"
            return f"(← {acc})", "bool", True
        if isinstance(e, ast.IfExp):
            c = self.cond(e.test)
            a, b = self.expr(e.body), self.expr(e.orelse)
            ta, tb = self.value(a), self.value(b)
            # `x if c else None`: an Optional value
            if ta[1] == "none" and tb[1] in ("bool", "nat"):
                ta, tb = ("none", "opt" + tb[1], False), (f"some {_paren(tb[0])}", "opt" + tb[1], tb[2])
            elif tb[1] == "none" and ta[1] in ("bool", "nat"):
                ta, tb = (f"some {_paren(ta[0])}", "opt" + ta[1], ta[2]), ("none", "opt" + ta[1], False)
            if ta[1] != tb[1]:
                raise Unsupported(f"conditional expression of types {ta[1]} / {tb[1]}")
            if c == "true":
                return ta
            if c == "false":
                return tb
            if ta[2] or tb[2]:
                return f"(← (do if {c} then pure ({ta[0]}) else pure ({tb[0]})))", ta[1], True
            return f"(if {c} then {ta[0]} else {tb[0]})", ta[1], "←" in c
        if isinstance(e, ast.Compare):
            if len(e.ops) != 1:
                raise Unsupported("chained comparison")
            return self.compare(e.ops[0], self.expr(e.left), self.expr(e.comparators[0]))
        if isinstance(e, ast.Call):
            return self.call(e)
        raise Unsupported(f"expression {ast.dump(e)[:90]}")

    def value(self, x):
        """materialise a compile-time string as a runtime String value"""
        t, ty, eff = x
        if isinstance(ty, tuple) and ty[0] == "const" and isinstance(ty[1], str):
            return t, "str", eff
        if isinstance(ty, tuple):
            raise Unsupported("function value used as data")
        return x

    def compare(self, op, a, b):
        isnone = isinstance(op, (ast.Is, ast.Eq)) and (a[1] == "none" or b[1] == "none")
        notnone = isinstance(op, (ast.IsNot, ast.NotEq)) and (a[1] == "none" or b[1] == "none")
        if isnone or notnone:
            x = b if a[1] == "none" else a
            t, ty, eff = x
            if isinstance(ty, tuple):          # a compile-time constant is never None
                return ("false" if isnone else "true"), "bool", False
            if ty == "none":
                return ("true" if isnone else "false"), "bool", False
            if not ty.startswith("opt"):
                raise Unsupported(f"`is None` on a {ty}, which is never None in the object view")
            return f"({t}).{'isNone' if isnone else 'isSome'}", "bool", eff
        a, b = self.value(a), self.value(b)
        (ta, tya, ea), (tb, tyb, eb) = a, b
        eff = ea or eb
        if isinstance(op, (ast.Eq, ast.NotEq)):
            sym = "==" if isinstance(op, ast.Eq) else "!="
            if tya == tyb and tya in ("str", "int", "nat", "bool", "optnat", "optbool"):
                return f"({ta} {sym} {tb})", "bool", eff
            if {tya, tyb} == {"nat", "optnat"}:
                if tya == "nat":
                    ta = f"some {ta}"
                else:
                    tb = f"some {tb}"
                return f"({ta} {sym} {tb})", "bool", eff
            raise Unsupported(f"== between {tya} and {tyb}")
        ops = {ast.Lt: "<", ast.LtE: "≤", ast.Gt: ">", ast.GtE: "≥"}
        if type(op) in ops and tya == "int" and tyb == "int":
            return f"decide ({ta} {ops[type(op)]} {tb})", "bool", eff
        raise Unsupported(f"comparison {type(op).__name__} between {tya} and {tyb}")

    def call(self, e):
        f = e.func
        if e.keywords:
            raise Unsupported("keyword arguments")
        # cast(T, x) / bool(x)
        if isinstance(f, ast.Name) and f.id == "cast" and len(e.args) == 2:
            return self.expr(e.args[1])
        if isinstance(f, ast.Name) and f.id == "bool" and len(e.args) == 1:
            c = self.cond(e.args[0])
            return c, "bool", "←" in c
        if isinstance(f, ast.Name) and f.id == "isinstance" and len(e.args) == 2:
            t, ty, eff = self.expr(e.args[0])
            k = e.args[1]
            if ty != "obj" or not (isinstance(k, ast.Attribute) and isinstance(k.value, ast.Name)
                                   and k.value.id == "types" and k.attr in PYTYPES):
                raise Unsupported("isinstance test")
            return f"({t}.type == {PYTYPES[k.attr]})", "bool", eff
        if isinstance(f, ast.Name) and f.id in ("hasattr", "getattr") and len(e.args) >= 2:
            # getattr(inspect, "name", None): a stdlib function as a compile-time constant
            if (isinstance(e.args[0], ast.Name) and e.args[0].id == "inspect" and self.mod.stdlib is not None
                    and e.args[0].id not in self.vars):
                name = self.const_str(e.args[1])
                there = name in self.mod.stdlib.funcs or name in self.mod.stdlib.const_nodes
                if f.id == "hasattr":
                    return ("true" if there else "false"), "bool", False
                if not there:
                    if len(e.args) == 3 and isinstance(e.args[2], ast.Constant) and e.args[2].value is None:
                        return "none", "none", False
                    raise Unsupported(f"inspect.{name} is not transcribed")
                if name in self.mod.stdlib.funcs:
                    return name, ("cfn", name), False
                c = self.mod.stdlib.constant(name)
                return c[0], (c[2] if c[2] else c[1]), False
            t, ty, eff = self.expr(e.args[0])
            if ty != "obj":
                raise Unsupported(f"{f.id}() on a {ty}")
            name = self.const_str(e.args[1])
            if f.id == "hasattr":
                if len(e.args) != 2:
                    raise Unsupported("hasattr arity")
                return self.obj_attr(t, name, "has")
            if len(e.args) == 2:
                return self.obj_attr(t, name, "read")
            if len(e.args) == 3 and isinstance(e.args[2], ast.Constant) and e.args[2].value is None:
                return self.obj_attr(t, name, "default-none")
            raise Unsupported("getattr default other than None")
        # inspect.f(x)  /  local bound to a stdlib function  /  module-level function
        target = None
        if (isinstance(f, ast.Attribute) and isinstance(f.value, ast.Name) and f.value.id == "inspect"
                and self.mod.stdlib is not None):
            target = (self.mod.stdlib, f.attr)
        elif isinstance(f, ast.Name) and f.id in self.consts and self.consts[f.id][0] == "fn":
            target = (self.mod.stdlib, self.consts[f.id][1])
        elif isinstance(f, ast.Name) and f.id in self.mod.funcs:
            target = (self.mod, f.id)
        if target is None:
            raise Unsupported(f"call of {ast.dump(f)[:70]}")
        mod, name = target
        fn = mod.funcs.get(name)
        if fn is None:
            raise Unsupported(f"function {name} is not available")
        params = [x.arg for x in fn.args.args]
        if len(params) != len(e.args):
            raise Unsupported(f"arity of {name}")
        const_args, dyn = [], []
        for p, a in zip(params, e.args):
            t, ty, eff = self.expr(a)
            if isinstance(ty, tuple) and ty[0] == "const" and isinstance(ty[1], str):
                const_args.append((p, ty[1]))
            elif ty == "obj":
                dyn.append(t)
            else:
                raise Unsupported(f"argument of type {ty} to {name}")
        if len(dyn) != 1:
            raise Unsupported(f"{name}: exactly one object argument expected")
        lean, rty = mod.function(name, tuple(const_args))
        return f"(← {lean} {dyn[0]})", rty, True


def generate(src: Path) -> dict:
    _check_stdlib_is_live()
    stdlib = Module(ast.parse(STDLIB), "inspect_")
    mod = Module(ast.parse((Path(src) / "asynkit/coroutine.py").read_text()), "", stdlib=stdlib)
    for h in HELPERS:
        mod.function(h)
    out = ["-- GENERATED by translator/corostate2lean.py from src/asynkit/coroutine.py (and the transcribed",
           "-- CPython 3.12 Lib/inspect.py functions it calls) — do not edit",
           "import Asynkit.Model.PyView",
           "namespace Asynkit.Gen.CoroState",
           "open Asynkit.PyView", ""]
    out.append("/-! ### `inspect` (CPython 3.12, transcribed) -/\n")
    for name, (text, _) in stdlib.defs.items():
        out.append(text)
    out.append("/-! ### src/asynkit/coroutine.py -/\n")
    for name, (text, _) in mod.defs.items():
        out.append(text)
    reads = sorted(mod.reads | stdlib.reads)
    out.append("/-- every attribute the translated functions read -/")
    out.append("def attrsRead : List String := [" + ", ".join(_lean_str(r) for r in reads) + "]\n")
    out.append("end Asynkit.Gen.CoroState\n")
    return {"CoroState.lean": "\n".join(out)}


if __name__ == "__main__":
    print(generate(Path(sys.argv[1]))["CoroState.lean"])
