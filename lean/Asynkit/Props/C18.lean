/-
C18 — asynkit event loops keep asyncio's thread-safety contract.

Theorems about `Model/Threads`: with every queue operation under one lock, *every* schedule of the
two threads — a switch at any internal point of any operation — is equivalent to running the
operations one after the other in commit order; each operation takes effect exactly once, in its
thread's order; a thread is only ever blocked while the other one holds the lock, and some thread
can always make progress.  For the deque loops: the helper operations, built from atomic deque
primitives addressed by identity, give a linearisable result wherever a foreign append lands.
-/
import Asynkit.Model.Threads
import Asynkit.Lemmas.C18PosPQ
import Asynkit.Lemmas.CpyHeap

namespace Asynkit.C18
open Asynkit.Threads

variable {Q : Type}

/-- the invariant of the locked system -/
structure Inv (q0 : Q) (loopOps forOps : List (Op Q)) (s : Sys Q) : Prop where
  fold : s.q = s.log.foldl (fun q e => e.2.apply q) q0
  loopOrder : committed s .loop ++ s.loopT.pending = loopOps.map (·.id)
  forOrder : committed s .foreign ++ s.forT.pending = forOps.map (·.id)
  mutex : (s.lock = none ∧ s.loopT.cur = none ∧ s.forT.cur = none) ∨
          (s.lock = some .loop ∧ s.loopT.cur ≠ none ∧ s.forT.cur = none) ∨
          (s.lock = some .foreign ∧ s.loopT.cur = none ∧ s.forT.cur ≠ none)

theorem inv_init (q0 : Q) (loopOps forOps : List (Op Q)) : Inv q0 loopOps forOps (init q0 loopOps forOps) :=
  ⟨rfl, by simp [init, committed, Th.pending], by simp [init, committed, Th.pending], Or.inl ⟨rfl, rfl, rfl⟩⟩

theorem inv_step {q0 : Q} {loopOps forOps : List (Op Q)} {s : Sys Q} (h : Inv q0 loopOps forOps s)
    (t : Tid) : Inv q0 loopOps forOps (step s t) := by
  obtain ⟨hf, hlo, hfo, hm⟩ := h
  cases t with
  | loop =>
    unfold step
    simp only [Sys.th]
    cases hc : s.loopT.cur with
    | some p =>
      obtain ⟨op, k⟩ := p
      have hlock : s.lock = some .loop ∧ s.forT.cur = none := by
        rcases hm with ⟨_, h2, _⟩ | ⟨h1, _, h3⟩ | ⟨_, h2, _⟩
        · rw [hc] at h2; cases h2
        · exact ⟨h1, h3⟩
        · rw [hc] at h2; cases h2
      cases k with
      | succ k =>
        refine ⟨by simpa [Sys.setTh] using hf, ?_, by simpa [Sys.setTh, committed] using hfo,
          Or.inr (Or.inl ⟨by simpa [Sys.setTh] using hlock.1, by simp [Sys.setTh], by simpa [Sys.setTh] using hlock.2⟩)⟩
        simpa [Sys.setTh, committed, Th.pending, hc] using hlo
      | zero =>
        refine ⟨?_, ?_, ?_, Or.inl ⟨by simp [Sys.setTh], by simp [Sys.setTh], by simpa [Sys.setTh] using hlock.2⟩⟩
        · simp [Sys.setTh, List.foldl_append, hf]
        · simp only [Sys.setTh, committed, Th.pending, hc] at hlo ⊢
          simpa [List.filter_append] using hlo
        · simp only [Sys.setTh, committed] at hfo ⊢
          simpa [List.filter_append] using hfo
    | none =>
      simp only
      cases ht : s.loopT.todo with
      | nil => exact ⟨hf, hlo, hfo, hm⟩
      | cons op rest =>
        simp only
        cases hl : s.lock with
        | some t' => exact ⟨hf, hlo, hfo, hm⟩
        | none =>
          have hfor : s.forT.cur = none := by
            rcases hm with ⟨_, _, h3⟩ | ⟨h1, _, _⟩ | ⟨h1, _, _⟩
            · exact h3
            · rw [hl] at h1; cases h1
            · rw [hl] at h1; cases h1
          refine ⟨by simpa [Sys.setTh] using hf, ?_, by simpa [Sys.setTh, committed] using hfo,
            Or.inr (Or.inl ⟨by simp [Sys.setTh], by simp [Sys.setTh], by simpa [Sys.setTh] using hfor⟩)⟩
          simpa [Sys.setTh, committed, Th.pending, hc, ht] using hlo
  | foreign =>
    unfold step
    simp only [Sys.th]
    cases hc : s.forT.cur with
    | some p =>
      obtain ⟨op, k⟩ := p
      have hlock : s.lock = some .foreign ∧ s.loopT.cur = none := by
        rcases hm with ⟨_, _, h3⟩ | ⟨_, _, h3⟩ | ⟨h1, h2, _⟩
        · rw [hc] at h3; cases h3
        · rw [hc] at h3; cases h3
        · exact ⟨h1, h2⟩
      cases k with
      | succ k =>
        refine ⟨by simpa [Sys.setTh] using hf, by simpa [Sys.setTh, committed] using hlo, ?_,
          Or.inr (Or.inr ⟨by simpa [Sys.setTh] using hlock.1, by simpa [Sys.setTh] using hlock.2, by simp [Sys.setTh]⟩)⟩
        simpa [Sys.setTh, committed, Th.pending, hc] using hfo
      | zero =>
        refine ⟨?_, ?_, ?_, Or.inl ⟨by simp [Sys.setTh], by simpa [Sys.setTh] using hlock.2, by simp [Sys.setTh]⟩⟩
        · simp [Sys.setTh, List.foldl_append, hf]
        · simp only [Sys.setTh, committed] at hlo ⊢
          simpa [List.filter_append] using hlo
        · simp only [Sys.setTh, committed, Th.pending, hc] at hfo ⊢
          simpa [List.filter_append] using hfo
    | none =>
      simp only
      cases ht : s.forT.todo with
      | nil => exact ⟨hf, hlo, hfo, hm⟩
      | cons op rest =>
        simp only
        cases hl : s.lock with
        | some t' => exact ⟨hf, hlo, hfo, hm⟩
        | none =>
          have hloop : s.loopT.cur = none := by
            rcases hm with ⟨_, h2, _⟩ | ⟨h1, _, _⟩ | ⟨h1, _, _⟩
            · exact h2
            · rw [hl] at h1; cases h1
            · rw [hl] at h1; cases h1
          refine ⟨by simpa [Sys.setTh] using hf, by simpa [Sys.setTh, committed] using hlo, ?_,
            Or.inr (Or.inr ⟨by simp [Sys.setTh], by simpa [Sys.setTh] using hloop, by simp [Sys.setTh]⟩)⟩
          simpa [Sys.setTh, committed, Th.pending, hc, ht] using hfo

/-- the invariant holds after every schedule -/
theorem inv_run {q0 : Q} {loopOps forOps : List (Op Q)} (sched : List Tid) :
    ∀ {s : Sys Q}, Inv q0 loopOps forOps s → Inv q0 loopOps forOps (run s sched) := by
  induction sched with
  | nil => intro s h; exact h
  | cons t ts ih => intro s h; exact ih (inv_step h t)

/-- **`locked_linearizable`** — for *every* schedule (thread switches at any internal point of any
    operation): the queue state equals the result of applying the committed operations one after
    the other; when both threads are finished, each thread's operations took effect exactly once
    and in that thread's order.  No interleaving corrupts the queue or loses a callback. -/
theorem locked_linearizable (q0 : Q) (loopOps forOps : List (Op Q)) (sched : List Tid) :
    let s := run (init q0 loopOps forOps) sched
    s.q = s.log.foldl (fun q e => e.2.apply q) q0 ∧
    (finished s → committed s .loop = loopOps.map (·.id) ∧ committed s .foreign = forOps.map (·.id)) := by
  intro s
  have h := inv_run sched (inv_init q0 loopOps forOps)
  refine ⟨h.fold, ?_⟩
  intro hfin
  obtain ⟨h1, h2, h3, h4⟩ := hfin
  have hl := h.loopOrder
  have hf := h.forOrder
  simp only [Th.pending] at hl hf
  rw [show (run (init q0 loopOps forOps) sched) = s from rfl] at hl hf
  rw [h1, h2] at hl
  rw [h3, h4] at hf
  exact ⟨by simpa using hl, by simpa using hf⟩

/-- **mutual exclusion**: at most one thread is inside an operation, and it is the lock holder -/
theorem mutual_exclusion (q0 : Q) (loopOps forOps : List (Op Q)) (sched : List Tid) :
    let s := run (init q0 loopOps forOps) sched
    ¬ (s.loopT.cur ≠ none ∧ s.forT.cur ≠ none) := by
  intro s
  have h := (inv_run sched (inv_init q0 loopOps forOps)).mutex
  intro ⟨h1, h2⟩
  rcases h with ⟨_, h3, _⟩ | ⟨_, _, h3⟩ | ⟨_, h3, _⟩
  · exact h1 h3
  · exact h2 h3
  · exact h1 h3

/-- remaining work of a thread / of the system -/
def Th.work (th : Th Q) : Nat :=
  (match th.cur with | some (_, k) => k + 1 | none => 0) + (th.todo.map (fun op => op.pts + 2)).sum

def work (s : Sys Q) : Nat := Th.work s.loopT + Th.work s.forT

/-- **`no_deadlock`** — as long as something is left to do, some thread can move, and every move
    strictly decreases the remaining work: every fair schedule terminates with all operations
    committed.  (A thread that cannot move is waiting for the lock held by the other one.) -/
theorem no_deadlock {q0 : Q} {loopOps forOps : List (Op Q)} {s : Sys Q} (h : Inv q0 loopOps forOps s)
    (hnf : ¬ finished s) : ∃ t, work (step s t) < work s := by
  -- the lock holder can always move; with the lock free any unfinished thread can
  rcases h.mutex with ⟨hl, hc1, hc2⟩ | ⟨hl, hc1, hc2⟩ | ⟨hl, hc1, hc2⟩
  · -- lock free: pick a thread with work to do
    by_cases ht : s.loopT.todo = []
    · have : s.forT.todo ≠ [] := by
        intro h2; exact hnf ⟨ht, hc1, h2, hc2⟩
      obtain ⟨op, rest, hr⟩ := List.exists_cons_of_ne_nil this
      refine ⟨.foreign, ?_⟩
      simp [step, Sys.th, Sys.setTh, hc2, hr, hl, work, Th.work, hc1]
    · obtain ⟨op, rest, hr⟩ := List.exists_cons_of_ne_nil ht
      refine ⟨.loop, ?_⟩
      simp [step, Sys.th, Sys.setTh, hc1, hr, hl, work, Th.work, hc2]
  · cases hc : s.loopT.cur with
    | none => exact absurd hc hc1
    | some p =>
      obtain ⟨op, k⟩ := p
      refine ⟨.loop, ?_⟩
      cases k <;> simp [step, Sys.th, Sys.setTh, hc, work, Th.work, hc2]
  · cases hc : s.forT.cur with
    | none => exact absurd hc hc2
    | some p =>
      obtain ⟨op, k⟩ := p
      refine ⟨.foreign, ?_⟩
      cases k <;> simp [step, Sys.th, Sys.setTh, hc, work, Th.work, hc1]

/-- a foreign `call_soon_threadsafe` issued while the loop thread is inside a queue operation does
    not touch the queue: it waits (what the harness observes as "blocked on the lock") -/
theorem foreign_blocked_while_loop_inside {s : Sys Q} (hin : s.lock = some .loop)
    (hidle : s.forT.cur = none) : (step s .foreign).q = s.q ∧ (step s .foreign).log = s.log := by
  unfold step
  simp only [Sys.th, hidle]
  cases s.forT.todo with
  | nil => exact ⟨rfl, rfl⟩
  | cons op rest => simp [hin]

/-! ## Deque loops -/
open Deq

/-- `call_pos` with a foreign append landing at any of its four boundaries equals one of the two
    linearisations (foreign first / foreign last) -/
theorem callPos_linearizable (l : List Nat) (pos h f : Nat) (hh : h ∉ l) (hf : f ≠ h) (i : Nat) :
    callPosWith l pos h f i = callPos (l ++ [f]) pos h ∨ callPosWith l pos h f i = callPos l pos h ++ [f] := by
  have e1 : (l ++ [h]).erase h = l := by
    rw [List.erase_append_right _ hh]; simp
  have e2 : ((l ++ [h]) ++ [f]).erase h = l ++ [f] := by
    rw [List.append_assoc, List.erase_append_right _ hh]; simp
  have e3 : ((l ++ [f]) ++ [h]).erase h = l ++ [f] := by
    have : h ∉ l ++ [f] := by simp [hh, Ne.symm hf]
    rw [List.erase_append_right _ this]; simp
  match i with
  | 0 => left; rfl
  | 1 => left; simp only [callPosWith, callPos, e2, e3]
  | 2 => left; simp only [callPosWith, callPos, e1, e3]
  | _ + 3 => right; rfl

/-- `queue_find(remove=True)` is linearisable w.r.t. a foreign append -/
theorem findRemove_linearizable (l : List Nat) (h f : Nat) (hf : f ≠ h) (i : Nat) :
    findRemoveWith l h f i = (l ++ [f]).erase h ∨ findRemoveWith l h f i = l.erase h ++ [f] := by
  match i with
  | 0 => left; rfl
  | 1 => left; rfl
  | _ + 2 => right; rfl

/-- the two linearisations of `find+remove` agree on what is left: the foreign callback is kept -/
theorem findRemove_keeps_foreign (l : List Nat) (h f : Nat) (hf : f ≠ h) :
    f ∈ (l ++ [f]).erase h ∧ f ∈ l.erase h ++ [f] := by
  constructor
  · exact (List.mem_erase_of_ne hf).mpr (by simp)
  · simp

/-! ## `call_pos` on the priority loops

`PrioritySchedulingMixin.call_pos(position, h)` is a compound of three `PosPriorityQueue`
operations, each of which takes the queue's lock on its own: `call_soon` (`append h`),
`queue_remove h` (`remove h`) and `queue_insert_pos h position` (`insert position h`).  A foreign
thread's `call_soon_threadsafe` (`append f`, a regular entry of priority `pf`) can therefore land
between any two of them.  On the container model (`Model/PosPQ`, boosting disabled), for every
lawful heap library, every state related to a reference list in which `h` does not occur, every
`position` and all priorities: wherever the foreign append lands, the pop order of the queue is the
one of running it entirely before `call_pos` or entirely after. -/

section PriorityCallPos
variable {H : HeapLib (Entry PV)}

/-- the three locked queue operations of `call_pos(position, h)`; `ph` is `h`'s priority -/
def callPosOps (position h : Nat) (ph : Rat) : List PosPQ.Op :=
  [.appendPri h ph, .remove h, .insert position h]

/-- the same with the foreign `append f` landing after the `i`-th of them
    (`i = 0`: before `call_pos`, `i ≥ 3`: after it) -/
def callPosOpsWith (position h : Nat) (ph : Rat) (f : Nat) (pf : Rat) (i : Nat) : List PosPQ.Op :=
  (callPosOps position h ph).take i ++ [.appendPri f pf] ++ (callPosOps position h ph).drop i

/-- what the loop will run, in order, after the operations `ops`: the queue's `__iter__` -/
def popOrderAfter (H : HeapLib (Entry PV)) (draw : Nat → Rat) (s : PosPQ) (ops : List PosPQ.Op) :
    List Nat :=
  (PosPQ.runFrom H draw s ops).1.iter.1

/-- landing after the third operation *is* the foreign-last linearisation -/
theorem callPosOpsWith_last (position h : Nat) (ph : Rat) (f : Nat) (pf : Rat) (i : Nat)
    (hi : 3 ≤ i) :
    callPosOpsWith position h ph f pf i = callPosOps position h ph ++ [.appendPri f pf] := by
  have h3 : (callPosOps position h ph).length ≤ i := by simp [callPosOps]; omega
  simp [callPosOpsWith, List.take_of_length_le h3, List.drop_eq_nil_of_le h3]

/-- the pop order when the foreign append lands before the final `insert` (`i ≤ 2`), explicitly:
    `list.insert(min(position, len + 1), h)` applied to the pop order of "`L`, then `f`" -/
theorem callPos_priority_order (hl : H.Lawful (Entry.lt PV.lt)) {s : PosPQ} {L : List (Entry PV)}
    (hr : PosPQ.RP s L) (h0 : s.factor = 0) (draw : Nat → Rat) (position h f : Nat) (ph pf : Rat)
    (hh : ∀ y ∈ L, y.obj ≠ h) (hfh : f ≠ h) (i : Nat) (hi : i ≤ 2) :
    popOrderAfter H draw s (callPosOpsWith position h ph f pf i) =
      (PosPQ.objs (L ++ [⟨{ base := pf, insertedAt := s.nIns }, s.q.seq, f⟩])).insertIdx
        (min position (L.length + 1)) h := by
  have hinc0 := (hr.appendPri hl h0 f pf draw).1.r.inc
  have key : ∀ t, ForeignIn L f pf t →
      (PosPQ.insert H t position h draw).iter.1 =
        (PosPQ.objs (L ++ [⟨{ base := pf, insertedAt := s.nIns }, s.q.seq, f⟩])).insertIdx
          (min position (L.length + 1)) h := by
    intro t ht
    obtain ⟨L', _, _, e1, e2⟩ := ht.insert_objs hl position h draw _ ⟨rfl, rfl, rfl, rfl⟩ hinc0
    rw [e1, e2]
  match i, hi with
  | 0, _ =>
    obtain ⟨t, ht, hF⟩ := callPos_prefix_first hl hr h0 draw h f ph pf hh hfh
    simp only [popOrderAfter, callPosOpsWith, callPosOps, List.take, List.drop, List.nil_append,
      List.cons_append, PosPQ.runFrom, PosPQ.step, ht]
    exact key t hF
  | 1, _ =>
    obtain ⟨t, ht, hF⟩ := callPos_prefix_second hl hr h0 draw h f ph pf hh hfh
    simp only [popOrderAfter, callPosOpsWith, callPosOps, List.take, List.drop, List.nil_append,
      List.cons_append, PosPQ.runFrom, PosPQ.step, ht]
    exact key t hF
  | 2, _ =>
    obtain ⟨t, ht, hF⟩ := callPos_prefix_third hl hr h0 draw h f ph pf hh
    simp only [popOrderAfter, callPosOpsWith, callPosOps, List.take, List.drop, List.nil_append,
      List.cons_append, PosPQ.runFrom, PosPQ.step, ht]
    exact key _ hF

/-- **`call_pos` on the priority loops is linearisable w.r.t. a foreign `call_soon_threadsafe`**:
    for every boundary `i` at which the foreign append lands, the pop order equals the one of the
    foreign-first linearisation (`i ≤ 2`), or the operation sequence *is* the foreign-last
    linearisation (`i ≥ 3`). -/
theorem callPos_priority_linearizable (hl : H.Lawful (Entry.lt PV.lt)) {s : PosPQ}
    {L : List (Entry PV)} (hr : PosPQ.RP s L) (h0 : s.factor = 0) (draw : Nat → Rat)
    (position h f : Nat) (ph pf : Rat) (hh : ∀ y ∈ L, y.obj ≠ h) (hfh : f ≠ h) (i : Nat) :
    popOrderAfter H draw s (callPosOpsWith position h ph f pf i) =
        popOrderAfter H draw s (.appendPri f pf :: callPosOps position h ph) ∨
    popOrderAfter H draw s (callPosOpsWith position h ph f pf i) =
        popOrderAfter H draw s (callPosOps position h ph ++ [.appendPri f pf]) := by
  by_cases hi : i ≤ 2
  · left
    have e0 : PosPQ.Op.appendPri f pf :: callPosOps position h ph =
        callPosOpsWith position h ph f pf 0 := rfl
    rw [e0, callPos_priority_order hl hr h0 draw position h f ph pf hh hfh i hi,
      callPos_priority_order hl hr h0 draw position h f ph pf hh hfh 0 (by omega)]
  · right
    rw [callPosOpsWith_last position h ph f pf i (by omega)]

/-- no interleaving raises: `remove h` always finds the entry `call_soon` just added (every
    operation answers `unit`, never `ValueError`) -/
theorem callPos_priority_no_error (hl : H.Lawful (Entry.lt PV.lt)) {s : PosPQ}
    {L : List (Entry PV)} (hr : PosPQ.RP s L) (h0 : s.factor = 0) (draw : Nat → Rat)
    (position h f : Nat) (ph pf : Rat) (hh : ∀ y ∈ L, y.obj ≠ h) (hfh : f ≠ h) (i : Nat) :
    (PosPQ.runFrom H draw s (callPosOpsWith position h ph f pf i)).2 = [.unit, .unit, .unit, .unit] := by
  match i with
  | 0 =>
    obtain ⟨t, ht, _⟩ := callPos_prefix_first hl hr h0 draw h f ph pf hh hfh
    simp only [callPosOpsWith, callPosOps, List.take, List.drop, List.nil_append,
      List.cons_append, PosPQ.runFrom, PosPQ.step, ht]
  | 1 =>
    obtain ⟨t, ht, _⟩ := callPos_prefix_second hl hr h0 draw h f ph pf hh hfh
    simp only [callPosOpsWith, callPosOps, List.take, List.drop, List.nil_append,
      List.cons_append, PosPQ.runFrom, PosPQ.step, ht]
  | 2 =>
    obtain ⟨t, ht, _⟩ := callPos_prefix_undo hl hr h0 draw h ph hh
    simp only [callPosOpsWith, callPosOps, List.take, List.drop, List.nil_append,
      List.cons_append, PosPQ.runFrom, PosPQ.step, ht]
  | n + 3 =>
    obtain ⟨t, ht, _⟩ := callPos_prefix_undo hl hr h0 draw h ph hh
    rw [callPosOpsWith_last position h ph f pf (n + 3) (by omega)]
    simp only [callPosOps, List.cons_append, List.nil_append, PosPQ.runFrom, PosPQ.step, ht]

end PriorityCallPos

/-! ## Non-vacuity -/

/-- a concrete schedule in which the foreign thread is started in the middle of a loop-thread
    operation with two internal points: it is blocked, and the result is "loop op, then foreign" -/
example :
    let opL : Op (List Nat) := ⟨1, fun q => q ++ [10], 2⟩
    let opF : Op (List Nat) := ⟨2, fun q => q ++ [20], 0⟩
    let s := run (init [] [opL] [opF]) [.loop, .loop, .foreign, .foreign, .loop, .loop, .foreign, .foreign]
    s.q = [10, 20] ∧ s.loopT.todo.length = 0 ∧ s.forT.todo.length = 0 ∧
      s.loopT.cur.isNone = true ∧ s.forT.cur.isNone = true ∧ s.log.map (·.2.id) = [1, 2] := by
  refine ⟨rfl, rfl, rfl, rfl, rfl, rfl⟩

/-- `call_pos` on the priority loops, hypotheses satisfiable: a state reached with CPython's own
    heap algorithms (`cpyHeap`, lawful by `cpyHeap_lawful`), boosting disabled, related to a
    two-entry reference list in which the handle `7` does not occur -/
example : ∃ (s : PosPQ) (L : List (Entry PV)), (cpyHeap (Entry PV)).Lawful (Entry.lt PV.lt) ∧
    PosPQ.RP s L ∧ s.factor = 0 ∧ L.length = 2 ∧ ∀ y ∈ L, y.obj ≠ 7 := by
  have hl := cpyHeap_lawful (entryLt_strictWeak pv_strictWeak)
  have r0 : PosPQ.RP ({ factor := 0 } : PosPQ) [] := ⟨PQ.R.empty, by simp⟩
  obtain ⟨r1, _, f1⟩ := r0.appendPri hl rfl 1 5 (fun _ => 0)
  obtain ⟨r2, _, f2⟩ := r1.appendPri hl f1 2 3 (fun _ => 0)
  exact ⟨_, _, hl, r2, f2, by simp, by simp⟩

/-- ... and a concrete instance, computed with `cpyHeap`: the queue holds `1` (priority 5) and `2`
    (priority 3); `call_pos(2, 7)` with a foreign `append 8` (priority 4) landing at the
    boundaries `0 … 4`.  Boundaries 0, 1, 2 give the foreign-first pop order, 3 and beyond the
    foreign-last one, and the two linearisations differ. -/
example :
    let H := cpyHeap (Entry PV)
    let s := (PosPQ.runFrom H (fun _ => 0) { factor := 0 } [.appendPri 1 5, .appendPri 2 3]).1
    (List.range 5).map (fun i => popOrderAfter H (fun _ => 0) s (callPosOpsWith 2 7 1 8 4 i)) =
      [[2, 8, 7, 1], [2, 8, 7, 1], [2, 8, 7, 1], [2, 1, 7, 8], [2, 1, 7, 8]] := by
  decide +kernel

end Asynkit.C18
