/-
C18 — asynkit event loops keep asyncio's thread-safety contract.

Theorems about `Model/Threads`: with every queue operation under one lock, *every* schedule of the
two threads — a switch at any internal point of any operation — is equivalent to running the
operations one after the other in commit order; each operation takes effect exactly once, in its
thread's order; a thread is only ever blocked while the other one holds the lock, and some thread
can always make progress.  For the deque loops: the helper operations, built from atomic deque
primitives addressed by identity, give a linearisable result wherever a foreign append lands.
-/
import Asynkit.Model.Threads

namespace Asynkit.C18
open Asynkit.Threads

variable {Q : Type}

/-- the invariant of the locked system -/
structure Inv (q0 : Q) (loopOps forOps : List (Op Q)) (s : Sys Q) : Prop where
  fold : s.q = s.log.foldl (fun q e => e.2.apply q) q0
  loopOrder : committed s .loop ++ s.loopT.pending = loopOps.map (·.id)
  forOrder : committed s .foreign ++ s.forT.pending = forOps.map (·.id)
  mutex : (s.lock = none ∧ s.loopT.cur = none ∧ s.forT.cur = none) ∨
          (s.lock = some .loop ∧ s.loopT.cur ≠ none ∧ s.forT.cur = none) ∨
          (s.lock = some .foreign ∧ s.loopT.cur = none ∧ s.forT.cur ≠ none)

theorem inv_init (q0 : Q) (loopOps forOps : List (Op Q)) : Inv q0 loopOps forOps (init q0 loopOps forOps) :=
  ⟨rfl, by simp [init, committed, Th.pending], by simp [init, committed, Th.pending], Or.inl ⟨rfl, rfl, rfl⟩⟩

theorem inv_step {q0 : Q} {loopOps forOps : List (Op Q)} {s : Sys Q} (h : Inv q0 loopOps forOps s)
    (t : Tid) : Inv q0 loopOps forOps (step s t) := by
  obtain ⟨hf, hlo, hfo, hm⟩ := h
  cases t with
  | loop =>
    unfold step
    simp only [Sys.th]
    cases hc : s.loopT.cur with
    | some p =>
      obtain ⟨op, k⟩ := p
      have hlock : s.lock = some .loop ∧ s.forT.cur = none := by
        rcases hm with ⟨_, h2, _⟩ | ⟨h1, _, h3⟩ | ⟨_, h2, _⟩
        · rw [hc] at h2; cases h2
        · exact ⟨h1, h3⟩
        · rw [hc] at h2; cases h2
      cases k with
      | succ k =>
        refine ⟨by simpa [Sys.setTh] using hf, ?_, by simpa [Sys.setTh, committed] using hfo,
          Or.inr (Or.inl ⟨by simpa [Sys.setTh] using hlock.1, by simp [Sys.setTh], by simpa [Sys.setTh] using hlock.2⟩)⟩
        simpa [Sys.setTh, committed, Th.pending, hc] using hlo
      | zero =>
        refine ⟨?_, ?_, ?_, Or.inl ⟨by simp [Sys.setTh], by simp [Sys.setTh], by simpa [Sys.setTh] using hlock.2⟩⟩
        · simp [Sys.setTh, List.foldl_append, hf]
        · simp only [Sys.setTh, committed, Th.pending, hc] at hlo ⊢
          simpa [List.filter_append] using hlo
        · simp only [Sys.setTh, committed] at hfo ⊢
          simpa [List.filter_append] using hfo
    | none =>
      simp only
      cases ht : s.loopT.todo with
      | nil => exact ⟨hf, hlo, hfo, hm⟩
      | cons op rest =>
        simp only
        cases hl : s.lock with
        | some t' => exact ⟨hf, hlo, hfo, hm⟩
        | none =>
          have hfor : s.forT.cur = none := by
            rcases hm with ⟨_, _, h3⟩ | ⟨h1, _, _⟩ | ⟨h1, _, _⟩
            · exact h3
            · rw [hl] at h1; cases h1
            · rw [hl] at h1; cases h1
          refine ⟨by simpa [Sys.setTh] using hf, ?_, by simpa [Sys.setTh, committed] using hfo,
            Or.inr (Or.inl ⟨by simp [Sys.setTh], by simp [Sys.setTh], by simpa [Sys.setTh] using hfor⟩)⟩
          simpa [Sys.setTh, committed, Th.pending, hc, ht] using hlo
  | foreign =>
    unfold step
    simp only [Sys.th]
    cases hc : s.forT.cur with
    | some p =>
      obtain ⟨op, k⟩ := p
      have hlock : s.lock = some .foreign ∧ s.loopT.cur = none := by
        rcases hm with ⟨_, _, h3⟩ | ⟨_, _, h3⟩ | ⟨h1, h2, _⟩
        · rw [hc] at h3; cases h3
        · rw [hc] at h3; cases h3
        · exact ⟨h1, h2⟩
      cases k with
      | succ k =>
        refine ⟨by simpa [Sys.setTh] using hf, by simpa [Sys.setTh, committed] using hlo, ?_,
          Or.inr (Or.inr ⟨by simpa [Sys.setTh] using hlock.1, by simpa [Sys.setTh] using hlock.2, by simp [Sys.setTh]⟩)⟩
        simpa [Sys.setTh, committed, Th.pending, hc] using hfo
      | zero =>
        refine ⟨?_, ?_, ?_, Or.inl ⟨by simp [Sys.setTh], by simpa [Sys.setTh] using hlock.2, by simp [Sys.setTh]⟩⟩
        · simp [Sys.setTh, List.foldl_append, hf]
        · simp only [Sys.setTh, committed] at hlo ⊢
          simpa [List.filter_append] using hlo
        · simp only [Sys.setTh, committed, Th.pending, hc] at hfo ⊢
          simpa [List.filter_append] using hfo
    | none =>
      simp only
      cases ht : s.forT.todo with
      | nil => exact ⟨hf, hlo, hfo, hm⟩
      | cons op rest =>
        simp only
        cases hl : s.lock with
        | some t' => exact ⟨hf, hlo, hfo, hm⟩
        | none =>
          have hloop : s.loopT.cur = none := by
            rcases hm with ⟨_, h2, _⟩ | ⟨h1, _, _⟩ | ⟨h1, _, _⟩
            · exact h2
            · rw [hl] at h1; cases h1
            · rw [hl] at h1; cases h1
          refine ⟨by simpa [Sys.setTh] using hf, by simpa [Sys.setTh, committed] using hlo, ?_,
            Or.inr (Or.inr ⟨by simp [Sys.setTh], by simpa [Sys.setTh] using hloop, by simp [Sys.setTh]⟩)⟩
          simpa [Sys.setTh, committed, Th.pending, hc, ht] using hfo

/-- the invariant holds after every schedule -/
theorem inv_run {q0 : Q} {loopOps forOps : List (Op Q)} (sched : List Tid) :
    ∀ {s : Sys Q}, Inv q0 loopOps forOps s → Inv q0 loopOps forOps (run s sched) := by
  induction sched with
  | nil => intro s h; exact h
  | cons t ts ih => intro s h; exact ih (inv_step h t)

/-- **`locked_linearizable`** — for *every* schedule (thread switches at any internal point of any
    operation): the queue state equals the result of applying the committed operations one after
    the other; when both threads are finished, each thread's operations took effect exactly once
    and in that thread's order.  No interleaving corrupts the queue or loses a callback. -/
theorem locked_linearizable (q0 : Q) (loopOps forOps : List (Op Q)) (sched : List Tid) :
    let s := run (init q0 loopOps forOps) sched
    s.q = s.log.foldl (fun q e => e.2.apply q) q0 ∧
    (finished s → committed s .loop = loopOps.map (·.id) ∧ committed s .foreign = forOps.map (·.id)) := by
  intro s
  have h := inv_run sched (inv_init q0 loopOps forOps)
  refine ⟨h.fold, ?_⟩
  intro hfin
  obtain ⟨h1, h2, h3, h4⟩ := hfin
  have hl := h.loopOrder
  have hf := h.forOrder
  simp only [Th.pending] at hl hf
  rw [show (run (init q0 loopOps forOps) sched) = s from rfl] at hl hf
  rw [h1, h2] at hl
  rw [h3, h4] at hf
  exact ⟨by simpa using hl, by simpa using hf⟩

/-- **mutual exclusion**: at most one thread is inside an operation, and it is the lock holder -/
theorem mutual_exclusion (q0 : Q) (loopOps forOps : List (Op Q)) (sched : List Tid) :
    let s := run (init q0 loopOps forOps) sched
    ¬ (s.loopT.cur ≠ none ∧ s.forT.cur ≠ none) := by
  intro s
  have h := (inv_run sched (inv_init q0 loopOps forOps)).mutex
  intro ⟨h1, h2⟩
  rcases h with ⟨_, h3, _⟩ | ⟨_, _, h3⟩ | ⟨_, h3, _⟩
  · exact h1 h3
  · exact h2 h3
  · exact h1 h3

/-- remaining work of a thread / of the system -/
def Th.work (th : Th Q) : Nat :=
  (match th.cur with | some (_, k) => k + 1 | none => 0) + (th.todo.map (fun op => op.pts + 2)).sum

def work (s : Sys Q) : Nat := Th.work s.loopT + Th.work s.forT

/-- **`no_deadlock`** — as long as something is left to do, some thread can move, and every move
    strictly decreases the remaining work: every fair schedule terminates with all operations
    committed.  (A thread that cannot move is waiting for the lock held by the other one.) -/
theorem no_deadlock {q0 : Q} {loopOps forOps : List (Op Q)} {s : Sys Q} (h : Inv q0 loopOps forOps s)
    (hnf : ¬ finished s) : ∃ t, work (step s t) < work s := by
  -- the lock holder can always move; with the lock free any unfinished thread can
  rcases h.mutex with ⟨hl, hc1, hc2⟩ | ⟨hl, hc1, hc2⟩ | ⟨hl, hc1, hc2⟩
  · -- lock free: pick a thread with work to do
    by_cases ht : s.loopT.todo = []
    · have : s.forT.todo ≠ [] := by
        intro h2; exact hnf ⟨ht, hc1, h2, hc2⟩
      obtain ⟨op, rest, hr⟩ := List.exists_cons_of_ne_nil this
      refine ⟨.foreign, ?_⟩
      simp [step, Sys.th, Sys.setTh, hc2, hr, hl, work, Th.work, hc1]
    · obtain ⟨op, rest, hr⟩ := List.exists_cons_of_ne_nil ht
      refine ⟨.loop, ?_⟩
      simp [step, Sys.th, Sys.setTh, hc1, hr, hl, work, Th.work, hc2]
  · cases hc : s.loopT.cur with
    | none => exact absurd hc hc1
    | some p =>
      obtain ⟨op, k⟩ := p
      refine ⟨.loop, ?_⟩
      cases k <;> simp [step, Sys.th, Sys.setTh, hc, work, Th.work, hc2]
  · cases hc : s.forT.cur with
    | none => exact absurd hc hc2
    | some p =>
      obtain ⟨op, k⟩ := p
      refine ⟨.foreign, ?_⟩
      cases k <;> simp [step, Sys.th, Sys.setTh, hc, work, Th.work, hc1]

/-- a foreign `call_soon_threadsafe` issued while the loop thread is inside a queue operation does
    not touch the queue: it waits (what the harness observes as "blocked on the lock") -/
theorem foreign_blocked_while_loop_inside {s : Sys Q} (hin : s.lock = some .loop)
    (hidle : s.forT.cur = none) : (step s .foreign).q = s.q ∧ (step s .foreign).log = s.log := by
  unfold step
  simp only [Sys.th, hidle]
  cases s.forT.todo with
  | nil => exact ⟨rfl, rfl⟩
  | cons op rest => simp [hin]

/-! ## Deque loops -/
open Deq

/-- `call_pos` with a foreign append landing at any of its four boundaries equals one of the two
    linearisations (foreign first / foreign last) -/
theorem callPos_linearizable (l : List Nat) (pos h f : Nat) (hh : h ∉ l) (hf : f ≠ h) (i : Nat) :
    callPosWith l pos h f i = callPos (l ++ [f]) pos h ∨ callPosWith l pos h f i = callPos l pos h ++ [f] := by
  have e1 : (l ++ [h]).erase h = l := by
    rw [List.erase_append_right _ hh]; simp
  have e2 : ((l ++ [h]) ++ [f]).erase h = l ++ [f] := by
    rw [List.append_assoc, List.erase_append_right _ hh]; simp
  have e3 : ((l ++ [f]) ++ [h]).erase h = l ++ [f] := by
    have : h ∉ l ++ [f] := by simp [hh, Ne.symm hf]
    rw [List.erase_append_right _ this]; simp
  match i with
  | 0 => left; rfl
  | 1 => left; simp only [callPosWith, callPos, e2, e3]
  | 2 => left; simp only [callPosWith, callPos, e1, e3]
  | _ + 3 => right; rfl

/-- `queue_find(remove=True)` is linearisable w.r.t. a foreign append -/
theorem findRemove_linearizable (l : List Nat) (h f : Nat) (hf : f ≠ h) (i : Nat) :
    findRemoveWith l h f i = (l ++ [f]).erase h ∨ findRemoveWith l h f i = l.erase h ++ [f] := by
  match i with
  | 0 => left; rfl
  | 1 => left; rfl
  | _ + 2 => right; rfl

/-- the two linearisations of `find+remove` agree on what is left: the foreign callback is kept -/
theorem findRemove_keeps_foreign (l : List Nat) (h f : Nat) (hf : f ≠ h) :
    f ∈ (l ++ [f]).erase h ∧ f ∈ l.erase h ++ [f] := by
  constructor
  · exact (List.mem_erase_of_ne hf).mpr (by simp)
  · simp

/-! ## Non-vacuity -/

/-- a concrete schedule in which the foreign thread is started in the middle of a loop-thread
    operation with two internal points: it is blocked, and the result is "loop op, then foreign" -/
example :
    let opL : Op (List Nat) := ⟨1, fun q => q ++ [10], 2⟩
    let opF : Op (List Nat) := ⟨2, fun q => q ++ [20], 0⟩
    let s := run (init [] [opL] [opF]) [.loop, .loop, .foreign, .foreign, .loop, .loop, .foreign, .foreign]
    s.q = [10, 20] ∧ s.loopT.todo.length = 0 ∧ s.forT.todo.length = 0 ∧
      s.loopT.cur.isNone = true ∧ s.forT.cur.isNone = true ∧ s.log.map (·.2.id) = [1, 2] := by
  refine ⟨rfl, rfl, rfl, rfl, rfl, rfl⟩

end Asynkit.C18
