/-
C08 — ready-queue operations follow list semantics on every supported loop.
Property theorems only (helper lemmas live in Asynkit/Lemmas/C08*.lean).

Deque primitives (`Model/Deque`, the code of tools.deque_pop and loop/default.py) are proved equal
to the list operations outright.  The compound operations of scheduling.py (`Model/Sched`) are
proved for *every* queue implementation that is `ListLike`; `listLike_deque_loops` discharges that
hypothesis for the stock asyncio loop and the SchedulingMixin loops, `listLike_priority_loop` for
the priority loop with equal priorities (every lawful heapq, every boost factor, every sequence of
random draws; built on the container refinement of C17/C19).  `listLike_simulation`: any two
list-like queues schedule identically for every history.
-/
import Asynkit.Lemmas.C08Sched
import Asynkit.Lemmas.C08PosPQ

namespace Asynkit.C08
open Asynkit.Sched Asynkit.Deque

/-! ### deque primitives: all lengths, all positions -/

/-- `deque_pop(d, pos)` is `list.pop(pos)`: for every valid index, given from the head (`i`) or
    from the tail (`i - len`), the element at that index is returned and exactly it is removed. -/
theorem dequePop_eq_eraseIdx {α : Type} (d : List α) (i : Nat) (hi : i < d.length) :
    dequePop d (i : Int) = some (d[i], d.eraseIdx i) ∧
    dequePop d ((i : Int) - (d.length : Int)) = some (d[i], d.eraseIdx i) := by
  refine ⟨dequePop_nat d i hi, ?_⟩
  rw [dequePop_neg d i hi, dequePop_nat d i hi]

/-- IndexError exactly outside `-len ≤ pos < len` -/
theorem dequePop_indexError_iff {α : Type} (d : List α) (pos : Int) :
    dequePop d pos = none ↔ (pos < -(d.length : Int) ∨ (d.length : Int) ≤ pos) := by
  constructor
  · intro h
    by_cases h1 : pos < -(d.length : Int)
    · exact Or.inl h1
    · by_cases h2 : (d.length : Int) ≤ pos
      · exact Or.inr h2
      · exfalso
        by_cases hn : pos < 0
        · have e : pos = (((pos + d.length).toNat : Nat) : Int) - (d.length : Int) := by omega
          rw [e, dequePop_neg d _ (by omega), dequePop_nat d _ (by omega)] at h
          exact absurd h (by simp)
        · have e : pos = ((pos.toNat : Nat) : Int) := by omega
          rw [e, dequePop_nat d _ (by omega)] at h
          exact absurd h (by simp)
  · exact dequePop_out_of_range d pos

/-- `queue_find`: scans a snapshot from the tail; the last match is returned and, with `remove`,
    exactly it is taken out (nothing else moves; handles are distinct objects, so it does not occur
    earlier in the queue).  No match: `None`, queue unchanged. -/
theorem queueFind_spec (key : Nat → Bool) (rm : Bool) :
    (∀ (A B : List Nat) (x : Nat), key x = true → (∀ b ∈ B, key b = false) → x ∉ A →
      queueFind (A ++ x :: B) key rm = (some x, if rm then A ++ B else A ++ x :: B)) ∧
    (∀ q : List Nat, (∀ b ∈ q, key b = false) → queueFind q key rm = (none, q)) :=
  ⟨fun A B x hx hB hA => queueFind_last A B x key rm hx hB hA, fun q h => queueFind_absent q key rm h⟩

/-- `queue_remove`: ValueError (and nothing changes — no new queue is produced) when the handle
    is absent; otherwise exactly that handle is removed. -/
theorem queueRemove_spec (q : List Nat) (h : Nat) :
    (h ∉ q → queueRemove q h = none) ∧
    (∀ A B, q = A ++ h :: B → h ∉ A → queueRemove q h = some (A ++ B)) :=
  ⟨queueRemove_absent q h, fun A B e hA => e ▸ queueRemove_mid A B h hA⟩

/-- `call_pos(pos, cb)` on a deque = `list.insert(pos, handle)` for the new handle: the callback
    runs after exactly `pos` earlier entries, last if there are fewer; negative positions count
    from the tail. -/
theorem callPos_spec (q : List Nat) (h : Nat) (hq : h ∉ q) :
    (∀ p : Nat, callPos q (p : Int) h = q.insertIdx (min p q.length) h) ∧
    (∀ k : Nat, 0 < k → callPos q (-(k : Int)) h = q.insertIdx (q.length - k) h) :=
  ⟨fun p => callPos_nat q p h hq, fun k hk => callPos_neg q k hk h hq⟩

/-! ### the deque based loops are list-like -/

theorem listLike_deque_loops : ListLike listOps id (fun q => q.Nodup) (fun _ => True) :=
  listOps_listLike

/-- **the priority loop with equal priorities is list-like**: `PrioritySchedulingMixin` over
    `PosPriorityQueue` (`posOps`), for every lawful heapq, every boost factor (the factor is a
    field of the state and unconstrained by `PInv`) and every sequence of random draws; the
    abstraction `absP` is the pop order, `PInv` = "refines a reference list of priority-0 entries
    with distinct objects", appends are at priority 0 (what `get_priority` returns for callbacks,
    plain Tasks and PriorityTasks of priority 0). -/
theorem listLike_priority_loop {H : HeapLib (Entry PV)} (hl : H.Lawful (Entry.lt PV.lt)) (draw : Nat → Rat) :
    ListLike (posOps H draw) absP PInv (fun p => p = 0) :=
  posOps_listLike hl draw

/-- the empty priority queue (any boost factor) satisfies the invariant and is the empty list -/
theorem priority_loop_init (factor : Rat) :
    PInv ({ factor := factor } : PosPQ) ∧ absP ({ factor := factor } : PosPQ) = [] :=
  pinv_init factor

/-! ### compound operations, for every list-like ready queue -/
section compound
variable {Q : Type} {O : QOps Q} {abs : Q → List Nat} {Inv : Q → Prop} {P : Rat → Prop}

/-- `task_reinsert(t, pos)`: the task's handle ends exactly `min pos len` entries from the head
    and is the only entry whose relative order changes. -/
theorem taskReinsert_spec (L : ListLike O abs Inv P) (q : Q) (key : Nat → Bool) (pos x : Nat)
    (hq : Inv q) (hx : x ∈ abs q) (hk : key x = true) (hu : ∀ y ∈ abs q, key y = true → y = x) :
    ∃ q', taskReinsert O q key pos = some q' ∧ Inv q' ∧
      abs q' = ((abs q).erase x).insertIdx (min pos ((abs q).erase x).length) x := by
  obtain ⟨h1, h2, h3⟩ := L.find_some q key true x hq hx hk hu
  unfold taskReinsert
  rcases hf : O.find q key true with ⟨r, q2⟩
  rw [hf] at h1 h2 h3
  simp only at h1 h2 h3
  subst h1
  simp only [if_true] at h3
  have hx2 : x ∉ abs q2 := by
    rw [h3]; exact fun h => (List.Nodup.mem_erase_iff (L.nodup q hq)).mp h |>.1 rfl
  obtain ⟨i1, i2⟩ := L.insertPos q2 pos x h2 hx2
  exact ⟨_, rfl, i1, by rw [i2, h3]⟩

/-- asking to move a task that is not runnable (no handle of it in the queue): ValueError, and
    the queue is unchanged. -/
theorem reinsert_not_runnable (L : ListLike O abs Inv P) (q : Q) (key : Nat → Bool) (pos : Nat)
    (hq : Inv q) (hn : ∀ x ∈ abs q, key x = false) :
    taskReinsert O q key pos = none ∧ O.find q key true = (none, q) := by
  have hf := L.find_none q key true hq hn
  exact ⟨by unfold taskReinsert; rw [hf], hf⟩

/-- `sleep_insert(pos)`: after the caller has yielded and its `task_reinsert` callback has run,
    the caller is exactly `min pos len` entries from the head and nothing else moved. -/
theorem sleepInsert_spec (L : ListLike O abs Inv P) (q : Q) (hcb hme : Nat) (pri : Rat)
    (isMe : Nat → Bool) (pos : Nat) (hq : Inv q) (hp : P pri)
    (h1 : hcb ∉ abs q) (h2 : hme ∉ abs q) (hne : hcb ≠ hme)
    (hme1 : isMe hme = true) (hme2 : ∀ y ∈ abs q, isMe y = false) :
    ∃ q', sleepInsert O q hcb hme pri isMe pos = some q' ∧ Inv q' ∧
      abs q' = (abs q).insertIdx (min pos (abs q).length) hme := by
  obtain ⟨a1, a2⟩ := L.callPos q 0 hcb hq h1
  have a2' : abs (O.callPos q 0 hcb) = hcb :: abs q := by rw [a2]; simp
  have hme3 : hme ∉ abs (O.callPos q 0 hcb) := by
    rw [a2']; simp; exact ⟨fun e => hne e.symm, h2⟩
  obtain ⟨b1, b2⟩ := L.append _ pri hme a1 hp hme3
  rw [a2'] at b2
  obtain ⟨q3, c1, c2, c3⟩ := L.popleft_cons _ hcb (abs q ++ [hme]) b1 (by rw [b2]; simp)
  have hx : hme ∈ abs q3 := by rw [c3]; simp
  have hu : ∀ y ∈ abs q3, isMe y = true → y = hme := by
    intro y hy hk
    rw [c3] at hy
    rcases List.mem_append.mp hy with hy | hy
    · rw [hme2 y hy] at hk; exact absurd hk (by simp)
    · simpa using hy
  obtain ⟨q4, d1, d2, d3⟩ := taskReinsert_spec L q3 isMe pos hme c2 hx hme1 hu
  refine ⟨q4, ?_, d2, ?_⟩
  · unfold sleepInsert sleepInsertPre
    rw [c1]; simp [d1]
  · rw [d3, c3]
    have : (abs q ++ [hme]).erase hme = abs q := by
      rw [List.erase_append_right _ h2]; simp
    rw [this]

/-- `task_switch(t)`: the target is the next thing to run and the caller goes to the end;
    no other entry moves. -/
theorem taskSwitch_spec (L : ListLike O abs Inv P) (q : Q) (isT : Nat → Bool) (x hme : Nat) (pri : Rat)
    (hq : Inv q) (hp : P pri) (hx : x ∈ abs q) (hk : isT x = true)
    (hu : ∀ y ∈ abs q, isT y = true → y = x) (h2 : hme ∉ abs q) :
    ∃ q', taskSwitchEnd O q isT hme pri = some q' ∧ Inv q' ∧
      abs q' = x :: (abs q).erase x ++ [hme] := by
  obtain ⟨q1, a1, a2, a3⟩ := taskReinsert_spec L q isT 0 x hq hx hk hu
  have a3' : abs q1 = x :: (abs q).erase x := by rw [a3]; simp
  have hme1 : hme ∉ abs q1 := by
    rw [a3']; simp
    exact ⟨fun e => h2 (e ▸ hx), fun h => h2 (List.mem_of_mem_erase h)⟩
  obtain ⟨b1, b2⟩ := L.append q1 pri hme a2 hp hme1
  refine ⟨_, ?_, b1, ?_⟩
  · unfold taskSwitchEnd; rw [a1]
  · rw [b2, a3']

/-- `task_switch(t, insert_pos=p)`: the target is moved to the head, then the caller is placed
    `min p len` entries from the head (so the target is next whenever `p ≥ 1`). -/
theorem taskSwitchAt_spec (L : ListLike O abs Inv P) (q : Q) (isT isMe : Nat → Bool) (x hcb hme : Nat)
    (pri : Rat) (p : Nat) (hq : Inv q) (hp : P pri) (hx : x ∈ abs q) (hk : isT x = true)
    (hu : ∀ y ∈ abs q, isT y = true → y = x)
    (h1 : hcb ∉ abs q) (h2 : hme ∉ abs q) (hne : hcb ≠ hme)
    (hme1 : isMe hme = true) (hme2 : ∀ y ∈ abs q, isMe y = false) :
    ∃ q', taskSwitchAt O q isT hcb hme pri isMe p = some q' ∧ Inv q' ∧
      abs q' = (x :: (abs q).erase x).insertIdx (min p (abs q).length) hme := by
  obtain ⟨q1, a1, a2, a3⟩ := taskReinsert_spec L q isT 0 x hq hx hk hu
  have a3' : abs q1 = x :: (abs q).erase x := by rw [a3]; simp
  have hlen : (abs q1).length = (abs q).length := by
    rw [a3']; simp [List.length_erase_of_mem hx]
    have := List.length_pos_of_mem hx; omega
  have mem_iff : ∀ y, y ∈ abs q1 → y ∈ abs q := by
    intro y hy; rw [a3'] at hy
    rcases List.mem_cons.mp hy with e | hy
    · exact e ▸ hx
    · exact List.mem_of_mem_erase hy
  obtain ⟨q2, b1, b2, b3⟩ := sleepInsert_spec L q1 hcb hme pri isMe p a2 hp
    (fun h => h1 (mem_iff _ h)) (fun h => h2 (mem_iff _ h)) hne hme1 (fun y hy => hme2 y (mem_iff _ hy))
  refine ⟨q2, ?_, b2, ?_⟩
  · unfold taskSwitchAt; rw [a1]; exact b1
  · rw [b3, hlen, a3']

/-- `create_task_descend(coro)`: the new task runs next and the caller is resumed right after it
    (second), before anything that was already queued. -/
theorem descend_spec (L : ListLike O abs Inv P) (q : Q) (isNew isMe : Nat → Bool) (hnew hcb hme : Nat)
    (priNew pri : Rat) (hq : Inv q) (hp : P pri) (hpn : P priNew)
    (h0 : hnew ∉ abs q) (h1 : hcb ∉ abs q) (h2 : hme ∉ abs q)
    (hne1 : hcb ≠ hme) (hne2 : hnew ≠ hcb) (hne3 : hnew ≠ hme)
    (hn1 : isNew hnew = true) (hn2 : ∀ y ∈ abs q, isNew y = false)
    (hme1 : isMe hme = true) (hme2 : ∀ y ∈ abs q, isMe y = false) (hme3 : isMe hnew = false) :
    ∃ q', descend O q hnew priNew isNew hcb hme pri isMe = some q' ∧ Inv q' ∧
      abs q' = hnew :: hme :: abs q := by
  obtain ⟨a1, a2⟩ := L.append q priNew hnew hq hpn h0
  have hu : ∀ y ∈ abs (O.append q priNew hnew), isNew y = true → y = hnew := by
    intro y hy hk; rw [a2] at hy
    rcases List.mem_append.mp hy with hy | hy
    · rw [hn2 y hy] at hk; exact absurd hk (by simp)
    · simpa using hy
  have mem_iff : ∀ y, y ∈ abs (O.append q priNew hnew) → y ∈ abs q ∨ y = hnew := by
    intro y hy; rw [a2] at hy
    rcases List.mem_append.mp hy with hy | hy
    · exact Or.inl hy
    · exact Or.inr (by simpa using hy)
  obtain ⟨q2, b1, b2, b3⟩ := taskSwitchAt_spec L (O.append q priNew hnew) isNew isMe hnew hcb hme pri 1
    a1 hp (by rw [a2]; simp) hn1 hu
    (fun h => (mem_iff _ h).elim h1 (fun e => hne2 e.symm))
    (fun h => (mem_iff _ h).elim h2 (fun e => hne3 e.symm)) hne1 hme1
    (fun y hy => (mem_iff _ hy).elim (hme2 y) (fun e => e ▸ hme3))
  refine ⟨q2, b1, b2, ?_⟩
  rw [b3, a2]
  have : (abs q ++ [hnew]).erase hnew = abs q := by
    rw [List.erase_append_right _ h0]; simp
  rw [this]
  simp

end compound

/-! ### every scheduled callback and task step runs exactly once -/
section once
variable {Q : Type} {O : QOps Q} {abs : Q → List Nat} {Inv : Q → Prop}

/-- an event is admissible in a state: a handle is not inserted while it is still queued (a
    `Handle` is created by `call_soon` and queued once; a removed handle may be re-inserted), and
    a `find` key matches at most one queued handle -/
def Admissible (abs : Q → List Nat) (s : Hist Q) : QEv → Prop
  | .append h | .insertPos _ h | .callPos _ h => h ∉ abs s.q
  | .findRm key => ∀ x ∈ abs s.q, ∀ y ∈ abs s.q, key x = true → key y = true → x = y
  | .remove _ | .popleft => True

/-- the invariant: nothing is lost or duplicated — what was put in is exactly what is still
    queued plus what came out, and handles are queued once -/
def Conserved (abs : Q → List Nat) (Inv : Q → Prop) (s : Hist Q) : Prop :=
  Inv s.q ∧ (abs s.q ++ s.out).Perm s.ins

theorem conserved_step (L : ListLike O abs Inv (fun p => p = 0)) (s : Hist Q) (e : QEv)
    (hs : Conserved abs Inv s) (ha : Admissible abs s e) : Conserved abs Inv (stepEv O s e) := by
  obtain ⟨hi, hp⟩ := hs
  have fresh : ∀ h, h ∉ abs s.q → h ∉ abs s.q := fun _ hh => hh
  cases e with
  | append h =>
    obtain ⟨a1, a2⟩ := L.append s.q 0 h hi rfl (fresh h ha)
    refine ⟨a1, ?_⟩
    show (abs (O.append s.q 0 h) ++ s.out).Perm (h :: s.ins)
    rw [a2, List.append_assoc]
    exact List.perm_middle.trans (List.Perm.cons h hp)
  | insertPos p h =>
    obtain ⟨a1, a2⟩ := L.insertPos s.q p h hi (fresh h ha)
    refine ⟨a1, ?_⟩
    show (abs (O.insertPos s.q p h) ++ s.out).Perm (h :: s.ins)
    rw [a2]
    exact ((List.perm_insertIdx h _ (Nat.min_le_right _ _)).append_right _).trans (List.Perm.cons h hp)
  | callPos p h =>
    obtain ⟨a1, a2⟩ := L.callPos s.q p h hi (fresh h ha)
    refine ⟨a1, ?_⟩
    show (abs (O.callPos s.q p h) ++ s.out).Perm (h :: s.ins)
    rw [a2]
    exact ((List.perm_insertIdx h _ (Nat.min_le_right _ _)).append_right _).trans (List.Perm.cons h hp)
  | findRm key =>
    by_cases hex : ∃ x ∈ abs s.q, key x = true
    · obtain ⟨x, hx, hk⟩ := hex
      obtain ⟨f1, f2, f3⟩ := L.find_some s.q key true x hi hx hk (fun y hy hky => ha y hy x hx hky hk)
      simp only [stepEv]
      rcases hf : O.find s.q key true with ⟨r, q2⟩
      rw [hf] at f1 f2 f3
      simp only at f1 f2 f3
      subst f1
      simp only [if_true] at f3
      refine ⟨f2, ?_⟩
      show (abs q2 ++ x :: s.out).Perm s.ins
      rw [f3]
      exact (List.perm_middle.trans ((List.perm_cons_erase hx).symm.append_right _)).trans hp
    · have hnone : ∀ x ∈ abs s.q, key x = false := by
        intro x hx
        cases hkx : key x with
        | false => rfl
        | true => exact absurd ⟨x, hx, hkx⟩ hex
      simp only [stepEv, L.find_none s.q key true hi hnone]
      exact ⟨hi, hp⟩
  | remove h =>
    by_cases hm : h ∈ abs s.q
    · obtain ⟨q', r1, r2, r3⟩ := L.remove_some s.q h hi hm
      simp only [stepEv, r1]
      refine ⟨r2, ?_⟩
      show (abs q' ++ h :: s.out).Perm s.ins
      rw [r3]
      exact (List.perm_middle.trans ((List.perm_cons_erase hm).symm.append_right _)).trans hp
    · simp only [stepEv, L.remove_none s.q h hi hm]
      exact ⟨hi, hp⟩
  | popleft =>
    cases hq : abs s.q with
    | nil =>
      simp only [stepEv, L.popleft_nil s.q hi hq]
      exact ⟨hi, hp⟩
    | cons h t =>
      obtain ⟨q', p1, p2, p3⟩ := L.popleft_cons s.q h t hi hq
      simp only [stepEv, p1]
      refine ⟨p2, ?_⟩
      show (abs q' ++ h :: s.out).Perm s.ins
      rw [p3]
      rw [hq] at hp
      exact List.perm_middle.trans hp

/-- run a history, checking admissibility of every event in the state it meets -/
def runEvs (O : QOps Q) (s : Hist Q) : List QEv → Hist Q
  | [] => s
  | e :: es => runEvs O (stepEv O s e) es

def AllAdmissible (O : QOps Q) (abs : Q → List Nat) (s : Hist Q) : List QEv → Prop
  | [] => True
  | e :: es => Admissible abs s e ∧ AllAdmissible O abs (stepEv O s e) es

/-- **every scheduled callback and task step runs exactly once**: for every history of queue
    operations from the empty queue, the handles put into the queue are — as a multiset, i.e.
    each insertion exactly once — those still queued plus those that came out (run by the loop,
    or taken out by an explicit remove): nothing is lost and nothing comes out twice.  When
    every insertion uses a fresh handle, no handle at all comes out twice. -/
theorem each_runs_once (L : ListLike O abs Inv (fun p => p = 0)) (q0 : Q) (h0 : Inv q0) (he : abs q0 = [])
    (evs : List QEv) (ha : AllAdmissible O abs { q := q0 } evs) :
    let s := runEvs O { q := q0 } evs
    (abs s.q ++ s.out).Perm s.ins ∧ (abs s.q).Nodup ∧ (s.ins.Nodup → (abs s.q ++ s.out).Nodup) := by
  have key : ∀ (evs : List QEv) (s : Hist Q), Conserved abs Inv s → AllAdmissible O abs s evs →
      Conserved abs Inv (runEvs O s evs) := by
    intro evs
    induction evs with
    | nil => intro s hs _; exact hs
    | cons e es ih =>
      intro s hs ha
      exact ih _ (conserved_step L s e hs ha.1) ha.2
  have h := key evs { q := q0 } ⟨h0, by simp [he]⟩ ha
  exact ⟨h.2, L.nodup _ h.1, fun hn => h.2.nodup_iff.mpr hn⟩

end once

/-! ### any two list-like ready queues schedule identically -/
section simulation
variable {Q1 Q2 : Type} {O1 : QOps Q1} {O2 : QOps Q2} {abs1 : Q1 → List Nat} {abs2 : Q2 → List Nat}
  {Inv1 : Q1 → Prop} {Inv2 : Q2 → Prop}

/-- the two histories are in step: same abstract queue, same handles out in the same order -/
def InStep (abs1 : Q1 → List Nat) (abs2 : Q2 → List Nat) (Inv1 : Q1 → Prop) (Inv2 : Q2 → Prop)
    (s1 : Hist Q1) (s2 : Hist Q2) : Prop :=
  Inv1 s1.q ∧ Inv2 s2.q ∧ abs1 s1.q = abs2 s2.q ∧ s1.out = s2.out ∧ s1.ins = s2.ins

theorem inStep_step (L1 : ListLike O1 abs1 Inv1 (fun p => p = 0)) (L2 : ListLike O2 abs2 Inv2 (fun p => p = 0))
    (s1 : Hist Q1) (s2 : Hist Q2) (e : QEv) (h : InStep abs1 abs2 Inv1 Inv2 s1 s2)
    (ha : Admissible abs1 s1 e) : InStep abs1 abs2 Inv1 Inv2 (stepEv O1 s1 e) (stepEv O2 s2 e) := by
  obtain ⟨i1, i2, ha12, ho, hi⟩ := h
  cases e with
  | append x =>
    have hx2 : x ∉ abs2 s2.q := ha12 ▸ ha
    obtain ⟨a1, a2⟩ := L1.append s1.q 0 x i1 rfl ha
    obtain ⟨b1, b2⟩ := L2.append s2.q 0 x i2 rfl hx2
    exact ⟨a1, b1, by show abs1 (O1.append s1.q 0 x) = abs2 (O2.append s2.q 0 x); rw [a2, b2, ha12], ho,
      by show x :: s1.ins = x :: s2.ins; rw [hi]⟩
  | insertPos p x =>
    have hx2 : x ∉ abs2 s2.q := ha12 ▸ ha
    obtain ⟨a1, a2⟩ := L1.insertPos s1.q p x i1 ha
    obtain ⟨b1, b2⟩ := L2.insertPos s2.q p x i2 hx2
    exact ⟨a1, b1, by show abs1 (O1.insertPos s1.q p x) = abs2 (O2.insertPos s2.q p x); rw [a2, b2, ha12], ho,
      by show x :: s1.ins = x :: s2.ins; rw [hi]⟩
  | callPos p x =>
    have hx2 : x ∉ abs2 s2.q := ha12 ▸ ha
    obtain ⟨a1, a2⟩ := L1.callPos s1.q p x i1 ha
    obtain ⟨b1, b2⟩ := L2.callPos s2.q p x i2 hx2
    exact ⟨a1, b1, by show abs1 (O1.callPos s1.q p x) = abs2 (O2.callPos s2.q p x); rw [a2, b2, ha12], ho,
      by show x :: s1.ins = x :: s2.ins; rw [hi]⟩
  | findRm key =>
    by_cases hex : ∃ x ∈ abs1 s1.q, key x = true
    · obtain ⟨x, hx, hk⟩ := hex
      have hu1 : ∀ y ∈ abs1 s1.q, key y = true → y = x := fun y hy hky => ha y hy x hx hky hk
      obtain ⟨f1, f2, f3⟩ := L1.find_some s1.q key true x i1 hx hk hu1
      obtain ⟨g1, g2, g3⟩ := L2.find_some s2.q key true x i2 (ha12 ▸ hx) hk (ha12 ▸ hu1)
      simp only [stepEv]
      rcases hf : O1.find s1.q key true with ⟨r1, q1⟩
      rcases hg : O2.find s2.q key true with ⟨r2, q2⟩
      rw [hf] at f1 f2 f3
      rw [hg] at g1 g2 g3
      simp only at f1 f2 f3 g1 g2 g3
      subst f1; subst g1
      simp only [if_true] at f3 g3
      exact ⟨f2, g2, by show abs1 q1 = abs2 q2; rw [f3, g3, ha12], by show x :: s1.out = x :: s2.out; rw [ho], hi⟩
    · have hn1 : ∀ x ∈ abs1 s1.q, key x = false := by
        intro x hx
        cases hkx : key x with
        | false => rfl
        | true => exact absurd ⟨x, hx, hkx⟩ hex
      simp only [stepEv, L1.find_none s1.q key true i1 hn1, L2.find_none s2.q key true i2 (ha12 ▸ hn1)]
      exact ⟨i1, i2, ha12, ho, hi⟩
  | remove x =>
    by_cases hm : x ∈ abs1 s1.q
    · obtain ⟨q1, r1, r2, r3⟩ := L1.remove_some s1.q x i1 hm
      obtain ⟨q2, t1, t2, t3⟩ := L2.remove_some s2.q x i2 (ha12 ▸ hm)
      simp only [stepEv, r1, t1]
      exact ⟨r2, t2, by show abs1 q1 = abs2 q2; rw [r3, t3, ha12], by show x :: s1.out = x :: s2.out; rw [ho], hi⟩
    · simp only [stepEv, L1.remove_none s1.q x i1 hm, L2.remove_none s2.q x i2 (ha12 ▸ hm)]
      exact ⟨i1, i2, ha12, ho, hi⟩
  | popleft =>
    cases hq : abs1 s1.q with
    | nil =>
      simp only [stepEv, L1.popleft_nil s1.q i1 hq, L2.popleft_nil s2.q i2 (ha12 ▸ hq)]
      exact ⟨i1, i2, ha12, ho, hi⟩
    | cons x t =>
      obtain ⟨q1, p1, p2, p3⟩ := L1.popleft_cons s1.q x t i1 hq
      obtain ⟨q2, u1, u2, u3⟩ := L2.popleft_cons s2.q x t i2 (ha12 ▸ hq)
      simp only [stepEv, p1, u1]
      exact ⟨p2, u2, by show abs1 q1 = abs2 q2; rw [p3, u3], by show x :: s1.out = x :: s2.out; rw [ho], hi⟩

/-- **two list-like ready queues schedule identically, whatever the history**: run the same
    admissible history of queue operations on both from empty queues — after every prefix the
    abstract queues are equal and the same handles have been run / taken out in the same order.
    With `listLike_deque_loops` and `listLike_priority_loop` this is: the priority loop with equal
    priorities (boosting at any setting) schedules exactly like the plain scheduling loop. -/
theorem listLike_simulation (L1 : ListLike O1 abs1 Inv1 (fun p => p = 0)) (L2 : ListLike O2 abs2 Inv2 (fun p => p = 0))
    (q1 : Q1) (q2 : Q2) (h1 : Inv1 q1) (h2 : Inv2 q2) (e1 : abs1 q1 = []) (e2 : abs2 q2 = [])
    (evs : List QEv) (ha : AllAdmissible O1 abs1 { q := q1 } evs) :
    abs1 (runEvs O1 { q := q1 } evs).q = abs2 (runEvs O2 { q := q2 } evs).q ∧
    (runEvs O1 { q := q1 } evs).out = (runEvs O2 { q := q2 } evs).out := by
  have key : ∀ (evs : List QEv) (s1 : Hist Q1) (s2 : Hist Q2), InStep abs1 abs2 Inv1 Inv2 s1 s2 →
      AllAdmissible O1 abs1 s1 evs → InStep abs1 abs2 Inv1 Inv2 (runEvs O1 s1 evs) (runEvs O2 s2 evs) := by
    intro evs
    induction evs with
    | nil => intro s1 s2 hs _; exact hs
    | cons e es ih =>
      intro s1 s2 hs ha
      exact ih _ _ (inStep_step L1 L2 s1 s2 e hs ha.1) ha.2
  have h := key evs { q := q1 } { q := q2 } ⟨h1, h2, by rw [e1, e2], rfl, rfl⟩ ha
  exact ⟨h.2.2.1, h.2.2.2.1⟩

end simulation

/-! ### non-vacuity: the hypotheses are met by non-trivial states, and the statements compute -/

example : dequePop [10, 11, 12, 13, 14, 15, 16, 17] 1 = some (11, [10, 12, 13, 14, 15, 16, 17]) := by decide
example : dequePop [10, 11, 12, 13, 14, 15, 16, 17] (-2) = some (16, [10, 11, 12, 13, 14, 15, 17]) := by decide
example : dequePop [10, 11, 12] 3 = none := by decide
example : queueFind [1, 2, 3, 4, 5] (fun x => x % 2 == 0) true = (some 4, [1, 2, 3, 5]) := by decide
example : queueRemove [1, 2, 3] 7 = none := by decide
example : callPos [1, 2, 3] 9 7 = [1, 2, 3, 7] := by decide

/-- `sleep_insert(1)` on the deque loops from the queue `[1,2,3]` (caller's new handle 9,
    callback handle 8): the caller ends second. -/
example : sleepInsert listOps [1, 2, 3] 8 9 0 (· == 9) 1 = some [1, 9, 2, 3] := by decide
/-- `task_switch(t)` with `t`'s handle = 3 -/
example : taskSwitchEnd listOps [1, 2, 3, 4] (· == 3) 9 0 = some [3, 1, 2, 4, 9] := by decide
/-- `create_task_descend`: new task (handle 7) next, caller (9) second -/
example : descend listOps [1, 2, 3] 7 0 (· == 7) 8 9 0 (· == 9) = some [7, 9, 1, 2, 3] := by decide
/-- moving a task that is not queued: ValueError -/
example : taskReinsert listOps [1, 2, 3] (· == 5) 0 = none := by decide
/-- the hypotheses of `sleepInsert_spec` hold for the state above -/
example : ∃ q', sleepInsert listOps [1, 2, 3] 8 9 0 (· == 9) 1 = some q' ∧ q'.Nodup ∧
    q' = [1, 2, 3].insertIdx (min 1 3) 9 :=
  sleepInsert_spec listLike_deque_loops [1, 2, 3] 8 9 0 (· == 9) 1 (by decide) trivial
    (by decide) (by decide) (by decide) (by decide) (by decide)
/-- the priority-loop instance is not vacuous: a reachable state of the priority queue (default
    boost factor 1.2, two queued handles) satisfies `PInv`, and `sleep_insert(1)` from it puts the
    caller second — by `sleepInsert_spec` through `listLike_priority_loop` -/
example : let H := sortedHeap (Entry PV)
    let d : Nat → Rat := fun _ => 1 / 2
    let s0 := PosPQ.appendPri H (PosPQ.appendPri H {} 1 0 d) 2 0 d
    PInv s0 ∧ absP s0 = [1, 2] ∧
    ∃ q', sleepInsert (posOps H d) s0 8 9 0 (· == 9) 1 = some q' ∧ PInv q' ∧ absP q' = [1, 9, 2] := by
  intro H d s0
  have hl : H.Lawful (Entry.lt PV.lt) := sortedHeap_lawful (entryLt_strictWeak pv_strictWeak)
  have h0 := priority_loop_init (6 / 5)
  have h1 := pinv_append hl d _ h0.1 1 (by rw [h0.2]; simp)
  have h2 := pinv_append hl d _ h1.1 2 (by rw [h1.2, h0.2]; simp)
  have ha : absP s0 = [1, 2] := by
    show absP (PosPQ.appendPri H (PosPQ.appendPri H {} 1 0 d) 2 0 d) = _
    rw [h2.2, h1.2, h0.2]; rfl
  refine ⟨h2.1, ha, ?_⟩
  have := sleepInsert_spec (listLike_priority_loop hl d) s0 8 9 0 (· == 9) 1 h2.1 rfl
    (by rw [ha]; decide) (by rw [ha]; decide) (by decide) (by decide) (by rw [ha]; decide)
  rw [ha] at this
  exact this

/-- a history meeting `AllAdmissible` on the deque loops -/
example : AllAdmissible listOps id { q := ([] : List Nat) }
    [.append 1, .append 2, .callPos 0 3, .popleft, .findRm (· == 2), .insertPos 0 2, .remove 1, .popleft] := by
  simp [AllAdmissible, Admissible, stepEv, listOps]
  decide

end Asynkit.C08
