import Asynkit.Model.Sched
namespace Asynkit.C08
theorem placeholder : True := trivial
end Asynkit.C08
