/-
C12 — PriorityLock hands over in effective-priority order.

Model: Asynkit/Model/Lock.lean (with fixes/C12-propagate-key.patch: `propagate_priority`
re-keys the entry of the waiting *task*).  The waiter queue is the arrival-ordered list
`(s.locks k).waiters`; `headW` is `PriorityQueue.peek` (least key, earliest arrival among equals
- that the real container behaves so is property C17).  A future receives its result only in
`State.wakeUpFirst` (called by `release` and by the `finally` of a waiter that gives up).
"Waiting" lasts until that moment: a task that queues while a woken waiter has not run yet
does not take the lock from it (`wakeUpFirst` does nothing while a queued future is done).
-/
import Asynkit.Lemmas.C12

namespace Asynkit.C12
open Asynkit.Lock Asynkit.PrioGraph

/-- **hand-over**: when `_wake_up_first` hands the lock over (no wake-up already in flight), the
    future that is set belongs to the head `h` of the queue, no queued waiter has a strictly smaller
    key than `h`, and every waiter that arrived before `h` has a strictly larger key.  This is the
    only place where a waiter's future is given a result, whether the caller is `release` or the
    `finally` clause of a cancelled / interrupted acquirer (for all schedules and fault placements:
    `s` is arbitrary). -/
theorem handover_most_urgent (s : State) (k : Nat) (h : Waiter)
    (hno : (s.locks k).waiters.any (·.fut.done) = false)
    (hh : headW (s.locks k).waiters = some h) :
    ((s.wakeUpFirst k).locks k).waiters = setFutOf (s.locks k).waiters h.task .result ∧
    (∀ w ∈ (s.locks k).waiters, ¬ (w.key < h.key)) ∧
    (∃ pre post, (s.locks k).waiters = pre ++ h :: post ∧ ∀ w ∈ pre, h.key < w.key) := by
  refine ⟨?_, headW_min _ h hh, headW_first _ h hh⟩
  simp only [State.wakeUpFirst, hno, hh]
  by_cases c : (s.tasks h.task).status = Status.blocked <;> simp [State.enqueue, c]

/-- while a wake-up is in flight nothing is handed over -/
theorem no_second_handover (s : State) (k : Nat)
    (hany : (s.locks k).waiters.any (·.fut.done) = true) : s.wakeUpFirst k = s := by
  simp [State.wakeUpFirst, hany]

/-- every re-keying step of `PriorityLock.propagate_priority(task)` leaves the entry of `task`
    keyed by the task's *current* effective priority -/
theorem propagate_rekeys_to_current_eff (s : State) (f k i : Nat) :
    ∀ w ∈ ((propL s (f + 1) k i).locks k).waiters, w.task = i → w.key = (propL s (f + 1) k i).eff i := by
  intro w hw e
  have key : ∀ s1 : State, ∀ w ∈ ((s1.setLock k { s1.locks k with waiters := rekey (s1.locks k).waiters i (s1.eff i) }).locks k).waiters,
      w.task = i → w.key = (s1.setLock k { s1.locks k with waiters := rekey (s1.locks k).waiters i (s1.eff i) }).eff i := by
    intro s1 w hw e
    rw [eff_keyEq (keyEq_rekey s1 k i (s1.eff i))]
    simp at hw
    exact mem_rekey hw e
  simp only [propL] at hw ⊢
  split at hw <;> exact key _ w hw e

/-- priority propagation never changes who is queued where, nor the arrival order, nor any
    effective priority (it only re-keys) -/
theorem arrival_rank_unchanged (s : State) (f o k : Nat) :
    ((propT s f o).locks k).waiters.map (·.task) = (s.locks k).waiters.map (·.task) ∧
    ∀ i, (propT s f o).eff i = s.eff i := by
  have e := propT_keyEq s f o
  refine ⟨?_, eff_keyEq e⟩
  have := congrArg (List.map (·.1)) (e.wl k)
  simpa [State.wl, wt, List.map_map, Function.comp_def] using this

/-- the key given at arrival is the effective priority at that moment, and a waiter is appended
    behind everybody already queued -/
theorem arrival_key (s : State) (i k : Nat) :
    ∃ key, ((appended s i k).locks k).waiters = (s.locks k).waiters ++ [⟨i, key, .pending⟩] ∧
      key = (s.setTask i { s.tasks i with waitingOn := if (s.tasks i).prio.isSome then some k else none }).eff i := by
  exact ⟨_, by simp [appended], rfl⟩

/-
Full statement `waiter_key_inv` (not proved):
  in every execution without cancel/throw/interrupt, for every reachable state `s`, lock `k` and
  queued waiter `w` whose future is still pending:  w.key = s.eff w.task.
Proved part: the key is the effective priority on arrival (`arrival_key`), each propagation step
re-keys to the current effective priority (`propagate_rekeys_to_current_eff`), propagation changes
neither arrival order nor any effective priority (`arrival_rank_unchanged`).  Missing: that the
tasks whose effective priority changes when a waiter is added are exactly the blocked owners
along the chain that `propagate_priority` walks (needs the acyclicity argument of C11 lifted to
the transition system).  The trace-acceptance stream compares every queued key with the real
`effective_priority()` after every handle instead.
-/
theorem waiter_key_inv_partial (s : State) (f k i : Nat) :
    (∀ w ∈ ((propL s (f + 1) k i).locks k).waiters, w.task = i → w.key = (propL s (f + 1) k i).eff i) ∧
    (∀ k', ((propL s (f + 1) k i).locks k').waiters.map (·.task) = (s.locks k').waiters.map (·.task)) := by
  refine ⟨propagate_rekeys_to_current_eff s f k i, fun k' => ?_⟩
  have := congrArg (List.map (·.1)) ((propL_keyEq s (f + 1) k i).wl k')
  simpa [State.wl, wt, List.map_map, Function.comp_def] using this

/-- tasks without a priority are keyed 0: among equal keys the queue is FIFO, like asyncio.Lock -/
theorem plain_tasks_fifo (s : State) (k : Nat) (c : Rat)
    (hc : ∀ w ∈ (s.locks k).waiters, w.key = c) :
    headW (s.locks k).waiters = (s.locks k).waiters.head? := headW_equal_keys _ c hc

/-- a waiter `w` is never passed over by a strictly less urgent one: if `v` is handed the lock
    while `w` is queued then `v` is at least as urgent, and if they are equally urgent `v` did
    not arrive after `w` -/
theorem never_overtaken (ws : List Waiter) (v w : Waiter) (hv : headW ws = some v) (hw : w ∈ ws) :
    ¬ (w.key < v.key) ∧
    ∃ pre post, ws = pre ++ v :: post ∧ (w ∈ pre → v.key < w.key) := by
  refine ⟨headW_min ws v hv w hw, ?_⟩
  obtain ⟨pre, post, e, hp⟩ := headW_first ws v hv
  exact ⟨pre, post, e, fun h => hp w h⟩

/-! non-vacuity: three waiters (keys 0, -5 after re-keying, 0): the second one is the head -/
example : (headW [⟨1, 0, .pending⟩, ⟨2, -5, .pending⟩, ⟨3, 0, .pending⟩]).map (·.task) = some 2 := by decide
example : (headW [⟨1, 0, .pending⟩, ⟨2, 0, .pending⟩]).map (·.task) = some 1 := by decide

end Asynkit.C12
