/-
C12 — PriorityLock hands over in effective-priority order.

Model: Asynkit/Model/Lock.lean (with fixes/C12-propagate-key.patch: `propagate_priority`
re-keys the entry of the waiting *task*).  The waiter queue is the arrival-ordered list
`(s.locks k).waiters`; `headW` is `PriorityQueue.peek` (least key, earliest arrival among equals
- that the real container behaves so is property C17).  A future receives its result only in
`State.wakeUpFirst` (called by `release` and by the `finally` of a waiter that gives up).
"Waiting" lasts until that moment: a task that queues while a woken waiter has not run yet
does not take the lock from it (`wakeUpFirst` does nothing while a queued future is done).
-/
import Asynkit.Lemmas.C12
import Asynkit.Lemmas.C12KeyInv6

namespace Asynkit.C12
open Asynkit.Lock Asynkit.PrioGraph

/-- **hand-over**: when `_wake_up_first` hands the lock over (no wake-up already in flight), the
    future that is set belongs to the head `h` of the queue, no queued waiter has a strictly smaller
    key than `h`, and every waiter that arrived before `h` has a strictly larger key.  This is the
    only place where a waiter's future is given a result, whether the caller is `release` or the
    `finally` clause of a cancelled / interrupted acquirer (for all schedules and fault placements:
    `s` is arbitrary). -/
theorem handover_most_urgent (s : State) (k : Nat) (h : Waiter)
    (hno : (s.locks k).waiters.any (·.fut.done) = false)
    (hh : headW (s.locks k).waiters = some h) :
    ((s.wakeUpFirst k).locks k).waiters = setFutOf (s.locks k).waiters h.task .result ∧
    (∀ w ∈ (s.locks k).waiters, ¬ (w.key < h.key)) ∧
    (∃ pre post, (s.locks k).waiters = pre ++ h :: post ∧ ∀ w ∈ pre, h.key < w.key) := by
  refine ⟨?_, headW_min _ h hh, headW_first _ h hh⟩
  simp only [State.wakeUpFirst, hno, hh]
  by_cases c : (s.tasks h.task).status = Status.blocked <;> simp [State.enqueue, c]

/-- while a wake-up is in flight nothing is handed over -/
theorem no_second_handover (s : State) (k : Nat)
    (hany : (s.locks k).waiters.any (·.fut.done) = true) : s.wakeUpFirst k = s := by
  simp [State.wakeUpFirst, hany]

/-- every re-keying step of `PriorityLock.propagate_priority(task)` leaves the entry of `task`
    keyed by the task's *current* effective priority -/
theorem propagate_rekeys_to_current_eff (s : State) (f k i : Nat) :
    ∀ w ∈ ((propL s (f + 1) k i).locks k).waiters, w.task = i → w.key = (propL s (f + 1) k i).eff i := by
  intro w hw e
  have key : ∀ s1 : State, ∀ w ∈ ((s1.setLock k { s1.locks k with waiters := rekey (s1.locks k).waiters i (s1.eff i) }).locks k).waiters,
      w.task = i → w.key = (s1.setLock k { s1.locks k with waiters := rekey (s1.locks k).waiters i (s1.eff i) }).eff i := by
    intro s1 w hw e
    rw [eff_keyEq (keyEq_rekey s1 k i (s1.eff i))]
    simp at hw
    exact mem_rekey hw e
  simp only [propL] at hw ⊢
  split at hw <;> exact key _ w hw e

/-- priority propagation never changes who is queued where, nor the arrival order, nor any
    effective priority (it only re-keys) -/
theorem arrival_rank_unchanged (s : State) (f o k : Nat) :
    ((propT s f o).locks k).waiters.map (·.task) = (s.locks k).waiters.map (·.task) ∧
    ∀ i, (propT s f o).eff i = s.eff i := by
  have e := propT_keyEq s f o
  refine ⟨?_, eff_keyEq e⟩
  have := congrArg (List.map (·.1)) (e.wl k)
  simpa [State.wl, wt, List.map_map, Function.comp_def] using this

/-- the key given at arrival is the effective priority at that moment, and a waiter is appended
    behind everybody already queued -/
theorem arrival_key (s : State) (i k : Nat) :
    ∃ key, ((appended s i k).locks k).waiters = (s.locks k).waiters ++ [⟨i, key, .pending⟩] ∧
      key = (s.setTask i { s.tasks i with waitingOn := if (s.tasks i).prio.isSome then some k else none }).eff i := by
  exact ⟨_, by simp [appended], rfl⟩

/-- **waiter_key_inv** (full).  `ReachableNF N` = reachable by events without cancel / throw /
    interrupt in which every `acquire k` has `k < N` and `k` above every lock the task already holds
    (the fixed lock order of the property's quantifier).  In every such state, whatever the programs
    and the schedule, every queued waiter whose future is still pending is keyed by its *current*
    effective priority - including priority inherited, directly or through a chain of locks, after
    it began waiting.  (`2 * N ≤ fuel`: the recursion bound of the model covers the longest chain;
    the driver uses `2 * (|tasks| + |locks|) + 1`.)  A waiter whose future already has its result
    has been handed the lock and is no longer re-keyed, by design. -/
theorem waiter_key_inv {N : Nat} {s : State} (h : ReachableNF N s) (hf : 2 * N ≤ s.fuel) :
    ∀ k, ∀ w ∈ (s.locks k).waiters, w.fut = .pending → w.key = s.eff w.task :=
  reachableNF_kinv h hf

/-- ... hence in such executions the hand-over goes to the (current effective priority,
    arrival)-minimal waiter: nobody queued is strictly more urgent than the receiver, and everybody
    queued before it is strictly less urgent. -/
theorem handover_by_effective_priority {N : Nat} {s : State} (h : ReachableNF N s) (hf : 2 * N ≤ s.fuel)
    (k : Nat) (hd : Waiter) (hno : (s.locks k).waiters.any (·.fut.done) = false)
    (hh : headW (s.locks k).waiters = some hd) :
    ((s.wakeUpFirst k).locks k).waiters = setFutOf (s.locks k).waiters hd.task .result ∧
    (∀ w ∈ (s.locks k).waiters, ¬ (s.eff w.task < s.eff hd.task)) ∧
    (∃ pre post, (s.locks k).waiters = pre ++ hd :: post ∧ ∀ w ∈ pre, s.eff hd.task < s.eff w.task) := by
  have hpend : ∀ w ∈ (s.locks k).waiters, w.fut = .pending := by
    intro w hw
    have : w.fut.done = false := by
      have := hno
      simp only [List.any_eq_false] at this
      simpa using this w hw
    cases hf' : w.fut <;> simp_all [Fut.done]
  have hkey : ∀ w ∈ (s.locks k).waiters, w.key = s.eff w.task :=
    fun w hw => waiter_key_inv h hf k w hw (hpend w hw)
  have hhd := headW_mem _ _ hh
  obtain ⟨h1, h2, pre, post, e, h3⟩ := handover_most_urgent s k hd hno hh
  refine ⟨h1, fun w hw => ?_, pre, post, e, fun w hw => ?_⟩
  · rw [← hkey w hw, ← hkey hd hhd]; exact h2 w hw
  · have hw' : w ∈ (s.locks k).waiters := by rw [e]; exact List.mem_append_left _ hw
    rw [← hkey w hw', ← hkey hd hhd]; exact h3 w hw

/- With cancellation the invariant is false by design for a waiter in flight (woken or faulted but
   not yet run: `propagate_priority` stops at runnable tasks), which is why it is stated for
   fault-free executions; `never_overtaken` and `handover_most_urgent` hold for all executions. -/

/-- old name, kept: one propagation step -/
theorem waiter_key_inv_partial (s : State) (f k i : Nat) :
    (∀ w ∈ ((propL s (f + 1) k i).locks k).waiters, w.task = i → w.key = (propL s (f + 1) k i).eff i) ∧
    (∀ k', ((propL s (f + 1) k i).locks k').waiters.map (·.task) = (s.locks k').waiters.map (·.task)) := by
  refine ⟨propagate_rekeys_to_current_eff s f k i, fun k' => ?_⟩
  have := congrArg (List.map (·.1)) ((propL_keyEq s (f + 1) k i).wl k')
  simpa [State.wl, wt, List.map_map, Function.comp_def] using this

/-- tasks without a priority are keyed 0: among equal keys the queue is FIFO, like asyncio.Lock -/
theorem plain_tasks_fifo (s : State) (k : Nat) (c : Rat)
    (hc : ∀ w ∈ (s.locks k).waiters, w.key = c) :
    headW (s.locks k).waiters = (s.locks k).waiters.head? := headW_equal_keys _ c hc

/-- a waiter `w` is never passed over by a strictly less urgent one: if `v` is handed the lock
    while `w` is queued then `v` is at least as urgent, and if they are equally urgent `v` did
    not arrive after `w` -/
theorem never_overtaken (ws : List Waiter) (v w : Waiter) (hv : headW ws = some v) (hw : w ∈ ws) :
    ¬ (w.key < v.key) ∧
    ∃ pre post, ws = pre ++ v :: post ∧ (w ∈ pre → v.key < w.key) := by
  refine ⟨headW_min ws v hv w hw, ?_⟩
  obtain ⟨pre, post, e, hp⟩ := headW_first ws v hv
  exact ⟨pre, post, e, fun h => hp w h⟩

/-! non-vacuity: three waiters (keys 0, -5 after re-keying, 0): the second one is the head -/
example : (headW [⟨1, 0, .pending⟩, ⟨2, -5, .pending⟩, ⟨3, 0, .pending⟩]).map (·.task) = some 2 := by decide
example : (headW [⟨1, 0, .pending⟩, ⟨2, 0, .pending⟩]).map (·.task) = some 1 := by decide

/-! non-vacuity of `waiter_key_inv`: T0(5) holds L1; T1(2) takes L0 and queues on L1 with key 2;
    T2(-5) queues on L0 - a fault-free, ordered execution after which T1's key in L1 is -5. -/
def runOK (N : Nat) : State → List Ev → Bool
  | _, [] => true
  | s, e :: es => e.enabled s && Ev.orderly N s e && runOK N (s.apply e) es

theorem runOK_reachable {N : Nat} : ∀ (es : List Ev) (s : State), ReachableNF N s → runOK N s es = true →
    ReachableNF N (es.foldl State.apply s)
  | [], _, h, _ => h
  | e :: es, s, h, ok => by
    simp only [runOK, Bool.and_eq_true] at ok
    exact runOK_reachable es _ (ReachableNF.step e h ok.1.1 ok.1.2) ok.2

def demoInit : State :=
  { tasks := fun i => if i = 0 then { prio := some 5, status := .ready false }
                      else if i = 1 then { prio := some 2, status := .ready false }
                      else if i = 2 then { prio := some (-5), status := .ready false } else {},
    fuel := 6 }

def demoEvents : List Ev :=
  [.resume 0, .acquire 1, .sleep, .resume 1, .acquire 0, .acquire 1, .resume 2, .acquire 0]

theorem demoInit_initial : Initial demoInit := by
  refine ⟨rfl, fun _ => rfl, fun i => ?_⟩
  simp only [demoInit]
  by_cases h0 : i = 0
  · simp [h0]
  · by_cases h1 : i = 1
    · simp [h1]
    · by_cases h2 : i = 2
      · simp [h2]
      · simp [h0, h1, h2]

example : ReachableNF 2 (demoEvents.foldl State.apply demoInit) ∧
    ((demoEvents.foldl State.apply demoInit).locks 1).waiters.map (fun w => (w.task, w.key, w.fut)) =
      [(1, -5, .pending)] ∧
    (demoEvents.foldl State.apply demoInit).eff 1 = -5 :=
  ⟨runOK_reachable demoEvents demoInit (ReachableNF.init demoInit_initial) (by decide), by decide, by decide⟩

end Asynkit.C12
