/-
C16 — task_timeout fires iff the block outlives its deadline, never after exit.
Property theorems only; model in Asynkit/Model/Timeout.lean, lemmas in Asynkit/Lemmas/C16.lean.

PARTIAL with respect to real time and the selector (see the model's header): `fire id` is the event
"the event loop ran this level's timer callback".  What is proved is the logic reacting to timer
events.  `Reachable s` = `s` is reached from the initial state by *any* finite sequence of enabled
events: blocks entered/exited in any nesting, timers firing at any moment they are armed,
interruptor tasks scheduled at any moment (each `task_interrupt` accepted or refused as the
environment pleases), foreign TimeoutInterrupt instances thrown by anybody (`envThrow`), and the
pending interrupt unwinding any number of levels before the body catches it.
-/
import Asynkit.Lemmas.C16

namespace Asynkit.C16
open Asynkit.Timeout

/-- **No interrupt after exit.**  In every reachable state: a block that has exited has
`is_active = False` (for ever — nothing sets it back); every `task_throw` ever performed by an
interruptor was performed while its own block was still entered and active; and an interrupt
thrown by an interruptor and not yet raised in the target belongs to a level the target is still
inside of — so it is raised inside that block, never after it. -/
theorem no_interrupt_after_exit {s : State} (h : Reachable s) :
    (∀ l ∈ s.exited, l.active = false)
    ∧ (∀ t ∈ s.throws, t.inBlock = true ∧ t.active = true)
    ∧ (∀ o, s.pending = some (o, true) → ∃ l ∈ s.stack, l.id = o ∧ l.active = true) := by
  have g := good_reachable h
  refine ⟨g.exitedInactive, fun t ht => ⟨(g.throwsOk t ht).1, (g.throwsOk t ht).2.1⟩, ?_⟩
  intro o ho
  obtain ⟨l, hl, h1, h2, _⟩ := g.pendingOk o ho
  exact ⟨l, hl, h1, h2⟩

/-- the interruptor of an exited block can only terminate: no throw, no retry -/
theorem exited_interruptor_only_finishes {s : State} (h : Reachable s) (id : Nat) (l : Level)
    (hf : findLevel s id = some (l, false)) (r : Attempt) (s' : State)
    (hs : step s (.istep id r) = some s') : r = .none ∧ s'.pending = s.pending ∧ s'.throws = s.throws := by
  have hin := (good_reachable h).exitedInactive l (findLevel_exited hf).1
  simp only [step, hf] at hs
  split at hs
  · split at hs
    · rename_i hc; rw [hin] at hc; exact absurd hc.2 (by simp)
    · split at hs
      · rename_i hr
        injection hs with hs; subst hs
        exact ⟨hr, rfl, rfl⟩
      · cases hs
  · cases hs

/-- **Fires if the block outlives its deadline** (1/2).  When the interruptor of a level runs
(try `i < 3`) and the block is still active, it *must* attempt the interrupt (it cannot skip), and
if `task_interrupt` accepts, the target has this level's interrupt pending at its current
suspension point. -/
theorem fires_if_outlives {s : State} (id i : Nat) (l : Level) (b : Bool)
    (hf : findLevel s id = some (l, b)) (hi : l.ist = .at i) (h3 : i < 3) (ha : l.active = true) :
    step s (.istep id .none) = none
    ∧ ∃ s', step s (.istep id .thrown) = some s' ∧ s'.pending = some (id, true) := by
  constructor
  · simp [step, hf, hi, h3, ha]
  · simp [step, hf, hi, h3, ha]

/-- **The interruptor gives up after three refusals.**  On its third try (`i = 2`) a refusal ends
the interruptor: no interrupt is pending because of it, the throw log is unchanged, its state is
`done` with the `failed` mark (= the loop exception handler is called with message, task and
exception), and from then on no `istep` of this level is enabled at all — the target is not
interrupted later on behalf of this block. -/
theorem interruptor_gives_up_after_three_refusals (s : State) (id : Nat) (l : Level) (b : Bool)
    (hf : findLevel s id = some (l, b)) (hi : l.ist = .at 2) (ha : l.active = true) :
    ∃ s', step s (.istep id .refused) = some s' ∧ s'.pending = s.pending ∧ s'.throws = s.throws
      ∧ (∃ l', findLevel s' id = some (l', b) ∧ l'.ist = .done ∧ l'.failed = true)
      ∧ ∀ r, step s' (.istep id r) = none := by
  have hstep : step s (.istep id .refused) =
      some (setLevel s id fun l => { l with ist := .done, failed := true }) := by
    simp [step, hf, hi, ha]
  have hfl : findLevel (setLevel s id fun l => { l with ist := .done, failed := true }) id
      = some ({ l with ist := .done, failed := true }, b) := by
    have := findLevel_setLevel s id (fun l => { l with ist := .done, failed := true }) (fun l => rfl)
    rw [this, hf]; rfl
  refine ⟨_, hstep, rfl, rfl, ⟨_, hfl, rfl, rfl⟩, ?_⟩
  intro r
  simp [step, hfl]

/-- first element satisfying `p` -/
theorem exists_first {α} (p : α → Prop) : ∀ (l : List α), (∃ x ∈ l, p x) →
    ∃ pre x post, l = pre ++ x :: post ∧ p x ∧ ∀ y ∈ pre, ¬ p y
  | [], h => by obtain ⟨x, hx, _⟩ := h; cases hx
  | a :: l, h => by
    by_cases ha : p a
    · exact ⟨[], a, l, rfl, ha, by simp⟩
    · obtain ⟨x, hx, hp⟩ := h
      have : ∃ x ∈ l, p x := by
        rcases List.mem_cons.mp hx with hx | hx
        · subst hx; exact absurd hp ha
        · exact ⟨x, hx, hp⟩
      obtain ⟨pre, y, post, h1, h2, h3⟩ := exists_first p l this
      refine ⟨a :: pre, y, post, by simp [h1], h2, ?_⟩
      intro z hz
      rcases List.mem_cons.mp hz with hz | hz
      · subst hz; exact ha
      · exact h3 z hz

/-- **Fires … (2/2) and nested levels are exact.**  In every reachable state with an interrupt `o`
pending that an interruptor threw, the stack of entered levels splits as `pre ++ l :: post` where
`l` is the level whose `my_interrupt` is `o`, still active; when the target raises it and it
unwinds through `pre`, `l` and `k` more levels, every level of `pre` re-raises the *same*
interrupt unchanged, `l` raises TimeoutError, the outer levels see that TimeoutError pass, and `l`
is the only level that converts. -/
theorem nested_level_exact {s : State} (h : Reachable s) (o : Nat) (hp : s.pending = some (o, true)) :
    ∃ pre l post, s.stack = pre ++ l :: post ∧ l.id = o ∧ l.timed = true
      ∧ (∀ x ∈ pre, ¬ (x.timed = true ∧ x.id = o))
      ∧ ∀ k, k ≤ post.length →
          (unwind (pre.length + 1 + k) s.stack (.intr o)).2.2.1
            = List.replicate pre.length (Exc.intr o) ++ List.replicate (k + 1) Exc.timeoutErr
          ∧ ∃ s', step s (.raise (pre.length + 1 + k)) = some s' ∧ s'.convs = (l.id, o) :: s.convs := by
  obtain ⟨l0, hl0, h1, _, h3⟩ := (good_reachable h).pendingOk o hp
  obtain ⟨pre, l, post, hs, hl, hpre⟩ :=
    exists_first (fun x : Level => x.timed = true ∧ x.id = o) s.stack ⟨l0, hl0, h3, h1⟩
  refine ⟨pre, l, post, hs, hl.2, hl.1, hpre, ?_⟩
  intro k hk
  have hu := unwind_owner o pre l post k hpre hl.1 hl.2 hk
  rw [← hs] at hu
  refine ⟨hu.1, ?_⟩
  have hlen : pre.length + 1 + k ≤ s.stack.length := by rw [hs]; simp; omega
  simp [step, hp, hlen, hu.2]

/-- a foreign interrupt (no unwound level owns it) passes every level unchanged and no
TimeoutError is raised anywhere -/
theorem foreign_interrupt_unchanged (o n : Nat) (stk : List Level)
    (h : ∀ x ∈ stk.take n, ¬ (x.timed = true ∧ x.id = o)) :
    (unwind n stk (.intr o)).2.2.1 = List.replicate (min n stk.length) (Exc.intr o)
    ∧ (unwind n stk (.intr o)).2.2.2 = [] :=
  unwind_foreign o n stk h

/-- **`task_timeout(None)` is the identity.**  A level without deadline (a) lets every exception
through unchanged, (b) never has an interrupt thrown on its behalf, and (c) entering and leaving
it changes nothing but the ghost list of exited levels: no timer, no interruptor, no flag. -/
theorem none_is_identity :
    (∀ (l : Level) (e : Exc), l.timed = false → levelExit l e = e)
    ∧ (∀ s, Reachable s → ∀ t ∈ s.throws, t.timed = true)
    ∧ (∀ (s : State) (id : Nat), s.pending = none → (findLevel s id).isNone = true →
        run s [.enter id false, .exitOk id] =
          some { s with exited :=
            { id := id, timed := false, active := false, timer := .none, ist := .notCreated } :: s.exited }) := by
  refine ⟨?_, ?_, ?_⟩
  · intro l e ht
    cases e <;> simp [levelExit, ht]
  · intro s h t ht
    exact ((good_reachable h).throwsOk t ht).2.2
  · intro s id hp hf
    simp [run, step, hp, hf, finallyOf]

/-- **A level's timer is installed whenever `timeout is not None`** — whatever levels enclose it
(there is no elision of a "redundant" inner timer) and, since the state is per task, whatever blocks
the *creator* of the task was inside of when it created it. -/
theorem timer_installed_whenever_timed (s s' : State) (id : Nat)
    (h : step s (.enter id true) = some s') :
    ∃ l, s'.stack = l :: s.stack ∧ l.id = id ∧ l.timed = true ∧ l.active = true ∧ l.timer = .armed
      ∧ step s' (.fire id) ≠ none := by
  simp only [step] at h
  split at h
  · injection h with h; subst h
    refine ⟨_, rfl, rfl, rfl, rfl, rfl, ?_⟩
    simp [step, findLevel]
  · cases h

/-- **Tasks are independent.**  An event of task `t` is a step of `t`'s own component, enabled or
not according to that component alone, and leaves every other task's levels untouched: no other
task's open block (for instance that of the task which created `t`) can disable, shorten or
replace a deadline of `t`. -/
theorem tasks_independent (ms ms' : MState) (t : Nat) (e : Event) (h : mstep ms t e = some ms') :
    step (ms t) e = some (ms' t) ∧ ∀ u, u ≠ t → ms' u = ms u := by
  simp only [mstep, Option.map_eq_some_iff] at h
  obtain ⟨s', hs, hm⟩ := h
  subst hm
  exact ⟨by simp [hs], fun u hu => by simp [hu]⟩

theorem mstep_enabled_iff (ms : MState) (t : Nat) (e : Event) :
    (mstep ms t e).isSome = (step (ms t) e).isSome := by
  simp [mstep]

/-! ### non-vacuity -/

/-- outer level 0 and inner level 1; the *outer* timer fires while the target sleeps in the inner
block: interruptor 0 throws, the target unwinds both levels: level 1 re-raises the foreign
interrupt, level 0 converts it. Afterwards interruptor 0 resumes and only finishes. -/
def demo : List Event :=
  [.enter 0 true, .enter 1 true, .fire 0, .istep 0 .thrown, .raise 2, .istep 0 .none]

example : (run init demo).map (fun s => (s.convs, s.stack.length)) = some ([(0, 0)], 0) := by decide
example : (run init demo).map (fun s =>
    s.exited.map (fun l => (l.id, l.active, decide (l.timer = .cancelled))))
    = some [(1, false, true), (0, false, true)] := by decide
example : (run init demo).map (fun s => s.throws.map (fun t => (t.id, t.inBlock)))
    = some [(0, true)] := by decide

/-- the deadline passes just as the task leaves the block: the timer fired, the block exits
before the interruptor runs; the interruptor sees `is_active = False` and does nothing. -/
example : (run init [.enter 0 true, .fire 0, .exitOk 0, .istep 0 .none]).map
    (fun s => (s.throws.length, s.pending.isNone)) = some (0, true) := by decide
example : run init [.enter 0 true, .fire 0, .exitOk 0, .istep 0 .thrown] = none ↔ True := by
  simp [run, step, init, findLevel, finallyOf, setLevel, updLevel]

/-- tied deadlines: both timers fire in the same pass; the outer interruptor throws first, the inner
interruptor's throw replaces the pending interrupt before the target has run; the target raises the
*inner* interrupt, the inner level converts it and the body handles that TimeoutError inside the outer
block (`raise 1`).  The outer block is still active, so its interruptor — resumed after its
`task_switch` — must try again (`istep 0 none` is disabled) and the outer block is ended too. -/
example : (run init [.enter 0 true, .enter 1 true, .fire 0, .fire 1, .istep 0 .thrown, .istep 1 .thrown,
      .raise 1, .istep 0 .thrown, .raise 1]).map (fun s => (s.convs, s.stack.length))
    = some ([(0, 0), (1, 1)], 0) := by decide
example : run init [.enter 0 true, .enter 1 true, .fire 0, .fire 1, .istep 0 .thrown, .istep 1 .thrown,
      .raise 1, .istep 0 .none] = none ↔ True := by
  simp [run, step, init, findLevel, setLevel, updLevel, unwind, levelExit, finallyOf]

/-- three refusals: the interruptor gives up after the third (exception handler) -/
example : (run init [.enter 0 true, .fire 0, .istep 0 .refused, .istep 0 .refused,
      .istep 0 .refused]).map (fun s => s.stack.map (fun l => (decide (l.ist = .done), l.failed)))
    = some [(true, true)] := by decide

/-- the child-task scenario: task 0 is inside its block (level 0) when task 1 enters its own timed
block (level 1): task 1 gets its own armed timer, which fires and interrupts task 1 — task 0's level
is neither consulted nor touched, also after task 0 has left its block. -/
example :
    ((mstep minit 0 (.enter 0 true)).bind fun ms =>
     (mstep ms 1 (.enter 1 true)).bind fun ms =>
     (mstep ms 0 (.exitOk 0)).bind fun ms =>
     (mstep ms 1 (.fire 1)).bind fun ms =>
     (mstep ms 1 (.istep 1 .thrown)).bind fun ms =>
     (mstep ms 1 (.raise 1))).map (fun ms => ((ms 1).convs, (ms 0).convs, (ms 0).throws.length))
    = some ([(1, 1)], [], 0) := by decide

end Asynkit.C16
