/-
C19 — starvation boosting is prompt, history-independent and safe.

Property theorems about `Model/PosPQ` (`PosPriorityQueue.update_counters`, `do_maintenance`,
`boost_stragglers`, `compute_priority_boost`).  The random draw is a parameter `draw` (any function
into [0,1)), so nothing here is probabilistic.  Helper lemmas: Asynkit/Lemmas/C19.lean.
-/
import Asynkit.Lemmas.C19

namespace Asynkit.C19
open Asynkit PosPQ

variable {H : HeapLib (Entry PV)}

/-! ## 1. The counters: history independence -/

/-- every operation keeps `last_maintenance ≤ min(n_inserted, n_removed)` -/
theorem cinv_step (hl : H.Lawful (Entry.lt PV.lt)) (draw : Nat → Rat) {s : PosPQ} (h : s.CInv)
    (op : PosPQ.Op) : (PosPQ.step H draw s op).1.CInv := by
  have hpop : ∀ {s : PosPQ}, s.CInv → ∀ x s', s.popleft H draw = some (x, s') → s'.CInv := by
    intro s h x s' hp
    simp only [PosPQ.popleft] at hp
    split at hp
    · cases hp
    · cases hp; exact CInv_updateCounters hl _ false draw h
  have hprom : ∀ (n : Nat) {s : PosPQ} (acc : List Nat), s.CInv → (PosPQ.promote H draw n s acc).1.CInv := by
    intro n
    induction n with
    | zero => intro s acc h; simpa [PosPQ.promote] using h
    | succ n ih =>
      intro s acc h
      simp only [PosPQ.promote]
      cases hp : s.popleft H draw with
      | none => simpa using h
      | some r => obtain ⟨x, s'⟩ := r; exact ih _ (hpop h x s' hp)
  cases op with
  | appendPri x p => exact CInv_updateCounters hl _ true draw h
  | insert p x =>
    simp only [PosPQ.step, PosPQ.insert]
    exact CInv_updateCounters hl _ true draw (hprom p [] h)
  | popleft =>
    simp only [PosPQ.step]
    cases hp : s.popleft H draw with
    | none => simpa using h
    | some r => obtain ⟨x, s'⟩ := r; simpa using hpop h x s' hp
  | remove x =>
    simp only [PosPQ.step, PosPQ.remove]
    cases hr : s.q.remove H PV.lt x with
    | none => simpa using h
    | some r => obtain ⟨e, q'⟩ := r; simpa using CInv_updateCounters hl { s with q := q' } false draw h
  | find key rm =>
    simp only [PosPQ.step, PosPQ.find]
    cases (s.q.find H PV.lt key rm).1 <;> simpa [PosPQ.CInv] using h
  | reschedule key np =>
    simp only [PosPQ.step, PosPQ.reschedule]
    cases hf : (s.q.find H PV.lt key false).1 with
    | none => simpa using h
    | some e =>
      simp only
      by_cases hc : (e.pri.cls == 0) = true
      · simpa [hc] using h
      · simp only [hc, Bool.false_eq_true, if_false]
        cases (s.q.reschedule H PV.lt key { base := np, insertedAt := s.nIns }).1 <;>
          simpa [PosPQ.CInv] using h
  | rescheduleAll gp => simpa [PosPQ.step, PosPQ.rescheduleAll, PosPQ.CInv] using h
  | iter => simpa [PosPQ.step, PosPQ.iter, PosPQ.CInv] using h
  | clear => simpa [PosPQ.step, PosPQ.clear, PosPQ.CInv] using h

/-- **`counters_inv`** — in every state reachable by any history (busy periods of any length, the
    queue drained to empty any number of times, positional inserts, removals …) the maintenance
    mark is not ahead of the throughput counter.  This is what makes the delay to the next
    maintenance independent of the history. -/
theorem counters_inv (hl : H.Lawful (Entry.lt PV.lt)) (draw : Nat → Rat) (ops : List PosPQ.Op) :
    ∀ {s : PosPQ}, s.CInv → (PosPQ.runFrom H draw s ops).1.CInv := by
  induction ops with
  | nil => intro s h; exact h
  | cons op ops ih => intro s h; exact ih (cinv_step hl draw h op)

/-! ## 2. Promptness under sustained load -/

/-- one round of sustained load: something more urgent is popped (the queue does not become
    empty: the straggler is still there) and something is appended -/
def loadRound (H : HeapLib (Entry PV)) (draw : Nat → Rat) (s : PosPQ) (xp : Nat × Rat) : Option PosPQ :=
  match s.popleft H draw with
  | none => none
  | some (_, s1) => if s1.len = 0 then none else some (s1.appendPri H xp.1 xp.2 draw)

def loadRun (H : HeapLib (Entry PV)) (draw : Nat → Rat) : PosPQ → List (Nat × Rat) → Option PosPQ
  | s, [] => some s
  | s, xp :: rest =>
    match loadRound H draw s xp with
    | none => none
    | some s' => loadRun H draw s' rest

/-- what one load round does to the counters -/
theorem loadRound_counters (hl : H.Lawful (Entry.lt PV.lt)) (draw : Nat → Rat) {s s' : PosPQ}
    {xp : Nat × Rat} (h : loadRound H draw s xp = some s') :
    s'.len = s.len ∧ s'.nIns = s.nIns + 1 ∧ s'.nRem = s.nRem + 1 ∧
    ((min (s.nIns + 1) (s.nRem + 1) > max 10 s.len + s.lastMaint ∧
        s'.lastMaint = min (s.nIns + 1) (s.nRem + 1)) ∨
     (¬ min (s.nIns + 1) (s.nRem + 1) > max 10 s.len + s.lastMaint ∧ s'.lastMaint = s.lastMaint)) := by
  unfold loadRound at h
  cases hp : s.popleft H draw with
  | none => simp [hp] at h
  | some r =>
    obtain ⟨x, s1⟩ := r
    simp only [hp] at h
    split at h
    · cases h
    · rename_i hne
      cases h
      have hpc := popleft_counters hl draw hp
      have h1 := hpc.2 hne
      have ha := appendPri_counters hl draw s1 xp.1 xp.2
      rw [h1.1, h1.2.1, h1.2.2] at ha
      have hlen : s1.len + 1 = s.len := hpc.1
      rw [hlen] at ha
      exact ⟨ha.1, ha.2.1, ha.2.2.1, ha.2.2.2⟩

/-- **`maintenance_prompt`** — from *every* reachable state (`counters_inv`), under a sustained
    pop/append load the maintenance mark moves — `do_maintenance` has run — before the number of
    rounds exceeds `max(10, len)`: if it has not moved after `xs.length` rounds then
    `xs.length ≤ max 10 len`.  The bound depends on the current queue length only, not on the
    history (how long the loop has run, whether the queue was empty in between). -/
theorem maintenance_prompt (hl : H.Lawful (Entry.lt PV.lt)) (draw : Nat → Rat) :
    ∀ (xs : List (Nat × Rat)) {s s' : PosPQ}, loadRun H draw s xs = some s' →
      s'.len = s.len ∧ s'.nIns = s.nIns + xs.length ∧ s'.nRem = s.nRem + xs.length ∧
      s.lastMaint ≤ s'.lastMaint ∧
      (s'.lastMaint = s.lastMaint → xs ≠ [] →
        min s.nIns s.nRem + xs.length ≤ max 10 s.len + s.lastMaint) := by
  intro xs
  induction xs with
  | nil => intro s s' h; simp only [loadRun, Option.some.injEq] at h; subst h; simp
  | cons xp rest ih =>
    intro s s' h
    simp only [loadRun] at h
    cases hr : loadRound H draw s xp with
    | none => simp [hr] at h
    | some s1 =>
      simp only [hr] at h
      have hc := loadRound_counters hl draw hr
      have ih' := ih h
      have hmono1 : s.lastMaint ≤ s1.lastMaint := by
        rcases hc.2.2.2 with ⟨htr, hm⟩ | ⟨_, hm⟩ <;> rw [hm] <;> omega
      refine ⟨by rw [ih'.1, hc.1], by rw [ih'.2.1, hc.2.1]; simp only [List.length_cons]; omega,
        by rw [ih'.2.2.1, hc.2.2.1]; simp only [List.length_cons]; omega,
        Nat.le_trans hmono1 ih'.2.2.2.1, ?_⟩
      intro heq _
      have hs1 : s1.lastMaint = s.lastMaint := by have := ih'.2.2.2.1; omega
      rcases hc.2.2.2 with ⟨htr, hm⟩ | ⟨hntr, _⟩
      · omega
      · simp only [List.length_cons]
        by_cases hrest : rest = []
        · subst hrest; simp only [List.length_nil]; omega
        · have := ih'.2.2.2.2 (by omega) hrest
          rw [hc.1, hc.2.1, hc.2.2.1, hs1] at this
          omega

/-- the bound in the form of the property: with the counter invariant, no maintenance in `k` rounds
    implies `k ≤ max(10, len)` -/
theorem maintenance_within (hl : H.Lawful (Entry.lt PV.lt)) (draw : Nat → Rat)
    (xs : List (Nat × Rat)) {s s' : PosPQ} (hinv : s.CInv) (h : loadRun H draw s xs = some s')
    (hk : xs.length > max 10 s.len) : s.lastMaint < s'.lastMaint := by
  have hp := maintenance_prompt hl draw xs h
  unfold PosPQ.CInv at hinv
  by_cases heq : s'.lastMaint = s.lastMaint
  · have hne : xs ≠ [] := by intro h0; subst h0; simp at hk
    have := hp.2.2.2.2 heq hne
    omega
  · have := hp.2.2.2.1; omega

/-- `straggler_candidate`: in a maintenance round that happens more than `len` insertions after
    an entry was inserted, that entry is in the candidate window (`inserted_at < limit`). -/
theorem straggler_candidate (nIns len insertedAt j : Nat) (h1 : insertedAt < nIns) (hj : len < j) :
    insertedAt < (nIns + j) - len := by omega

/-! ## 3. What a boost may do -/

/-- **`boost_safe`** — one entry through one maintenance round (`boost_stragglers`), for any boost
    factor `≥ 0` and any draw in `[0,1)`:
    * identity, arrival stamp, class and base priority never change (so nothing moves relative to
      positional entries, whose class is 0 and which are never candidates);
    * only a *candidate* changes: a regular entry, inserted more than a queue length ago, whose base
      priority is strictly above (less urgent than) `min_pri`, the most urgent regular priority;
    * its new boost is `≤ 0` (more urgent than its own base priority) and bounded:
      `priority() ≥ base + factor·(min_pri − base)`. -/
theorem boost_safe (factor minPri : Rat) (limit : Nat) (draw : Nat → Rat) (e : Entry PV)
    (hf : 0 ≤ factor) (hd : ∀ n, 0 ≤ draw n ∧ draw n < 1) :
    let e' := boostOne factor minPri limit draw e
    e'.seq = e.seq ∧ e'.obj = e.obj ∧ e'.pri.cls = e.pri.cls ∧ e'.pri.base = e.pri.base ∧
    (e' ≠ e →
      (e.pri.cls ≠ 0 ∧ e.pri.insertedAt < limit ∧ e.pri.base > minPri) ∧
      e'.pri.boost ≤ 0 ∧ (minPri - e.pri.base) * factor ≤ e'.pri.boost) := by
  intro e'
  have hfl := boostOne_fields factor minPri limit draw e
  refine ⟨hfl.1, hfl.2.1, hfl.2.2.1, hfl.2.2.2.1, ?_⟩
  intro hne
  by_cases hc : candidate minPri limit e = true
  · have hc' := hc
    simp only [candidate, Bool.and_eq_true, bne_iff_ne, ne_eq, decide_eq_true_eq] at hc'
    refine ⟨⟨hc'.1.1, hc'.1.2, hc'.2⟩, ?_⟩
    have hx : (minPri - e.pri.base) * factor ≤ 0 := by
      have h1 : 0 ≤ (e.pri.base - minPri) * factor := Rat.mul_nonneg (by grind) hf
      grind
    have hs := scale_nonpos (hd e.seq).1 (hd e.seq).2 hx
    have he' : e' = boostOne factor minPri limit draw e := rfl
    simp only [boostOne, hc, if_true] at he'
    by_cases hpb : (computeBoost factor e.pri.base minPri (draw e.seq) != 0) = true
    · simp only [hpb, if_true] at he'
      rw [he']
      simp only [computeBoost]
      exact ⟨hs.2, hs.1⟩
    · simp only [hpb, Bool.false_eq_true, if_false] at he'
      exact absurd he' hne
  · exfalso
    apply hne
    exact boostOne_noncandidate _ _ _ _ _ (by simpa using hc)

/-- **`boost_overtakes`** — a candidate whose draw satisfies `draw · factor > 1` (possible for the
    default factor 1.2 whenever the draw exceeds 1/1.2) ends up strictly more urgent than
    `min_pri`, i.e. than every regular entry that was not itself boosted in this round: it is the
    next regular entry to run.  Hence with any positive probability of such a draw a straggler
    eventually runs. -/
theorem boost_overtakes (factor minPri : Rat) (limit : Nat) (draw : Nat → Rat) (e : Entry PV)
    (hc : candidate minPri limit e = true) (hr : 1 < draw e.seq * factor) :
    (boostOne factor minPri limit draw e).pri.priority < minPri := by
  have hc' := hc
  simp only [candidate, Bool.and_eq_true, bne_iff_ne, ne_eq, decide_eq_true_eq] at hc'
  have hx : minPri - e.pri.base < 0 := by grind
  have hov := scale_overshoot hr hx
  have hne : computeBoost factor e.pri.base minPri (draw e.seq) ≠ 0 := by
    simp only [computeBoost]; grind
  have hb : (computeBoost factor e.pri.base minPri (draw e.seq) != 0) = true := by simpa using hne
  simp only [boostOne, hc, if_true, hb, PV.priority, computeBoost]
  grind

/-- **`maintenance_refines`** — a maintenance round keeps the queue a faithful container: the
    implementation still refines the reference list, mapped entry by entry through `boostOne`
    (nothing lost, duplicated; heap invariant restored by `refresh`). -/
theorem maintenance_refines (hl : H.Lawful (Entry.lt PV.lt)) {s : PosPQ} {L} (h : RP s L)
    (draw : Nat → Rat) {minPri hi : Rat} (hf : s.factor ≠ 0)
    (hm : regularMinMax s.q.pq = some (minPri, hi)) :
    RP (doMaintenance H s draw) (L.map (boostOne s.factor minPri (s.nIns - s.len) draw)) ∧
    (∀ e ∈ L, e.pri.cls ≠ 0 → minPri ≤ e.pri.priority) ∧
    (∃ e ∈ L, e.pri.cls ≠ 0 ∧ e.pri.priority = minPri) := by
  have hspec := regularMinMax_spec s.q.pq minPri hi hm
  refine ⟨h.doMaintenance hl draw hf hm, ?_, ?_⟩
  · intro e he hc; exact hspec.1 e (h.r.perm.symm.subset he) hc
  · obtain ⟨e, he, h1, h2⟩ := hspec.2
    exact ⟨e, h.r.perm.subset he, h1, h2⟩

/-- **`boost_never_before_positional`** — after maintenance (as after anything else) positional
    entries still come first in the pop order: classes are untouched. -/
theorem boost_never_before_positional (factor minPri : Rat) (limit : Nat) (draw : Nat → Rat)
    (L : List (Entry PV)) :
    (order PV.lt (L.map (boostOne factor minPri limit draw))).Pairwise
      (fun a b => b.pri.cls = 0 → a.pri.cls = 0) := by
  refine (order_sorted pv_strictWeak _).imp ?_
  intro a b hba hb
  simp only [Entry.lt, Bool.or_eq_false_iff] at hba
  have h := hba.1
  simp only [PV.lt, hb] at h
  by_cases ha : a.pri.cls = 0
  · exact ha
  · exfalso
    have : (0 != a.pri.cls) = true := by simp; omega
    simp [this] at h; omega

/-- equal priorities: with all regular entries at one priority and no boost pending, maintenance
    changes nothing — the priority loop then schedules like the plain loop (used by C10). -/
theorem maintenance_noop_equal (s : PosPQ) (draw : Nat → Rat) (c : Rat)
    (heq : ∀ e ∈ s.q.pq, e.pri.cls ≠ 0 → e.pri.base = c ∧ e.pri.boost = 0) :
    doMaintenance H s draw = s := by
  unfold doMaintenance
  split
  · rfl
  · cases hm : regularMinMax s.q.pq with
    | none => rfl
    | some p =>
      obtain ⟨lo, hi⟩ := p
      have hspec := regularMinMax_spec s.q.pq lo hi hm
      obtain ⟨e0, he0, hc0, hp0⟩ := hspec.2
      have hlo : lo = c := by
        have := heq e0 he0 hc0
        rw [← hp0, PV.priority, this.1, this.2]; grind
      dsimp only
      have hany : (s.q.pq.any fun e => candidate lo (s.nIns - s.len) e &&
          computeBoost s.factor e.pri.base lo (draw e.seq) != 0) = false := by
        apply List.any_eq_false.mpr
        intro e he
        by_cases hc : e.pri.cls = 0
        · simp [candidate, hc]
        · have := (heq e he hc).1
          simp [candidate, this, hlo]
      simp [hany]

/-! ## 3b. A long-waiting entry that is the only regular entry is retried, not skipped

The defect `boost:straggler-late:lone-regular-at-every-maintenance`: under the load
`popleft; insert(0, x); append_pri(y, 0); popleft` the throughput test first becomes true at the
`insert(0, x)`, when the straggler is the only regular entry; `do_maintenance` then has nothing to
compare it with.  Before the repair `last_maintenance` was advanced all the same and every later
round repeated this.  Now `do_maintenance()` reports such a round as not done and the mark stays. -/

theorem regularMinMax_isSome (l : List (Entry PV)) (e : Entry PV) (he : e ∈ l) (hc : e.pri.cls ≠ 0) :
    ∃ lo hi, regularMinMax l = some (lo, hi) := by
  induction l with
  | nil => simp at he
  | cons a l ih =>
    simp only [regularMinMax]
    by_cases ha : a.pri.cls = 0
    · have : e ∈ l := by
        rcases List.mem_cons.mp he with rfl | h
        · exact absurd ha hc
        · exact h
      simpa [ha] using ih this
    · simp only [beq_iff_eq, ha, if_false]
      cases regularMinMax l with
      | none => exact ⟨_, _, rfl⟩
      | some p => exact ⟨_, _, rfl⟩

/-- **`lone_straggler_retried`** — `update_counters(True)` in a state where the throughput test fires
    while exactly one regular entry is queued and that entry is long-waiting (any number of positional
    entries, any history, boosting enabled):
    1. the maintenance mark is *not* advanced (counters otherwise as always);
    2. so the throughput test is still satisfied in the resulting state — maintenance is due again at
       the next insertion, not a full period later;
    3. when the next insertion is a regular `append_pri` and the test holds for the longer queue (it does
       whenever the queue is shorter than 10, the finding's case), maintenance runs in it, is recorded
       (`last_maintenance` advances), its queue is the model's `doMaintenance` of the queue with the new
       entry, and its candidate window is the same as in the skipped round: whatever was long-waiting
       then is long-waiting now. -/
theorem lone_straggler_retried (hl : H.Lawful (Entry.lt PV.lt)) (draw : Nat → Rat) (s : PosPQ)
    (hf : s.factor ≠ 0)
    (hfire : min (s.nIns + 1) s.nRem > max 10 s.len + s.lastMaint)
    (hone : s.q.pq.countP (fun e => e.pri.cls != 0) = 1)
    (e : Entry PV) (he : e ∈ s.q.pq) (hreg : e.pri.cls ≠ 0) (hold : e.pri.insertedAt < s.nIns + 1 - s.len) :
    let s' := updateCounters H s true draw
    (s'.lastMaint = s.lastMaint ∧ s'.nIns = s.nIns + 1 ∧ s'.nRem = s.nRem ∧ s'.len = s.len ∧
      s'.q = (doMaintenance H { s with nIns := s.nIns + 1 } draw).q) ∧
    min s'.nIns s'.nRem > max 10 s'.len + s'.lastMaint ∧
    (s.len < 10 → min (s.nIns + 2) s.nRem > max 10 (s.len + 1) + s.lastMaint) ∧
    ∀ x p, min (s.nIns + 2) s.nRem > max 10 (s.len + 1) + s.lastMaint →
      (s'.appendPri H x p draw).lastMaint = min (s.nIns + 2) s.nRem ∧
      (s'.appendPri H x p draw).q =
        (doMaintenance H { s' with q := s'.q.add H PV.lt { base := p, insertedAt := s'.nIns } x,
                                    nIns := s'.nIns + 1 } draw).q ∧
      (s'.appendPri H x p draw).nIns - (s'.appendPri H x p draw).len = s.nIns + 1 - s.len := by
  intro s'
  have hnd : maintenanceDone { s with nIns := s.nIns + 1 } = false := by
    have hany : s.q.pq.any (isStraggler (s.nIns + 1 - s.len)) = true :=
      List.any_eq_true.mpr ⟨e, he, by simp [isStraggler, hreg, hold]⟩
    have hf' : (s.factor == 0) = false := by simpa using hf
    simp [maintenanceDone, PosPQ.len, hf', hone] at hany ⊢
    exact hany
  have hspec := updateCounters_true_spec hl s draw
  have hlm : s'.lastMaint = s.lastMaint := by
    rcases hspec.2.2.2 with ⟨_, h⟩ | ⟨hn, _⟩
    · simpa [hnd] using h
    · exact absurd hfire hn
  have hq : s'.q = (doMaintenance H { s with nIns := s.nIns + 1 } draw).q := by
    show (updateCounters H s true draw).q = _
    simp only [updateCounters, if_true, PosPQ.len] at hfire ⊢
    simp only [PosPQ.len, hfire, if_true, hnd, Bool.false_eq_true, if_false]
  have hfire' : min s'.nIns s'.nRem > max 10 s'.len + s'.lastMaint := by
    rw [hspec.2.1, hspec.2.2.1, hspec.1, hlm]; exact hfire
  refine ⟨⟨hlm, hspec.2.1, hspec.2.2.1, hspec.1, hq⟩, hfire', ?_, ?_⟩
  · intro hlen
    have h1 : max 10 s.len = 10 := by omega
    have h2 : max 10 (s.len + 1) = 10 := by omega
    rw [h1] at hfire; rw [h2]; omega
  · intro x p hnext
    have ha := appendPri_counters hl draw s' x p
    rw [hspec.2.1, hspec.2.2.1, hspec.1, hlm] at ha
    have hlast : (s'.appendPri H x p draw).lastMaint = min (s.nIns + 2) s.nRem := by
      rcases ha.2.2.2 with ⟨_, h⟩ | ⟨hn, _⟩
      · exact h
      · exact absurd hnext hn
    refine ⟨hlast, ?_, ?_⟩
    · have hlen' : s'.q.pq.length = s.q.pq.length := hspec.1
      have hadd : (s'.q.add H PV.lt { base := p, insertedAt := s'.nIns } x).pq.length = s.q.pq.length + 1 := by
        simp only [PQ.add]; rw [(hl.push_perm _ _).length_eq]; simp [hlen']
      have hdone := maintenanceDone_after_add hl s' x { base := p, insertedAt := s'.nIns } (by simp) rfl
      have hn' : min (s'.nIns + 1) s'.nRem > max 10 (s.q.pq.length + 1) + s'.lastMaint := by
        rw [hspec.2.1, hspec.2.2.1, hlm]; exact hnext
      simp only [appendPri, updateCounters, if_true, PosPQ.len, hadd]
      simp only [hn', if_true, hdone]
    · rw [ha.2.1, ha.1]; omega

/-- … and in that next round the lone straggler is a boost candidate as soon as the entry that
    arrived is more urgent than the straggler's base priority; with `boost_overtakes` it then ends up
    below `min_pri` whenever `draw · factor > 1`. -/
theorem lone_straggler_candidate_next (hl : H.Lawful (Entry.lt PV.lt)) (s' : PosPQ) (x : Nat) (p : Rat)
    (e : Entry PV) (he : e ∈ s'.q.pq) (hreg : e.pri.cls ≠ 0)
    (hold : e.pri.insertedAt < s'.nIns + 1 - (s'.len + 1)) (hp : p < e.pri.base) :
    ∃ minPri hi,
      regularMinMax (s'.q.add H PV.lt { base := p, insertedAt := s'.nIns } x).pq = some (minPri, hi) ∧
      e ∈ (s'.q.add H PV.lt { base := p, insertedAt := s'.nIns } x).pq ∧
      candidate minPri (s'.nIns + 1 - (s'.len + 1)) e = true ∧
      ∀ draw : Nat → Rat, 1 < draw e.seq * s'.factor →
        (boostOne s'.factor minPri (s'.nIns + 1 - (s'.len + 1)) draw e).pri.priority < minPri := by
  have hperm : (s'.q.add H PV.lt { base := p, insertedAt := s'.nIns } x).pq.Perm
      (⟨{ base := p, insertedAt := s'.nIns }, s'.q.seq, x⟩ :: s'.q.pq) := by
    simp only [PQ.add]; exact hl.push_perm _ _
  have hnew : (⟨{ base := p, insertedAt := s'.nIns }, s'.q.seq, x⟩ : Entry PV) ∈
      (s'.q.add H PV.lt { base := p, insertedAt := s'.nIns } x).pq := hperm.symm.subset (by simp)
  have he' : e ∈ (s'.q.add H PV.lt { base := p, insertedAt := s'.nIns } x).pq :=
    hperm.symm.subset (List.mem_cons_of_mem _ he)
  obtain ⟨lo, hi, hm⟩ := regularMinMax_isSome _ e he' hreg
  have hspec := regularMinMax_spec _ lo hi hm
  have hlo : lo ≤ p := by
    have := hspec.1 _ hnew (by simp)
    simpa [PV.priority, Rat.add_zero] using this
  have hc : candidate lo (s'.nIns + 1 - (s'.len + 1)) e = true := by
    simp only [candidate, Bool.and_eq_true, bne_iff_ne, ne_eq, decide_eq_true_eq]
    exact ⟨⟨hreg, hold⟩, by grind⟩
  exact ⟨lo, hi, hm, he', hc, fun draw hr => boost_overtakes _ _ _ draw e hc hr⟩

/-! ## 4. Boosting never damages the container -/

/-- one operation with boosting at any factor and any draws: some reference list is still refined
    (same entries up to boosts, heap invariant, positional entries un-boosted) -/
theorem container_step_any (hl : H.Lawful (Entry.lt PV.lt)) (draw : Nat → Rat) {s : PosPQ} {L}
    (h : RP s L) (op : PosPQ.Op) : ∃ L', RP (PosPQ.step H draw s op).1 L' := by
  cases op with
  | appendPri x p => exact h.appendPri_any hl x p draw
  | insert p x => exact h.insert_any hl p x draw
  | popleft =>
    rcases h.popleft hl draw with ⟨_, hn⟩ | ⟨e, s', hp, _, _, hr, _⟩
    · exact ⟨L, by simpa only [PosPQ.step, hn] using h⟩
    · exact ⟨_, by simpa only [PosPQ.step, hp] using hr⟩
  | remove x =>
    have := h.remove hl x draw
    cases hr : s.remove H x draw with
    | none => exact ⟨L, by simpa only [PosPQ.step, hr] using h⟩
    | some s' =>
      rw [hr] at this
      obtain ⟨e, _, _, hrp, _⟩ := this
      exact ⟨_, by simpa only [PosPQ.step, hr] using hrp⟩
  | find key rm =>
    have := h.find hl key rm
    cases hr : s.find H key rm with
    | mk o s' =>
      rw [hr] at this
      cases o with
      | none => obtain ⟨rfl, _⟩ := this; exact ⟨L, by simpa only [PosPQ.step, hr] using h⟩
      | some x =>
        obtain ⟨e, _, _, _, hrest⟩ := this
        cases rm with
        | false =>
          simp only [Bool.false_eq_true, if_false] at hrest
          subst hrest
          exact ⟨L, by simpa only [PosPQ.step, hr] using h⟩
        | true =>
          simp only [if_true] at hrest
          exact ⟨_, by simpa only [PosPQ.step, hr] using hrest.1⟩
  | reschedule key np =>
    have := h.reschedule hl key np
    cases hr : s.reschedule H key np with
    | mk o s' =>
      rw [hr] at this
      cases o with
      | none => obtain ⟨rfl, _⟩ := this; exact ⟨L, by simpa only [PosPQ.step, hr] using h⟩
      | some x =>
        obtain ⟨e, _, _, _, _, hcase⟩ := this
        rcases hcase with ⟨_, rfl⟩ | ⟨_, rfl | hrp⟩
        · exact ⟨L, by simpa only [PosPQ.step, hr] using h⟩
        · exact ⟨L, by simpa only [PosPQ.step, hr] using h⟩
        · exact ⟨_, by simpa only [PosPQ.step, hr] using hrp⟩
  | rescheduleAll gp => exact ⟨_, (h.rescheduleAll hl gp).1⟩
  | iter => exact ⟨L, by simpa only [PosPQ.step] using h.iter.1⟩
  | clear => exact ⟨[], RP.clear s⟩

/-- **`container_inv_any_factor`** — for every history of `PosPriorityQueue` operations, with
    starvation boosting at *any* factor and any sequence of random draws, the queue remains a
    faithful container: its heap invariant holds, its entries are a permutation of a reference list
    with distinct increasing arrival stamps (nothing lost, nothing duplicated), and positional
    entries never carry a boost. -/
theorem container_inv_any_factor (hl : H.Lawful (Entry.lt PV.lt)) (draw : Nat → Rat)
    (ops : List PosPQ.Op) : ∀ {s : PosPQ} {L}, RP s L → ∃ L', RP (PosPQ.runFrom H draw s ops).1 L' := by
  induction ops with
  | nil => intro s L h; exact ⟨L, h⟩
  | cons op ops ih =>
    intro s L h
    obtain ⟨L1, h1⟩ := container_step_any hl draw h op
    exact ih h1

/-! ## Non-vacuity -/

example : ({} : PosPQ).CInv := by simp [PosPQ.CInv]

/-- a concrete candidate with a concrete overshooting draw -/
example : candidate 0 5 ⟨{ base := 1, insertedAt := 2 }, 7, 42⟩ = true ∧
    (1 : Rat) < (9 / 10 : Rat) * (6 / 5 : Rat) := by
  constructor
  · decide
  · grind

/-- the state of the finding `boost:straggler-late:lone-regular-at-every-maintenance` at the moment
    `insert(0, x)` calls `update_counters(True)`: a positional entry and the straggler (priority 5,
    inserted at 0), 20 insertions and 20 removals so far, no maintenance yet.  It meets the hypotheses
    of `lone_straggler_retried` … -/
def findingState : PosPQ :=
  { q := ⟨22, [⟨{ base := 0, insertedAt := 20, cls := 0 }, 21, 7⟩, ⟨{ base := 5, insertedAt := 0 }, 0, 1⟩]⟩,
    lastMaint := 0, nIns := 20, nRem := 20 }

theorem findingState_factor : findingState.factor ≠ 0 := by
  show ((6 : Rat) / 5) ≠ 0
  grind

theorem findingState_mem :
    (⟨{ base := 5, insertedAt := 0 }, 0, 1⟩ : Entry PV) ∈ findingState.q.pq := by
  simp [findingState]

example : findingState.factor ≠ 0 ∧
    min (findingState.nIns + 1) findingState.nRem > max 10 findingState.len + findingState.lastMaint ∧
    findingState.q.pq.countP (fun e => e.pri.cls != 0) = 1 ∧
    ∃ e ∈ findingState.q.pq, e.pri.cls ≠ 0 ∧ e.pri.insertedAt < findingState.nIns + 1 - findingState.len :=
  ⟨findingState_factor, by decide, by decide, _, findingState_mem, by decide, by decide⟩

/-- … so for every lawful heap library and every draw the maintenance mark stays at 0 there, the
    trigger stays armed, and the `append_pri(y, 0)` that follows in the load runs a recorded maintenance
    round in which the straggler is a candidate (0 < 5) -/
example (hl : H.Lawful (Entry.lt PV.lt)) (draw : Nat → Rat) (y : Nat) :
    (updateCounters H findingState true draw).lastMaint = 0 ∧
    ((updateCounters H findingState true draw).appendPri H y 0 draw).lastMaint = 20 := by
  have h := lone_straggler_retried hl draw findingState findingState_factor (by decide) (by decide)
    ⟨{ base := 5, insertedAt := 0 }, 0, 1⟩ findingState_mem (by decide) (by decide)
  exact ⟨h.1.1, (h.2.2.2 y 0 (by decide)).1⟩

end Asynkit.C19
