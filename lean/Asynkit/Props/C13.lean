/-
C13 — PriorityLock: mutual exclusion and no lost wake-up under cancel/interrupt.

Property theorems only; the invariant and its preservation proof are in
Asynkit/Lemmas/C13{Basic,Frame,Step}.lean, the model in Asynkit/Model/Lock.lean.

`Reachable s` quantifies over every initial task population, every worker program (workers are
not scripted in the model: after `Ev.resume` the running task may perform any enabled operation),
every schedule (any runnable task may be resumed) and every placement of `cancel i`,
`throw i e`, `interrupt i e` (any `e`) - while waiting, woken-not-run, holding, or anywhere else.
The model is PriorityLock with fixes/C13-double-wakeup.patch (and the two C12 patches) applied; on the unrepaired
`_wake_up_first` `woken_waiter_finds_lock_free` is false (corpus/C13/double-wakeup.json).
-/
import Asynkit.Lemmas.C13Progress

namespace Asynkit.C13
open Asynkit.Lock

/-- The full invariant holds in every reachable state. -/
theorem lock_inv {s : State} (h : Reachable s) : Inv s := reachable_inv h

/-- `locked()` reflects ownership. -/
theorem locked_iff_owner {s : State} (h : Reachable s) (k : Nat) :
    (s.locks k).locked = true ↔ (s.locks k).owner ≠ none := by
  rw [((lock_inv h).linv k).lockedOwner]
  cases (s.locks k).owner <;> simp

/-- At most one task is inside a lock.  `owns` is a ghost record of every `_take_lock` that was not
    followed by `release`; `_take_lock` itself is modelled without its assertion. -/
theorem mutual_exclusion {s : State} (h : Reachable s) {k i j : Nat}
    (hi : k ∈ (s.tasks i).owns) (hj : k ∈ (s.tasks j).owns) : i = j := by
  have a := (((lock_inv h).linv k).ownerOwns i).mpr hi
  have b := (((lock_inv h).linv k).ownerOwns j).mpr hj
  rw [a] at b; injection b

/-- `_owning` is exactly the task inside. -/
theorem owner_iff_owns {s : State} (h : Reachable s) (k i : Nat) :
    (s.locks k).owner = some i ↔ k ∈ (s.tasks i).owns := ((lock_inv h).linv k).ownerOwns i

/-- `_holding_locks` and `_waiting_on` agree with real ownership and real waiting. -/
theorem holding_waiting_consistent {s : State} (h : Reachable s) (i : Nat) :
    (s.tasks i).holding = (if (s.tasks i).prio.isSome then (s.tasks i).owns else []) ∧
    (∀ k, (s.tasks i).waitingOn = some k ↔ ((s.tasks i).prio.isSome ∧ (s.tasks i).pos = .acq k)) ∧
    (∀ k, (s.tasks i).pos = .acq k ↔ ∃ w ∈ (s.locks k).waiters, w.task = i) := by
  have I := lock_inv h
  refine ⟨I.holdingOwns i, I.waitingPos i, fun k => ⟨fun hp => ?_, fun ⟨w, hw, e⟩ => ?_⟩⟩
  · obtain ⟨p, hp', e⟩ := (I.linv k).queued i hp
    obtain ⟨w, hw, e'⟩ := List.mem_map.mp hp'
    exact ⟨w, hw, by rw [← e, ← e']; rfl⟩
  · have := ((I.linv k).wok (wt w) (List.mem_map_of_mem hw)).1
    simpa [wt, e] using this

/-- A task never waits for a lock it holds itself. -/
theorem waits_not_for_own_lock {s : State} (h : Reachable s) {i k : Nat}
    (hp : (s.tasks i).pos = .acq k) : (s.locks k).owner ≠ some i :=
  fun e => (lock_inv h).waitNotOwn i k hp ((((lock_inv h).linv k).ownerOwns i).mp e)

/-- **No lost wake-up.**  A free lock with queued waiters always has a wake-up in flight: some
    queued waiter's future is done, or a queued waiter's task sits in the ready queue with an
    exception pending (it was interrupted while its future was still pending). -/
theorem wake_in_flight {s : State} (h : Reachable s) (k : Nat)
    (hfree : (s.locks k).locked = false) (hq : (s.locks k).waiters ≠ []) :
    ∃ w ∈ (s.locks k).waiters, w.fut.done = true ∨ (s.tasks w.task).status = .ready true := by
  have hne : s.wl k ≠ [] := by simpa [State.wl] using hq
  obtain ⟨p, hp, hd⟩ := ((lock_inv h).linv k).wif hfree hne
  obtain ⟨w, hw, e⟩ := List.mem_map.mp hp
  exact ⟨w, hw, by rw [← e] at hd; exact hd⟩

/-- ... and that waiter can really run: its task is woken or ready, so `resume` is enabled for
    it whenever no task is running. -/
theorem wake_in_flight_runnable {s : State} (h : Reachable s) (k : Nat) (hc : s.cur = none)
    (hfree : (s.locks k).locked = false) (hq : (s.locks k).waiters ≠ []) :
    ∃ w ∈ (s.locks k).waiters, (Ev.resume w.task).enabled s = true := by
  obtain ⟨w, hw, hd⟩ := wake_in_flight h k hfree hq
  refine ⟨w, hw, ?_⟩
  have hok := (((lock_inv h).linv k).wok (wt w) (List.mem_map_of_mem hw)).2
  simp only [wt] at hok
  simp only [Ev.enabled, hc, Option.isNone_none, Bool.true_and]
  cases hs : (s.tasks w.task).status with
  | blocked =>
    rw [hs] at hok; simp only [WOK] at hok
    rcases hd with hd | hd
    · rw [hok] at hd; simp [Fut.done] at hd
    · rw [hs] at hd; cases hd
  | woken c => rfl
  | ready x => rfl
  | running => rw [hs] at hok; simp [WOK] at hok
  | done => rw [hs] at hok; simp [WOK] at hok

/-- A waiter that resumes normally (woken by a result, no cancellation pending) finds the lock
    without owner: the `assert self._owning is None` of `_take_lock` can never fail. -/
theorem woken_waiter_finds_lock_free {s : State} (h : Reachable s) {i k : Nat}
    (hp : (s.tasks i).pos = .acq k) (hs : (s.tasks i).status = .woken false) :
    (s.locks k).owner = none ∧ (s.locks k).locked = false := by
  have I := (lock_inv h).linv k
  obtain ⟨p, hp', e⟩ := I.queued i hp
  have hok := (I.wok p hp').2
  rw [e, hs] at hok
  simp only [WOK] at hok
  have hfree : (s.locks k).locked = false := by
    cases hl : (s.locks k).locked with
    | false => rfl
    | true => exact absurd (by simpa using hok) (I.lockedNoResult hl p hp')
  refine ⟨?_, hfree⟩
  have := I.lockedOwner; rw [hfree] at this
  cases ho : (s.locks k).owner with
  | none => rfl
  | some o => rw [ho] at this; cases this

/-- At quiescence (every task finished) no lock has an owner or waiters and no task records a
    held or awaited lock. -/
theorem quiescent_clean {s : State} (h : Reachable s) (hq : ∀ i, (s.tasks i).status = .done) :
    (∀ k, (s.locks k).locked = false ∧ (s.locks k).owner = none ∧ (s.locks k).waiters = []) ∧
    (∀ i, (s.tasks i).holding = [] ∧ (s.tasks i).waitingOn = none ∧ (s.tasks i).owns = []) := by
  have I := lock_inv h
  have hown : ∀ k, (s.locks k).owner = none := by
    intro k
    cases ho : (s.locks k).owner with
    | none => rfl
    | some o =>
      have := ((I.linv k).ownerOwns o).mp ho
      rw [(I.doneClean o (hq o)).1] at this; cases this
  constructor
  · intro k
    refine ⟨?_, hown k, ?_⟩
    · rw [(I.linv k).lockedOwner, hown k]; rfl
    · cases hw : (s.locks k).waiters with
      | nil => rfl
      | cons w ws =>
        have := ((I.linv k).wok (wt w) (by simp [State.wl, hw])).2
        simp only [wt] at this; rw [hq w.task] at this; simp [WOK] at this
  · intro i
    have hd := I.doneClean i (hq i)
    refine ⟨?_, ?_, hd.1⟩
    · rw [I.holdingOwns i, hd.1]; simp
    · cases hw : (s.tasks i).waitingOn with
      | none => rfl
      | some k =>
        have := ((I.waitingPos i k).mp hw).2
        rw [hd.2] at this; cases this

/-- `release()` by a task that does not hold the lock (another task holds it, or nobody) is refused
    before anything is modified: the event is always accepted by the model when the running task is
    not the owner, and the state is unchanged - so every invariant above survives erroneous releases
    at any point of any interleaving. -/
theorem refused_release_changes_nothing (s : State) (k i : Nat) (hc : s.cur = some i)
    (hne : (s.locks k).owner ≠ some i) :
    (Ev.badRelease k).enabled s = true ∧ s.apply (.badRelease k) = s := by
  refine ⟨?_, rfl⟩
  simp only [Ev.enabled, hc, bne_iff_ne, ne_eq]; exact hne

/-! ### progress

"If no more faults occur and holders release, every acquirer that is not cancelled gets the lock",
as a finite statement about *drain runs*.  A drain step of lock `k` (`Lock.DrainStep`) is: some task
queued on `k` whose handle is ready is resumed - it takes the lock, or, having been cancelled or
interrupted earlier, gives up and passes the wake-up on - and then yields (`sleep`) or finishes; no
cancel / throw / interrupt occurs.  `progress` says, for **every** run of such steps from any
reachable state (whatever faults happened before):
  * it is finite - at most as long as the queue it started with - and ends in a reachable state;
  * if it cannot be extended (`hmax`), then the lock is held or nobody is queued any more; and a
    holder is either the old one or one of the tasks that were queued at the start;
so a free lock never strands a waiter: as long as somebody is queued on a free lock a further step
exists (`drain_step_exists`), and each waiter resumed without a pending exception becomes the owner
(`woken_waiter_gets_lock`).  What is left to the environment is exactly the hypothesis of the
property: a holder must release (then `release` re-establishes `wake_in_flight`). -/

/-- while a free lock has waiters and no task is running, a drain step exists -/
theorem drain_step_exists {s : State} (h : Reachable s) (k : Nat) (hc : s.cur = none)
    (hfree : (s.locks k).locked = false) (hq : (s.locks k).waiters ≠ []) :
    ∃ s', DrainStep k s s' := drainStep_exists h hc hfree hq

/-- **progress** -/
theorem progress {s s' : State} {k n : Nat} (h : Reachable s) (hc : s.cur = none)
    (r : DrainRun k s s' n) :
    Reachable s' ∧ n ≤ (s.locks k).waiters.length ∧
    ((s'.locks k).owner = (s.locks k).owner ∨
      ∃ w ∈ (s.locks k).waiters, (s'.locks k).owner = some w.task) ∧
    ((∀ s'', ¬ DrainStep k s' s'') →
      (s'.locks k).locked = true ∨ (s'.locks k).waiters = []) := by
  obtain ⟨hr, hle, hcur, _, hown⟩ := drainRun_spec h r
  refine ⟨hr, by omega, ?_, fun hmax => ?_⟩
  · rcases hown with e | ⟨t, ht, e⟩
    · exact Or.inl e
    · obtain ⟨w, hw, rfl⟩ := List.mem_map.mp ht
      exact Or.inr ⟨w, hw, e⟩
  · have hc' : s'.cur = none := by
      cases n with
      | zero => cases r; exact hc
      | succ m => exact hcur (Nat.succ_pos m)
    cases hl : (s'.locks k).locked with
    | true => exact Or.inl rfl
    | false =>
      right
      cases hw : (s'.locks k).waiters with
      | nil => rfl
      | cons w ws =>
        obtain ⟨s'', d⟩ := drainStep_exists hr hc' hl (by rw [hw]; simp)
        exact absurd d (hmax s'')

/-- a queued waiter that is resumed without an exception pending (woken by the hand-over, never
    cancelled or interrupted since) owns the lock afterwards; any resumed waiter leaves the queue -/
theorem woken_waiter_gets_lock {s : State} (h : Reachable s) {i k : Nat}
    (hp : (s.tasks i).pos = .acq k) (hen : (Ev.resume i).enabled s = true) :
    Reachable (s.apply (.resume i)) ∧
    ((s.apply (.resume i)).locks k).waiters.length < (s.locks k).waiters.length ∧
    (resumeExc (s.tasks i) = false → ((s.apply (.resume i)).locks k).owner = some i) := by
  refine ⟨Reachable.step _ h hen, resume_queue_shrinks (lock_inv h) hp, fun hx => ?_⟩
  show ((s.doResume i).locks k).owner = some i
  rw [(resume_queued_spec s hp).1]; simp [hx]

/-- old name, kept: the variant step on its own -/
theorem progress_partial {s : State} (h : Reachable s) {i k : Nat}
    (hp : (s.tasks i).pos = .acq k) (hen : (Ev.resume i).enabled s = true) :
    Reachable (s.apply (.resume i)) ∧
    ((s.apply (.resume i)).locks k).waiters.length < (s.locks k).waiters.length ∧
    (resumeExc (s.tasks i) = false → ((s.apply (.resume i)).locks k).owner = some i) :=
  woken_waiter_gets_lock h hp hen

/-! ### non-vacuity: a concrete reachable state with a contended free lock -/

/-- two tasks; task 0 takes lock 0 and sleeps, task 1 queues, task 0 releases: the lock is free,
    task 1 is queued and its future is set (the wake-up is in flight). -/
def demo : State :=
  let s0 : State := { tasks := fun i => if i < 2 then { status := .ready false } else {}, fuel := 4 }
  [Ev.resume 0, .acquire 0, .sleep, .resume 1, .acquire 0, .resume 0, .release 0, .sleep].foldl
    State.apply s0

example : (demo.locks 0).locked = false ∧ (demo.locks 0).waiters.map (·.task) = [1] ∧
    (demo.locks 0).waiters.map (·.fut) = [.result] ∧ (demo.tasks 1).status = .woken false := by
  decide

/-- non-vacuity of `progress`: from `demo` the (only) drain run resumes task 1, which takes the lock -/
example : DrainRun 0 demo ((demo.apply (.resume 1)).apply .sleep) 1 ∧
    (((demo.apply (.resume 1)).apply .sleep).locks 0).owner = some 1 := by
  refine ⟨DrainRun.cons ⟨1, .sleep, by decide, by decide, Or.inl rfl, by decide, rfl⟩ (DrainRun.nil _), by decide⟩

end Asynkit.C13
