/-
C09 — runnable, blocked and current tasks partition all tasks.

Model: Asynkit/Model/Kernel.lean (asyncio Future/Task + asynkit scheduling API, with the two
repairs fixes/C09-*.patch).  Every theorem quantifies over *all* event sequences from the empty
loop (`Reachable`): all interleavings of task creation, task steps (with any behaviour of the
coroutine: bare yield, bad yield, yield of any future - pending or done -, finish), future
result/exception/cancellation, extra callbacks, Task.cancel directly and through
`call_soon(task.cancel)`, task_throw, task_reinsert (hence task_interrupt/task_switch), and
stopping / restarting the loop.
-/
import Asynkit.Lemmas.C09

deriving instance DecidableEq for Except

namespace Asynkit.C09
open Asynkit.Kernel

/-- `kernel_inv`: the scheduler invariant holds in every reachable state. -/
theorem kernel_inv {s : State} (h : Reachable s) : Inv s := reachable_inv h

/-- Readable form of the invariant: a task that is not done and not running is either
    * queued exactly once (one step / wake-up handle), registered on no future, and its
      `_fut_waiter` is `None` or a finished future;  or
    * registered exactly once, on the pending future that is its `_fut_waiter`, and not queued. -/
theorem exactly_one_place {s : State} (h : Reachable s) (t : TaskId)
    (hd : (s.tasks t).done = false) (hc : current s ≠ some t) :
    (H s t = 1 ∧ (∀ f, W s t f = 0) ∧
        (∀ f, (s.tasks t).futWaiter = some f → (s.futs f).st ≠ .pending)) ∨
    (H s t = 0 ∧ ∃ f, (s.tasks t).futWaiter = some f ∧ (s.futs f).st = .pending ∧ W s t f = 1 ∧
        ∀ g, g ≠ f → W s t g = 0) := by
  have hi := reachable_inv h
  have hc' : s.ctx ≠ .inTask t := by
    intro hc2; apply hc; simp [current, hc2]
  cases hb : isBlocked s t with
  | false =>
    left
    refine ⟨hi.runnable t hd hc' hb, ?_, ?_⟩
    · intro f; exact List.count_eq_zero.mpr (hi.no_reg hb f)
    · intro f hf; simpa [isBlocked, hf] using hb
  | true =>
    right
    have ⟨h0, h1⟩ := hi.blocked t hd hc' hb
    refine ⟨h0, ?_⟩
    simp only [isBlocked] at hb
    cases hfw : (s.tasks t).futWaiter with
    | none => simp [hfw] at hb
    | some f =>
      refine ⟨f, rfl, by simpa [hfw] using hb, h1 f hfw, ?_⟩
      intro g hg
      apply List.count_eq_zero.mpr
      intro hm
      have := hi.wakeFw t g hm
      rw [hfw] at this
      exact hg (Option.some.inj this).symm

/-- `isRunnable_iff_inReady`: for a task that is not done and not running, `task_is_runnable`
    (and the negation of `task_is_blocked`) agree with real membership of the ready queue,
    as computed by `ready_find`. -/
theorem isRunnable_iff_inReady {s : State} (h : Reachable s) (t : TaskId)
    (hd : (s.tasks t).done = false) (hc : current s ≠ some t) :
    readyFind s t = isRunnable s t ∧ isRunnable s t = !isBlocked s t := by
  have hi := reachable_inv h
  have hc' : s.ctx ≠ .inTask t := by
    intro hc2; apply hc; simp [current, hc2]
  cases hb : isBlocked s t with
  | false =>
    have := hi.runnable t hd hc' hb
    have hr : readyFind s t = true := readyFind_iff_H.mpr (by omega)
    simp [isRunnable, hb, hd, hr]
  | true =>
    have := (hi.blocked t hd hc' hb).1
    have hr : readyFind s t = false := by
      cases h' : readyFind s t with
      | false => rfl
      | true => have := readyFind_iff_H.mp h'; omega
    simp [isRunnable, hb, hr]

/-- `api_total` + `partition`: in every reachable state and in each of the three calling contexts
    (inside a task, inside a plain callback / between handles, outside the stopped loop with the
    `loop` argument) both set functions return (their internal assertions hold, no RuntimeError),
    and `all_tasks` is the disjoint union of the runnable tasks, the blocked tasks and the current
    task. -/
theorem partition {s : State} (h : Reachable s) (explicitLoop : Bool)
    (hctx : explicitLoop = true ∨ s.ctx ≠ .stopped) :
    ∃ R B, runnableTasks s explicitLoop = .ok R ∧ blockedTasks s explicitLoop = .ok B ∧
      (∀ t, t ∈ allTasks s ↔ (t ∈ R ∨ t ∈ B ∨ current s = some t)) ∧
      (∀ t, t ∈ R → t ∉ B ∧ current s ≠ some t) ∧
      (∀ t, t ∈ B → current s ≠ some t) ∧
      (∀ t, t ∈ R ↔ readyFind s t = true) ∧
      (∀ t, t ∈ R → isRunnable s t = true) ∧
      (∀ t, t ∈ B → isBlocked s t = true) := by
  have hi := reachable_inv h
  have hloop : loopOk s explicitLoop = true := by
    simp only [loopOk]
    rcases hctx with h1 | h1
    · simp [h1]
    · simp [h1]
  have hcur : ∀ t, current s = some t ↔ s.ctx = .inTask t := by
    intro t; simp only [current]; split <;> simp_all
  -- facts about queued tasks
  have hq : ∀ t, 0 < H s t → (s.tasks t).done = false ∧ s.ctx ≠ .inTask t ∧ isBlocked s t = false := by
    intro t ht
    have hd := H_pos_not_done hi ht
    have hc : s.ctx ≠ .inTask t := by
      intro hc; have := (hi.cur t hc).2.1; omega
    refine ⟨hd, hc, ?_⟩
    cases hb : isBlocked s t with
    | false => rfl
    | true => have := (hi.blocked t hd hc hb).1; omega
  have hR : ∀ t, t ∈ (readyTasks s).eraseDups ↔ 0 < H s t := by
    intro t; rw [List.mem_eraseDups, mem_readyTasks]
  have hall : ((readyTasks s).eraseDups.all fun t => !isBlocked s t) = true := by
    rw [List.all_eq_true]
    intro t ht
    have := (hq t ((hR t).mp ht)).2.2
    simp [this]
  have hrun : ∀ e, loopOk s e = true → runnableTasks s e = .ok (readyTasks s).eraseDups := by
    intro e he
    simp only [runnableTasks, he, hall]
    simp
  let B := ((allTasks s).filter fun t => !(readyTasks s).eraseDups.contains t).filter
    fun t => current s != some t
  have hB : ∀ t, t ∈ B ↔ ((s.tasks t).done = false ∧ H s t = 0 ∧ s.ctx ≠ .inTask t) := by
    intro t
    have hc1 : (!(readyTasks s).eraseDups.contains t) = true ↔ H s t = 0 := by
      cases hc : (readyTasks s).eraseDups.contains t with
      | true =>
        have := (hR t).mp (List.contains_iff_mem.mp hc)
        simp; omega
      | false =>
        have : ¬ (0 < H s t) := by
          intro h0; have := List.contains_iff_mem.mpr ((hR t).mpr h0); rw [hc] at this; cases this
        simp; omega
    have hc2 : (current s != some t) = true ↔ s.ctx ≠ .inTask t := by
      rw [bne_iff_ne, ne_eq, hcur]
    simp only [B, List.mem_filter, mem_allTasks hi, hc1, hc2]
    constructor
    · rintro ⟨⟨h1, h2⟩, h3⟩; exact ⟨h1, h2, h3⟩
    · rintro ⟨h1, h2, h3⟩; exact ⟨⟨h1, h2⟩, h3⟩
  have hBb : ∀ t, t ∈ B → isBlocked s t = true := by
    intro t ht
    have ⟨h1, h2, h3⟩ := (hB t).mp ht
    cases hb : isBlocked s t with
    | true => rfl
    | false => have := hi.runnable t h1 h3 hb; omega
  have hblk : blockedTasks s explicitLoop = .ok B := by
    have hallB : (B.all (isBlocked s)) = true := by
      rw [List.all_eq_true]; exact hBb
    simp only [blockedTasks, hloop, hrun true (by simp [loopOk])]
    have hallB' : (((allTasks s).filter fun t => !(readyTasks s).eraseDups.contains t).filter
        fun t => current s != some t).all (isBlocked s) = true := hallB
    simp only [Bool.not_true, Bool.false_eq_true, if_false, hallB', if_true]
    rfl
  refine ⟨_, B, hrun _ hloop, hblk, ?_, ?_, ?_, ?_, ?_, hBb⟩
  · intro t
    rw [mem_allTasks hi, hR, hB, hcur]
    constructor
    · intro hd
      by_cases hc : s.ctx = .inTask t
      · exact Or.inr (Or.inr hc)
      · by_cases h0 : 0 < H s t
        · exact Or.inl h0
        · exact Or.inr (Or.inl ⟨hd, by omega, hc⟩)
    · rintro (h1 | h1 | h1)
      · exact (hq t h1).1
      · exact h1.1
      · exact (hi.cur t h1).1
  · intro t ht
    rw [hR] at ht
    rw [hB]
    refine ⟨by intro h'; omega, ?_⟩
    intro hc; exact (hq t ht).2.1 ((hcur t).mp hc)
  · intro t ht hc
    exact ((hB t).mp ht).2.2 ((hcur t).mp hc)
  · intro t; rw [hR, readyFind_iff_H]
  · intro t ht
    have ⟨h1, _, h3⟩ := hq t ((hR t).mp ht)
    simp [isRunnable, h1, h3]

/-- `api_total`, spelled out for the three calling contexts of the property. -/
theorem api_total {s : State} (h : Reachable s) :
    (∀ t, s.ctx = .inTask t →
      (∃ R, runnableTasks s false = .ok R) ∧ (∃ B, blockedTasks s false = .ok B)) ∧
    (s.ctx = .idle →
      (∃ R, runnableTasks s false = .ok R) ∧ (∃ B, blockedTasks s false = .ok B)) ∧
    ((∃ R, runnableTasks s true = .ok R) ∧ (∃ B, blockedTasks s true = .ok B)) := by
  refine ⟨?_, ?_, ?_⟩
  · intro t hc
    obtain ⟨R, B, h1, h2, _⟩ := partition h false (Or.inr (by simp [hc]))
    exact ⟨⟨R, h1⟩, ⟨B, h2⟩⟩
  · intro hc
    obtain ⟨R, B, h1, h2, _⟩ := partition h false (Or.inr (by simp [hc]))
    exact ⟨⟨R, h1⟩, ⟨B, h2⟩⟩
  · obtain ⟨R, B, h1, h2, _⟩ := partition h true (Or.inl rfl)
    exact ⟨⟨R, h1⟩, ⟨B, h2⟩⟩

/-- No internal error of Task.__step / __wakeup (InvalidStateError) or of task_throw (its
    `assert task is current_task()`) is reachable. -/
theorem no_kernel_error {s : State} (h : Reachable s) : s.err = false := (reachable_inv h).noErr

/-! ### non-vacuity: a reachable state exercising every clause, and the defect the repair removes -/

/-- create two tasks, run both to a pending future, queue `task.cancel` for one of them, throw into
    the other, cancel a future: all kinds of handles and a blocked task are present. -/
def demo : State :=
  run init [.resume, .newFut, .newFut, .create true, .create false, .begin, .endStep (.yieldFut 0),
    .begin, .endStep (.yieldFut 1), .callSoonOther 1, .taskThrow 0 false, .cancelFut 1, .create true,
    .begin]

example : Reachable demo := ⟨_, rfl⟩
example : demo.ctx = .idle ∧ demo.ready.length = 3 ∧ isBlocked demo 1 = false ∧ readyFind demo 1 = true
    ∧ runnableTasks demo false = .ok [0, 1, 2] ∧ blockedTasks demo false = .ok [] := by decide

/-- a state with a blocked task, a running task and a queued `task.cancel` -/
def demo2 : State :=
  run init [.resume, .newFut, .create true, .create false, .begin, .endStep (.yieldFut 0),
    .callSoonOther 0, .begin]

example : Reachable demo2 := ⟨_, rfl⟩
example : demo2.ctx = .inTask 1 ∧ runnableTasks demo2 false = .ok [] ∧ blockedTasks demo2 false = .ok [0]
    ∧ allTasks demo2 = [0, 1] := by decide

/-- `Task.cancel()` refused by a pending future (asyncio.gather whose children are all done but whose
    own completion is still queued): the task keeps waiting, now with `_must_cancel` set.  It is
    blocked, not runnable, not queued - the partition still holds. -/
def demo3 : State :=
  run init [.resume, .newFut, .create false, .begin, .endStep (.yieldFut 0), .setNoCancel 0 true,
    .cancelTask 0]

example : Reachable demo3 := ⟨_, rfl⟩
example : (demo3.tasks 0).mustCancel = true ∧ isBlocked demo3 0 = true ∧ isRunnable demo3 0 = false ∧
    readyFind demo3 0 = false ∧ runnableTasks demo3 false = .ok [] ∧ blockedTasks demo3 false = .ok [0] := by
  decide

/-- "`_must_cancel` is only ever set on a scheduled task" is false: a `task_is_runnable` that trusts it
    disagrees with the ready queue in `demo3`. -/
def isRunnableShortcut (s : State) (t : TaskId) : Bool :=
  if (s.tasks t).done then false else if (s.tasks t).mustCancel then true else !isBlocked s t

example : isRunnableShortcut demo3 0 = true ∧ readyFind demo3 0 = false := by decide

/-- What the unrepaired `task_from_handle` did: every task-bound callback denotes its task. -/
def taskFromHandleOld : Handle → Option TaskId
  | .otherBound t => some t
  | h => taskFromHandle h

/-- Witness of the defect removed by fixes/C09-task-from-handle-step-wakeup-only.patch: in `demo2`
    the old function reports the blocked task 0 as queued, so `runnable_tasks` fails its assertion. -/
example : (demo2.ready.filterMap taskFromHandleOld) = [0] ∧ isBlocked demo2 0 = true := by decide

end Asynkit.C09
