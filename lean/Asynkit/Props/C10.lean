/-
C10 — priority loop: most urgent first, FIFO among equals, positions override.
Property theorems only (helper lemmas live in Asynkit/Lemmas/C10.lean).

The ready queue of the priority loop is `PosPQ` (the model of `PosPriorityQueue`); its entries
are ordered by `Entry.lt PV.lt` = `PriEntry.__lt__` over `PriorityValue.__lt__`, i.e.
lexicographically by (priority class, base + boost, arrival sequence) — `entry_order_is_lex`.
All theorems hold for every lawful `heapq` (`H.Lawful`).
-/
import Asynkit.Lemmas.C10
import Asynkit.Model.Sched
import Asynkit.Props.C08

namespace Asynkit.C10
open Asynkit.PosPQ

variable {H : HeapLib (Entry PV)}

/-- the order on ready-queue entries is (class, key, seq), compared lexicographically; the key
    of a regular entry is what `get_priority` returned when it was queued or last rescheduled
    (plus its boost), class 0 = placed positionally. -/
theorem entry_order_is_lex (a b : Entry PV) :
    elt a b = true ↔
      (a.pri.cls < b.pri.cls ∨ (a.pri.cls = b.pri.cls ∧
        (a.pri.priority < b.pri.priority ∨ (a.pri.priority = b.pri.priority ∧ a.seq < b.seq)))) :=
  entryLt_iff_lex a b

/-- every state the loop can put its ready queue into: the operations `PrioritySchedulingMixin`
    and `_run_once` perform (`posOps`), from the empty queue, with any priorities, positions,
    keys, boost factor and random draws -/
inductive Reach (H : HeapLib (Entry PV)) : PosPQ → Prop
  | init (factor : Rat) : Reach H { factor := factor }
  | append {s} (x : Nat) (p : Rat) (draw : Nat → Rat) : Reach H s → Reach H (appendPri H s x p draw)
  | insert {s} (pos x : Nat) (draw : Nat → Rat) : Reach H s → Reach H (PosPQ.insert H s pos x draw)
  | popleft {s} (draw : Nat → Rat) (x : Nat) (s' : PosPQ) :
      Reach H s → PosPQ.popleft H s draw = some (x, s') → Reach H s'
  | remove {s} (x : Nat) (draw : Nat → Rat) (s' : PosPQ) :
      Reach H s → PosPQ.remove H s x draw = some s' → Reach H s'
  | find {s} (key : Nat → Bool) (rm : Bool) : Reach H s → Reach H (PosPQ.find H s key rm).2
  | reschedule {s} (key : Nat → Bool) (np : Rat) : Reach H s → Reach H (PosPQ.reschedule H s key np).2

/-- the heap invariant holds in every reachable state -/
theorem reach_isHeap (hH : H.Lawful elt) (s : PosPQ) (h : Reach H s) : IsHeap elt s.q.pq := by
  induction h with
  | init f => exact isHeap_nil
  | append x p draw _ ih => exact isHeap_appendPri hH _ x p draw ih
  | insert pos x draw _ ih => exact isHeap_insert hH _ pos x draw ih
  | popleft draw x s' _ hp ih => exact isHeap_popleft hH _ draw ih x s' hp
  | remove x draw s' _ hr ih => exact isHeap_remove hH _ x draw ih s' hr
  | find key rm _ ih => exact isHeap_find hH _ key rm ih
  | reschedule key np _ ih => exact isHeap_reschedule hH _ key np ih

/-- **most urgent first**: in every reachable state, the entry `popleft` hands to the loop is
    minimal for (class, key, seq) among all queued entries (no queued entry is smaller), it is
    the only entry that leaves, and an empty result means an empty queue. -/
theorem popleft_min (hH : H.Lawful elt) (s : PosPQ) (hs : Reach H s) (draw : Nat → Rat) :
    match PosPQ.popleft H s draw with
    | none => s.q.pq = []
    | some (x, s') => ∃ e l, s.q.pq = e :: l ∧ e.obj = x ∧ (∀ e' ∈ s.q.pq, elt e' e = false) ∧
        s'.q.pq.Perm l := by
  have hheap := reach_isHeap hH s hs
  have hp := PQ.popEntry_spec hH s.q hheap
  unfold PosPQ.popleft
  cases hpe : s.q.popEntry H PV.lt with
  | none => rw [hpe] at hp; exact hp
  | some r =>
    obtain ⟨e, q'⟩ := r
    rw [hpe] at hp
    obtain ⟨l, h1, h2, _⟩ := hp
    refine ⟨e, l, h1, rfl, ?_, ?_⟩
    · rw [h1]; exact isHeap_head_min (Entry.lt_swo PV.lt_swo) e l (h1 ▸ hheap)
    · have : (updateCounters H { s with q := q' } false draw).q = q' := by
        unfold updateCounters; simp only [Bool.false_eq_true, if_false]; split <;> rfl
      rw [this]; exact h2

/-- `popleft_min` read through the lexicographic order: the popped entry has the least class;
    among that class the least priority value; among those the earliest arrival. -/
theorem popleft_most_urgent (hH : H.Lawful elt) (s : PosPQ) (hs : Reach H s) (draw : Nat → Rat)
    (x : Nat) (s' : PosPQ) (h : PosPQ.popleft H s draw = some (x, s')) :
    ∃ e ∈ s.q.pq, e.obj = x ∧ ∀ e' ∈ s.q.pq,
      e.pri.cls ≤ e'.pri.cls ∧
      (e'.pri.cls = e.pri.cls → e.pri.priority ≤ e'.pri.priority ∧
        (e'.pri.priority = e.pri.priority → e.seq ≤ e'.seq)) := by
  have hm := popleft_min hH s hs draw
  rw [h] at hm
  obtain ⟨e, l, h1, h2, h3, _⟩ := hm
  refine ⟨e, by rw [h1]; simp, h2, ?_⟩
  intro e' he'
  have hn := h3 e' he'
  have hl := not_lex_of_entryLt_false e' e hn
  refine ⟨by omega, fun hc => ⟨?_, fun hp => ?_⟩⟩
  · grind
  · grind

/-- draining a reachable queue yields its entries sorted by (class, key, seq) -/
theorem drain_sorted (hH : H.Lawful elt) (s : PosPQ) (hs : Reach H s) (n : Nat) (draw : Nat → Rat) :
    PosPQ.drain H n s draw = (PQ.drain H PV.lt n s.q).map (·.obj) ∧
    Sorted elt (PQ.drain H PV.lt n s.q) ∧ (∀ e ∈ PQ.drain H PV.lt n s.q, e ∈ s.q.pq) :=
  ⟨drain_eq_pqDrain n s draw, PQ.drain_sorted' hH PV.lt_swo n s.q (reach_isHeap hH s hs),
   PQ.drain_mem hH n s.q (reach_isHeap hH s hs)⟩

/-- **positions override**: in the drain order no regular entry precedes a positional
    (class 0) entry, whatever their priorities.  (That positional entries keep their requested
    relative order is `posInsert_spec` of C17.) -/
theorem positional_first (l : List (Entry PV)) (h : Sorted elt l) :
    l.Pairwise (fun a b => a.pri.cls ≤ b.pri.cls) := by
  refine List.Pairwise.imp ?_ h
  intro a b hba
  have := not_lex_of_entryLt_false b a hba
  omega

/-- **most urgent first** along the whole drain order, within a class -/
theorem urgent_first (l : List (Entry PV)) (h : Sorted elt l) :
    l.Pairwise (fun a b => a.pri.cls = b.pri.cls → a.pri.priority ≤ b.pri.priority) := by
  refine List.Pairwise.imp ?_ h
  intro a b hba hc
  have := not_lex_of_entryLt_false b a hba
  grind

/-- **FIFO among equals**: entries of the same class and equal priority value leave in the
    order they arrived (their sequence numbers) -/
theorem fifo_among_equals (l : List (Entry PV)) (h : Sorted elt l) :
    l.Pairwise (fun a b => a.pri.cls = b.pri.cls → a.pri.priority = b.pri.priority → a.seq ≤ b.seq) := by
  refine List.Pairwise.imp ?_ h
  intro a b hba hc hp
  have := not_lex_of_entryLt_false b a hba
  grind

/-- **re-keying through inheritance never moves a positional entry**: `task_reschedule` of a
    task whose queued handle is positional (class 0) leaves the queue exactly as it is. -/
theorem reschedule_keeps_class (s : PosPQ) (key : Nat → Bool) (np : Rat) (e : Entry PV)
    (hf : (s.q.find H PV.lt key false).1 = some e) (hc : e.pri.cls = 0) :
    PosPQ.reschedule H s key np = (some e.obj, s) := by
  unfold PosPQ.reschedule
  simp [hf, hc]

/-- … and a regular entry stays regular: the new value is class 1 -/
theorem reschedule_regular_stays_regular (s : PosPQ) (key : Nat → Bool) (np : Rat) (e : Entry PV)
    (hf : (s.q.find H PV.lt key false).1 = some e) (hc : e.pri.cls ≠ 0) :
    PosPQ.reschedule H s key np =
      ((s.q.reschedule H PV.lt key { base := np, insertedAt := s.nIns }).1,
       { s with q := (s.q.reschedule H PV.lt key { base := np, insertedAt := s.nIns }).2 }) ∧
    ({ base := np, insertedAt := s.nIns } : PV).cls = 1 := by
  unfold PosPQ.reschedule
  simp [hf, hc]

/-- **equal priorities ⇒ like the plain loop, boosting at any setting**: when all regular
    entries have the same priority, a maintenance round changes nothing, whatever the boost
    factor and the random draws; so every operation leaves the queue exactly as with boosting
    disabled, and appending at that priority keeps the priorities equal.  (That such a queue
    drains like the plain list is the `ListLike` hypothesis of C08, discharged by C17.) -/
theorem equal_pri_like_plain_loop (c : Rat) (s : PosPQ) (h : EqualPri c s.q.pq) (draw : Nat → Rat) :
    doMaintenance H s draw = s ∧
    (∀ ins, (updateCounters H s ins draw).q = s.q) ∧
    (∀ x, (H.Lawful elt) → EqualPri c (appendPri H s x c draw).q.pq) := by
  refine ⟨doMaintenance_equal c s draw h, ?_, ?_⟩
  · intro ins
    unfold updateCounters
    cases ins
    · simp only [Bool.false_eq_true, if_false]; split <;> rfl
    · simp only [if_true]
      split
      · split <;> rw [doMaintenance_equal c _ draw (by exact h)]
      · rfl
  · intro x hH
    have hq : (appendPri H s x c draw).q = s.q.add H PV.lt { base := c, insertedAt := s.nIns } x := by
      unfold appendPri
      have hE : EqualPri c (s.q.add H PV.lt { base := c, insertedAt := s.nIns } x).pq := by
        intro e he hc
        have := (hH.push_perm s.q.pq ⟨{ base := c, insertedAt := s.nIns }, s.q.seq, x⟩).subset he
        rcases List.mem_cons.mp this with rfl | hm
        · exact ⟨rfl, rfl⟩
        · exact h e hm hc
      unfold updateCounters
      simp only [if_true]
      split
      · split <;> rw [doMaintenance_equal c _ draw (by exact hE)]
      · rfl
    rw [hq]
    intro e he hc
    have := (hH.push_perm s.q.pq ⟨{ base := c, insertedAt := s.nIns }, s.q.seq, x⟩).subset he
    rcases List.mem_cons.mp this with rfl | hm
    · exact ⟨rfl, rfl⟩
    · exact h e hm hc

/-- **with all priorities equal the priority loop schedules exactly like the plain scheduling
    loop, whatever the history and whatever the boosting**: run any admissible history of queue
    operations (`call_soon`/`queue_insert` at priority 0, `queue_insert_pos`, `call_pos`,
    `queue_find(remove)`, `queue_remove`, the loop's `popleft`) on the priority queue — any lawful
    heapq, any boost factor, any random draws — and on the deque of `SchedulingSelectorEventLoop`:
    the queues hold the same handles in the same order after every step, and the same handles
    have been run in the same order. -/
theorem equal_pri_like_plain_loop_history (hH : H.Lawful elt) (draw : Nat → Rat) (factor : Rat)
    (evs : List Sched.QEv)
    (ha : C08.AllAdmissible (Sched.posOps H draw) Sched.absP { q := ({ factor := factor } : PosPQ) } evs) :
    Sched.absP (C08.runEvs (Sched.posOps H draw) { q := ({ factor := factor } : PosPQ) } evs).q
      = (C08.runEvs Sched.listOps { q := ([] : List Nat) } evs).q ∧
    (C08.runEvs (Sched.posOps H draw) { q := ({ factor := factor } : PosPQ) } evs).out
      = (C08.runEvs Sched.listOps { q := ([] : List Nat) } evs).out := by
  have h := C08.listLike_simulation (O2 := Sched.listOps) (abs2 := id) (Inv2 := fun q => q.Nodup)
    (C08.listLike_priority_loop hH draw) (C08.listLike_deque_loops.mono (fun _ _ => trivial))
    ({ factor := factor } : PosPQ) ([] : List Nat) (C08.priority_loop_init factor).1 List.nodup_nil
    (C08.priority_loop_init factor).2 rfl evs ha
  exact h

/-! ### the documented priority domain -/

/-- the documented `Priority` enum; its members *are* floats (`class Priority(float, Enum)`) -/
inductive Priority where | LOW | NORMAL | HIGH
deriving DecidableEq, Repr

def Priority.value : Priority → Rat
  | .LOW => 10
  | .NORMAL => 0
  | .HIGH => -10

/-- what a task's `priority_value` may be: an int, a float (dyadic rational) or an enum member -/
inductive PriVal where
  | int (i : Int)
  | float (m : Int) (e : Nat)      -- m / 2^e
  | enum (p : Priority)

/-- the number a priority value denotes — total on the whole domain (`base_priority + boost`
    and `<` are defined for ints, floats and `Priority` members alike) -/
def PriVal.toRat : PriVal → Rat
  | .int i => i
  | .float m e => (m : Rat) / ((2 ^ e : Nat) : Rat)
  | .enum p => p.value

/-- **no TypeError on the documented domain**: whatever mixture of ints, floats and `Priority`
    members the queued priorities are, any two distinct queue entries are comparable — exactly
    one of `a < b`, `b < a` holds — so `heapq` can always order them; and equal priority values
    of different representation (0, 0.0, Priority.NORMAL) are the same key. -/
theorem priority_domain_total (x y : PriVal) (ia ib sa sb oa ob ca cb : Nat) (hs : sa ≠ sb) :
    let a : Entry PV := ⟨{ base := x.toRat, insertedAt := ia, cls := ca }, sa, oa⟩
    let b : Entry PV := ⟨{ base := y.toRat, insertedAt := ib, cls := cb }, sb, ob⟩
    (elt a b = true ∧ elt b a = false) ∨ (elt a b = false ∧ elt b a = true) := by
  intro a b
  have hab := entry_order_is_lex a b
  have hba := entry_order_is_lex b a
  cases h1 : elt a b <;> cases h2 : elt b a <;> simp_all <;> grind

theorem priority_representations_agree :
    (PriVal.int 0).toRat = (PriVal.enum .NORMAL).toRat ∧ (PriVal.float 0 0).toRat = (PriVal.int 0).toRat ∧
    (PriVal.enum .HIGH).toRat = (PriVal.int (-10)).toRat ∧ (PriVal.float 1 1).toRat = (1 / 2 : Rat) := by
  refine ⟨by decide +kernel, by decide +kernel, by decide +kernel, by decide +kernel⟩

/-! ### non-vacuity -/

abbrev HS : HeapLib (Entry PV) := cpyHeap _

/-- a reachable state with a positional entry (obj 3, via insert 0), a more urgent regular entry
    (obj 2 at -5) and an earlier regular one (obj 1 at 0): the positional entry is popped first -/
example : Reach HS (PosPQ.insert HS (appendPri HS (appendPri HS {} 1 0 (fun _ => 0)) 2 (-5) (fun _ => 0)) 0 3 (fun _ => 0)) :=
  .insert 0 3 _ (.append 2 (-5) _ (.append 1 0 _ (.init _)))

example : PosPQ.drain HS 5 (PosPQ.insert HS (appendPri HS (appendPri HS {} 1 0 (fun _ => 0)) 2 (-5) (fun _ => 0)) 0 3
    (fun _ => 0)) (fun _ => 0) = [3, 2, 1] := by decide +kernel

/-- `EqualPri` holds on a non-trivial queue (two regular entries at 0, one positional) -/
example : EqualPri 0 (PosPQ.insert HS (appendPri HS (appendPri HS {} 1 0 (fun _ => 0)) 2 0 (fun _ => 0)) 1 3
    (fun _ => 0)).q.pq := by
  unfold EqualPri
  decide +kernel

end Asynkit.C10
