import Asynkit.Model.Sched
namespace Asynkit.C10
theorem placeholder : True := trivial
end Asynkit.C10
