/-
C15 — interrupts reach their target exactly once, immediately, and only it.

Model: Asynkit/Model/Kernel.lean.  `taskThrow` transcribes the Python-task branch of
interrupt.task_throw; `await task_interrupt(t, e)` is the event sequence
`taskThrow t; reinsert t 0; endStep yieldNone` performed by the calling task.  All theorems hold
in every reachable state, i.e. after every sequence of creations, steps (any coroutine behaviour),
future completions, cancels (direct and via call_soon), throws, interrupts and reinserts - repeated
interrupts, interrupts racing with the completion of the awaited future (woken-not-run), and
tasks interrupting each other are all instances.
-/
import Asynkit.Lemmas.C15

namespace Asynkit.C15
open Asynkit.Kernel

/-- The exception object of the throw performed in state `s`. -/
def excOf (s : State) (cd : Bool) : Exc := .intr s.nexc cd

/-- `throw_makes_runnable`: for a task that is not done and not running - never started, blocked
    on a future, woken but not yet run, or merely queued - and not in a pending-cancellation state (`_must_cancel` unset; if it is not blocked, its finished waiter not cancelled),
    `task_throw` succeeds and afterwards the task has exactly one ready handle, `step(exc)`, its
    wake-up is registered nowhere, `_fut_waiter` is `None`, and it is reported runnable. -/
theorem throw_makes_runnable {s : State} (h : Reachable s) (t : TaskId) (cd : Bool)
    (hd : (s.tasks t).done = false) (hc : s.ctx ≠ .inTask t)
    (hm : (s.tasks t).mustCancel = false)
    (hfc : isBlocked s t = false → fwCancelled s (s.tasks t) = false) :
    (taskThrow s t cd).2 = .ok ∧
    H (taskThrow s t cd).1 t = 1 ∧
    Handle.step t (some (excOf s cd)) ∈ (taskThrow s t cd).1.ready ∧
    (∀ f, W (taskThrow s t cd).1 t f = 0) ∧
    ((taskThrow s t cd).1.tasks t).futWaiter = none ∧
    isRunnable (taskThrow s t cd).1 t = true ∧ readyFind (taskThrow s t cd).1 t = true := by
  have hi := reachable_inv h
  have hi' := taskThrow_inv hi t cd
  -- shape of the result
  have hshape : (taskThrow s t cd).2 = .ok ∧
      Handle.step t (some (excOf s cd)) ∈ (taskThrow s t cd).1.ready ∧
      ((taskThrow s t cd).1.tasks t).futWaiter = none ∧
      ((taskThrow s t cd).1.tasks t).done = false ∧ (taskThrow s t cd).1.ctx = s.ctx := by
    unfold taskThrow
    simp only [hd, hm]
    cases hbo : blockedOn s (s.tasks t) with
    | some f => simp [throwFin, setTask, setFut, excOf, hd]
    | none =>
      have hb := blockedOn_none hbo
      have h2 := hfc hb
      simp only [h2]
      have hH := hi.runnable t hd hc hb
      cases hpop : popLast (isOf t) s.ready with
      | none => have := popLast_none.mp hpop; simp only [H] at hH; omega
      | some hr => simp [throwFin, setTask, excOf, hd]
  obtain ⟨h1, h2, h3, h4, h5⟩ := hshape
  have hb' : isBlocked (taskThrow s t cd).1 t = false := by simp [isBlocked, h3]
  have hH := hi'.runnable t h4 (by rw [h5]; exact hc) hb'
  refine ⟨h1, hH, h2, ?_, h3, by simp [isRunnable, hb', h4], ?_⟩
  · intro f; exact List.count_eq_zero.mpr (hi'.no_reg hb' f)
  · simp only [readyFind, List.any_eq_true]
    exact ⟨_, h2, by simp [isOf, taskFromHandle]⟩

/-- `throw_refused_no_change`: a finished task, the calling task itself, and a task with a pending
    cancellation (`_must_cancel`, or a cancelled `_fut_waiter`) are refused with RuntimeError and
    nothing changes (except the harness-level counter that names exception objects). -/
theorem throw_refused_no_change {s : State} (h : Reachable s) (t : TaskId) (cd : Bool)
    (hr : (s.tasks t).done = true ∨ s.ctx = .inTask t ∨ (s.tasks t).mustCancel = true ∨
      (isBlocked s t = false ∧ fwCancelled s (s.tasks t) = true)) :
    taskThrow s t cd = ({ s with nexc := s.nexc + 1 }, .refused) := by
  have hi := reachable_inv h
  unfold taskThrow
  simp only
  cases hd : (s.tasks t).done with
  | true => simp
  | false =>
    simp only [Bool.false_eq_true, if_false]
    cases hm : (s.tasks t).mustCancel with
    | true => simp
    | false =>
      simp only [Bool.false_eq_true, if_false]
      have hnb : (s.ctx = .inTask t ∨ (isBlocked s t = false ∧ fwCancelled s (s.tasks t) = true)) := by
        rcases hr with hr | hr | hr | hr
        · rw [hd] at hr; cases hr
        · exact Or.inl hr
        · rw [hm] at hr; cases hr
        · exact Or.inr hr
      have hb : isBlocked s t = false := by
        rcases hnb with hc | hc
        · simp [isBlocked, (hi.cur t hc).2.2]
        · exact hc.1
      have hbo : blockedOn s (s.tasks t) = none := by
        cases hbo : blockedOn s (s.tasks t) with
        | none => rfl
        | some f =>
          have := blockedOn_some hbo
          simp [isBlocked, this.1, this.2] at hb
      simp only [hbo]
      rcases hnb with hc | ⟨_, hc⟩
      · have hH := (hi.cur t hc).2.1
        have hpop : popLast (isOf t) s.ready = none := popLast_none.mpr hH
        simp only [hpop, hc, if_true]
        split <;> rfl
      · simp [hc]

/-- `throw_exactly_once` (ghost delivery log): in every reachable state, for every interrupt id,
    "queued as a `step(exc)` handle" and "raised inside a task body" together happen at most once -
    an interrupt is never delivered twice and never still queued after delivery -, a queued or
    delivered interrupt belongs to the task it was thrown at, and ids are never shared. -/
theorem throw_exactly_once {s : State} (h : Reachable s) :
    (∀ id, PI s id + DI s id ≤ 1) ∧
    (∀ t id cd, Handle.step t (some (.intr id cd)) ∈ s.ready → (t, id) ∈ s.thrown) ∧
    (∀ t id cd, (t, Exc.intr id cd) ∈ s.log → (t, id) ∈ s.thrown) ∧
    (∀ t t' id, (t, id) ∈ s.thrown → (t', id) ∈ s.thrown → t = t') :=
  let g := reachable_ghost h
  ⟨g.once, g.pendT, g.delivT, g.thrownUniq⟩

/-- Delivery: when the loop runs the queued `step(exc)` handle, `exc` is raised in the task at its
    current suspension point (appended to the delivery log, the task becomes current) - unless a
    cancel request arrived in between and `exc` is not a CancelledError, in which case
    Task.__step (CPython) raises CancelledError instead. -/
theorem throw_delivered_when_run {s : State} (h : Reachable s) (t : TaskId) (e : Exc)
    (rest : List Handle) (hidle : s.ctx = .idle) (hr : s.ready = .step t (some e) :: rest) :
    (beginHandle s).2 = .ok ∧ (beginHandle s).1.ctx = .inTask t ∧ (beginHandle s).1.ready = rest ∧
    (beginHandle s).1.log = s.log ++
      [(t, if (s.tasks t).mustCancel && !e.isCancel then Exc.cancelled else e)] := by
  have hi := reachable_inv h
  have hH : 0 < H s t := by simp [H, hr, isOf, taskFromHandle]
  have hd := H_pos_not_done hi hH
  unfold beginHandle
  simp only [hidle, hr, runStep, hd]
  cases hm : (s.tasks t).mustCancel <;> cases hx : e.isCancel <;> simp [setTask]

/-- Only two things remove a queued interrupt: the loop running it, and a later task_throw on the
    same task (supersession).  Every other event keeps it queued. -/
theorem throw_stays_queued {s : State} (t : TaskId) (e : Exc) (ev : Event)
    (hq : Handle.step t (some e) ∈ s.ready)
    (h1 : ev ≠ .begin) (h2 : ∀ cd, ev ≠ .taskThrow t cd) :
    Handle.step t (some e) ∈ (step s ev).1.ready := by
  cases ev with
  | create py => simp [step, setTask, hq]
  | newFut => exact hq
  | setResult f => simp only [step]; split; exact mem_completeFut hq; exact hq
  | setExc f => simp only [step]; split; exact mem_completeFut hq; exact hq
  | cancelFut f => simp only [step]; split; exact mem_completeFut hq; exact hq
  | addCb f k => simp only [step]; split <;> simp [setFut, callSoon, hq]
  | setNoCancel f b => simp [step, setFut, hq]
  | cancelTask u => simp only [step]; split; exact hq; exact mem_cancelTask hq
  | callSoonOther u => simp [step, callSoon, hq]
  | callSoonCb k => simp [step, callSoon, hq]
  | taskThrow u cd =>
    have hne : u ≠ t := by intro hu; subst hu; exact h2 cd rfl
    simp only [step, taskThrow]
    split
    · exact hq
    · split
      · exact hq
      split
      · simp [throwFin, setTask, setFut, hq]
      · split
        · exact hq
        · split
          · split <;> exact hq
          · rename_i h r hpop
            have ⟨hof, hperm⟩ := popLast_some hpop
            simp only [throwFin, setTask, List.mem_append]
            left
            have := hperm.mem_iff.mp hq
            rcases List.mem_cons.mp this with hm | hm
            · subst hm; simp [isOf, taskFromHandle] at hof; exact absurd hof.symm hne
            · exact hm
  | reinsert u pos =>
    simp only [step, reinsert]
    split
    · exact hq
    · rename_i h r hpop
      have ⟨_, hperm⟩ := popLast_some hpop
      have hp2 : (r.insertIdx (min pos r.length) h).Perm s.ready :=
        (List.perm_insertIdx h r (Nat.min_le_right _ _)).trans hperm.symm
      exact hp2.mem_iff.mpr hq
  | begin => exact absurd rfl h1
  | endStep a =>
    simp only [step]
    split
    · cases a with
      | yieldNone => simp [endStep, callSoon, hq]
      | yieldErr => simp [endStep, callSoon, hq]
      | finish => simp [endStep, setTask, hq]
      | yieldFut f =>
        simp only [endStep]
        split
        · split
          · exact mem_completeFut (s := setTask (setFut s f _) _ _) hq
          · simp [setTask, setFut, hq]
        · simp [setTask, callSoon, hq]
    · exact hq
  | pause => simp only [step]; split <;> exact hq
  | resume => simp only [step]; split <;> exact hq

/-- `awaited_untouched`: an accepted throw leaves every future in its state, removes from the
    awaited future exactly the target's own wake-up (all other callbacks stay, in order), and the
    later completion of that future creates no handle for the target. -/
theorem awaited_untouched {s : State} (h : Reachable s) (t : TaskId) (cd : Bool) :
    (∀ f, ((taskThrow s t cd).1.futs f).st = (s.futs f).st) ∧
    (∀ f, ((taskThrow s t cd).1.futs f).cbs = (s.futs f).cbs ∨
          ((taskThrow s t cd).1.futs f).cbs = (s.futs f).cbs.filter (· != .wake t)) ∧
    (∀ f, ((taskThrow s t cd).1.futs f).cbs.filter (fun c => c != Cb.wake t) =
          (s.futs f).cbs.filter (fun c => c != Cb.wake t)) ∧
    ((taskThrow s t cd).2 = .ok → ∀ f st,
      H (completeFut (taskThrow s t cd).1 f st) t = H (taskThrow s t cd).1 t) := by
  have hi := reachable_inv h
  have hi' := taskThrow_inv hi t cd
  have hfuts : ∀ f, (taskThrow s t cd).1.futs f = s.futs f ∨
      (taskThrow s t cd).1.futs f =
        { (s.futs f) with cbs := (s.futs f).cbs.filter (· != .wake t) } := by
    intro f
    unfold taskThrow
    simp only
    split
    · left; rfl
    · split
      · left; rfl
      split
      · rename_i g _
        simp only [throwFin, setTask, setFut]
        by_cases hfg : f = g
        · subst hfg; right; simp
        · left; simp [hfg]
      · split
        · left; rfl
        · split
          · split <;> (left; rfl)
          · left; rfl
  refine ⟨?_, ?_, ?_, ?_⟩
  · intro f; rcases hfuts f with h1 | h1 <;> rw [h1]
  · intro f; rcases hfuts f with h1 | h1 <;> rw [h1] <;> simp
  · intro f; rcases hfuts f with h1 | h1 <;> rw [h1]; simp [List.filter_filter]
  · intro hok f st
    -- after an accepted throw the task is not blocked, hence registered nowhere
    have hfw : ((taskThrow s t cd).1.tasks t).futWaiter = none := by
      revert hok
      unfold taskThrow
      simp only
      split
      · intro h'; cases h'
      · split
        · intro h'; cases h'
        split
        · intro _; simp [throwFin, setTask]
        · split
          · intro h'; cases h'
          · split
            · split <;> (intro h'; cases h')
            · intro _; simp [throwFin, setTask]
    have hb : isBlocked (taskThrow s t cd).1 t = false := by simp [isBlocked, hfw]
    have hno := hi'.no_reg hb f
    simp only [completeFut]
    split
    · simp only [H, List.countP_append, countP_isOf_map]
      have := List.count_eq_zero.mpr hno
      omega
    · rfl

/-- No internal error (InvalidStateError out of Task.__step / __wakeup run on a finished or
    re-routed task, failed assertion in task_throw) is reachable: the loop's exception handler is
    never called because of an interrupt. -/
theorem no_kernel_error {s : State} (h : Reachable s) : s.err = false := (reachable_inv h).noErr

/-- `interrupt_runs_next`: `await task_interrupt(t, e)` executed by the running task `a`
    (= task_throw; _task_reinsert(t, 0); sleep(0)) leaves `t`'s `step(e)` handle at the head of the
    ready queue and `a`'s own handle at its end; the next thing the loop does is raise `e` in `t`;
    `a` is not current and resumes only through its queued handle.  (An accepted throw implies that
    the target carried no cancellation request, so it is `e` itself that is raised.) -/
theorem interrupt_runs_next {s : State} (h : Reachable s) (a t : TaskId) (cd : Bool)
    (_ha : s.ctx = .inTask a) (hok : (taskThrow s t cd).2 = .ok) :
    let s1 := (taskThrow s t cd).1
    let s2 := (reinsert s1 t 0).1
    let s3 := endStep s2 a .yieldNone
    (reinsert s1 t 0).2 = .ok ∧
    s3.ready.head? = some (.step t (some (excOf s cd))) ∧
    s3.ready.getLast? = some (.step a none) ∧
    s3.ctx = .idle ∧
    (beginHandle s3).1.ctx = .inTask t ∧
    (beginHandle s3).1.log = s.log ++ [(t, excOf s cd)] ∧
    (s.tasks t).mustCancel = false := by
  intro s1 s2 s3
  have hi := reachable_inv h
  -- the throw was accepted: shape of s1
  have hs1 : ∃ r, s1.ready = r ++ [.step t (some (excOf s cd))] ∧ r.countP (isOf t) = 0 ∧
      s1.ctx = s.ctx ∧ s1.log = s.log ∧ (s1.tasks t).mustCancel = false ∧
      (s.tasks t).mustCancel = false ∧
      (s1.tasks t).done = false := by
    have hd : (s.tasks t).done = false := by
      cases hd : (s.tasks t).done with
      | false => rfl
      | true => simp [taskThrow, hd] at hok
    have hm : (s.tasks t).mustCancel = false := by
      cases hm : (s.tasks t).mustCancel with
      | false => rfl
      | true => simp [taskThrow, hd, hm] at hok
    simp only [s1]
    revert hok
    unfold taskThrow
    simp only [hd, hm]
    cases hbo : blockedOn s (s.tasks t) with
    | some f =>
      intro _
      have hfw := blockedOn_some hbo
      have hb : isBlocked s t = true := by simp [isBlocked, hfw.1, hfw.2]
      have hnc : s.ctx ≠ .inTask t := by
        intro hc; have := (hi.cur t hc).2.2; rw [hfw.1] at this; cases this
      have hH := (hi.blocked t hd hnc hb).1
      exact ⟨s.ready, by simp [throwFin, setTask, setFut, excOf], hH, rfl, rfl,
        by simp [throwFin, setTask, setFut, hm], trivial, by simp [throwFin, setTask, setFut, hd]⟩
    | none =>
      have hb := blockedOn_none hbo
      simp only
      cases hmc : fwCancelled s (s.tasks t) with
      | true => simp
      | false =>
        simp only [Bool.false_eq_true, if_false]
        cases hpop : popLast (isOf t) s.ready with
        | none => simp only; intro hok'; by_cases hcx : s.ctx = Ctx.inTask t <;> simp [hcx] at hok'
        | some hr =>
          obtain ⟨hh, r⟩ := hr
          intro _
          have ⟨hof, hperm⟩ := popLast_some hpop
          have hcnt : H s t = r.countP (isOf t) + 1 := by
            simp only [H]; rw [hperm.countP_eq, List.countP_cons]; simp [hof]
          have hnc : s.ctx ≠ .inTask t := by
            intro hc; have := (hi.cur t hc).2.1; omega
          have h1 := hi.runnable t hd hnc hb
          exact ⟨r, by simp [throwFin, setTask, excOf], by omega, rfl, rfl,
            by simp [throwFin, setTask, hm], trivial, by simp [throwFin, setTask, hd]⟩
  obtain ⟨r, hr1, hr0, hc1, hl1, hm1, hnb, hd1⟩ := hs1
  -- popLast on r ++ [step t e] with no other handle of t picks the last element
  have hpop : popLast (isOf t) s1.ready = some (.step t (some (excOf s cd)), r) := by
    rw [hr1]
    clear hr1
    induction r with
    | nil => simp [popLast, isOf, taskFromHandle]
    | cons x xs ih =>
      rw [List.countP_cons] at hr0
      have hx : isOf t x = false := by
        cases hx : isOf t x with
        | false => rfl
        | true => simp [hx] at hr0
      have hxs : xs.countP (isOf t) = 0 := by omega
      simp [popLast, ih hxs]
  have hs2 : s2 = { s1 with ready := .step t (some (excOf s cd)) :: r } := by
    simp only [s2, reinsert, hpop]
    simp
  have hre : (reinsert s1 t 0).2 = .ok := by simp [reinsert, hpop]
  have hs3r : s3.ready = .step t (some (excOf s cd)) :: (r ++ [.step a none]) := by
    simp [s3, hs2, endStep, callSoon]
  have hs3c : s3.ctx = .idle := by simp [s3, endStep, callSoon]
  have hs3t : s3.tasks = s1.tasks := by simp [s3, hs2, endStep, callSoon]
  have hs3l : s3.log = s.log := by simp [s3, hs2, endStep, callSoon, hl1]
  refine ⟨hre, by simp [hs3r], by rw [hs3r, ← List.cons_append, List.getLast?_concat], hs3c, ?_, ?_, hnb⟩
  · simp [beginHandle, hs3c, hs3r, runStep, hs3t, hd1, setTask]
  · simp [beginHandle, hs3c, hs3r, runStep, hs3t, hd1, hm1, setTask, hs3l]

/-! ### non-vacuity -/

/-- two Python tasks; task 0 blocks on future 0; task 1 interrupts it (`await task_interrupt`):
    the hypotheses of `interrupt_runs_next` hold in a reachable state. -/
def demoEvs : List Event :=
  [.resume, .newFut, .create true, .create true, .begin, .endStep (.yieldFut 0), .begin]

def demo : State := run init demoEvs

example : Reachable demo := ⟨_, rfl⟩
example : demo.ctx = .inTask 1 ∧ (taskThrow demo 0 false).2 = .ok := by decide

/-- mutual interruption: task 1 interrupts task 0, task 0 (woken with the exception) interrupts task 1
    back while task 1 is still suspended inside its own `await task_interrupt`. -/
def mutualDemo : State :=
  run init (demoEvs ++ [.taskThrow 0 false, .reinsert 0 0, .endStep .yieldNone, .begin,
            .taskThrow 1 true, .reinsert 1 0, .endStep .yieldNone, .begin])

example : Reachable mutualDemo := ⟨_, rfl⟩
example : mutualDemo.ctx = .inTask 1 ∧ mutualDemo.log = [(0, .intr 0 false), (1, .intr 1 true)] ∧
    mutualDemo.ready = [.step 0 none] ∧ mutualDemo.err = false := by decide

/-- refusals: self, done (never created), pending cancellation -/
example : (taskThrow demo 1 false).2 = .refused ∧ (taskThrow demo 7 false).2 = .refused ∧
    (taskThrow (step (step demo (.endStep .yieldNone)).1 (.cancelTask 1)).1 1 false).2 = .refused := by
  decide

/-- a throw racing with the completion of the awaited future (woken, not yet run) -/
example : let s := (step (step demo (.endStep .yieldNone)).1 (.setResult 0)).1
    s.ready = [.step 1 none, .wakeup 0 0] ∧ (taskThrow s 0 true).2 = .ok ∧
    (taskThrow s 0 true).1.ready = [.step 1 none, .step 0 (some (.intr 0 true))] := by decide

end Asynkit.C15
