import Asynkit.Lemmas.C09
namespace Asynkit.C15
open Asynkit.Kernel
theorem placeholder {s : State} (h : Reachable s) : s.err = false := (reachable_inv h).noErr
end Asynkit.C15
