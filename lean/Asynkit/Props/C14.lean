/-
C14 — Conditions: lock held on every exit from wait(), ordered notify, none lost.
Property theorems only; model in Asynkit/Model/Cond.lean, lemmas in Asynkit/Lemmas/C14.lean.

`Reachable k s` = `s` is reached from the initial state of class `k` (PriorityCondition `pc` /
InterruptCondition `ic`) by *any* finite sequence of enabled events: task steps of any number of
waiters and other lock users, `notify`/`notify_all` by the lock owner, and `deliver j e cancel`
by the environment — any CancelledError-derived exception instance `e`, at any moment at which
task `j` is suspended inside `wait()` (waiting on its future, after the future was set, queued on
the lock), any number of times.  The underlying lock is abstract (see Model/Cond.lean): its
mutual exclusion is assumed (C13 for PriorityLock, stdlib for asyncio.Lock), nothing else.
-/
import Asynkit.Lemmas.C14
import Asynkit.Lemmas.C14Count
import Asynkit.Model.PQ

namespace Asynkit.C14
open Asynkit.Cond

/-- **Lock held on every exit.**  Every `return`/`raise` transition of `wait()` — and of
`wait_for()` — of either class happens in a state where the caller owns the lock, whatever was
delivered and whenever. (`exits` is the ghost log of all such transitions, `ownerAt` the lock
owner at that moment.) -/
theorem wait_exit_holds_lock {k : Kind} {s : State} (h : Reachable k s) :
    ∀ x ∈ s.exits, x.ownerAt = some x.tid :=
  (good_reachable h).owner

/-- **Exception identity.**  An exception leaving `wait()`/`wait_for()` is one of the instances
that were delivered to that task — never a fresh one. -/
theorem exception_identity {k : Kind} {s : State} (h : Reachable k s) :
    ∀ x ∈ s.exits, ∀ e, x.out = .raise e → e ∈ x.delivAt :=
  (good_reachable h).ident

/-- **Ordered notify** (PriorityCondition).  `(notifyFn …).2` lists the waiters *in the order in which the
walk sets their futures* (hence in which their wake-ups are queued), so the first conjunct also says that
this order is the (priority, arrival) order — for `notify_all` and over-long `n` as for any other `n`.
  For a waiter queue `q` without repetitions,
`_notify(n)` sets the futures of exactly the first `max n 1` not-yet-notified waiters in
(priority at wait start, arrival) order [`n = 0` wakes one: the loop tests `count >= n` after
setting], leaves every other future alone, and that order is sorted and a permutation of the
queue.  Hence (`notify_order_minimal`) every woken waiter is at least as urgent as every
not-yet-notified waiter that stays asleep. -/
theorem notify_order (n : Nat) (w : Nat → Waiter) (q : List Nat) (hq : q.Nodup) :
    (notifyFn .pc n w q).2 = (pendingOrdered .pc w q).take (max n 1)
    ∧ (∀ t, ((notifyFn .pc n w q).1 t).fut
          = if t ∈ (notifyFn .pc n w q).2 then Fut.done else (w t).fut)
    ∧ (orderedQ .pc w q).Pairwise (fun a b => keyLe w a b = true)
    ∧ (orderedQ .pc w q).Perm q := by
  refine ⟨?_, ?_, orderedQ_sorted w q, orderedQ_perm .pc w q⟩
  · have hnd : (orderedQ .pc w q).Nodup := ((orderedQ_perm .pc w q).nodup_iff).mpr hq
    simpa [notifyFn, pendingOrdered] using pcWalk_woken n _ 0 w hnd
  · intro t
    unfold notifyFn
    exact pcWalk_fut n _ 0 w t

theorem notify_order_minimal (n : Nat) (w : Nat → Waiter) (q : List Nat) (hq : q.Nodup)
    (a b : Nat) (ha : a ∈ (notifyFn .pc n w q).2)
    (hb : b ∈ pendingOrdered .pc w q) (hb' : b ∉ (notifyFn .pc n w q).2) :
    keyLe w a b = true := by
  rw [(notify_order n w q hq).1] at ha hb'
  have hs : (pendingOrdered .pc w q).Pairwise (fun a b => keyLe w a b = true) :=
    List.Pairwise.sublist List.filter_sublist (orderedQ_sorted w q)
  rw [← List.take_append_drop (max n 1) (pendingOrdered .pc w q)] at hs hb
  rcases List.mem_append.mp hb with hb | hb
  · exact absurd hb hb'
  · exact (List.pairwise_append.mp hs).2.2 a ha b hb

/-- `notify_order` applied to the transition system: in every reachable PriorityCondition state a
`notify(n)` by the owner sets exactly the futures of the first `max n 1` not-yet-notified waiters in
(priority at wait start, arrival) order — the waiter queue of a reachable state never contains a
task twice (`qinv_reachable`). -/
theorem notify_order_reachable {s s' : State} (h : Reachable .pc s) (j n : Nat)
    (hs : step s (.notify j n) = some s') :
    ∀ t, (s'.w t).fut =
      if t ∈ (pendingOrdered .pc s.w s.queue).take (max n 1) then Fut.done else (s.w t).fut := by
  have hk : s.kind = .pc := by
    obtain ⟨es, hr⟩ := h
    exact kind_run es _ _ hr
  have hq := (qinv_reachable h).nodup
  simp only [step] at hs
  split at hs
  · injection hs with hs; subst hs
    intro t
    have := notify_order n s.w s.queue hq
    simp only [hk]
    rw [this.2.1 t, this.1]
  · cases hs

/-- **No notification lost** (PriorityCondition).  Whenever a waiter leaves `wait()` with an
exception, `_notify(1)` has been executed on the way out, and it set the future of the most
urgent not-yet-notified waiter if there was one (`pendingBefore` lists them most urgent first,
`handedTo` is what the hand-over set).  In particular a waiter that had taken a notification
(`notified`) and is then cancelled or interrupted passes it on. -/
theorem notify_not_lost {s : State} (h : Reachable .pc s) :
    ∀ x ∈ s.exits, x.wf = false → x.out ≠ .ret →
      x.passedOn = true ∧ x.handedTo = x.pendingBefore.take 1 := by
  intro x hx hw hne
  have hk : s.kind = .pc := by
    obtain ⟨es, hr⟩ := h
    exact kind_run es _ _ hr
  exact (good_reachable h).pass x hx hk hw hne

/-- **Conservation of notifications** (both classes).  In every reachable state

  (futures set so far by `notify`/`notify_all`/`_notify(1)`, one per woken waiter)
    = (waiters that returned from `wait()` normally)
    + (waiters that left `wait()` by an exception after having been notified)
    + (notified waiters still in flight: inside `wait()` with their future set),

where "inside `wait()`" is exactly the ghost list `inwait` (`t ∈ inwait ↔ pc t ≠ idle`, no
repetitions).  A notification is therefore never unaccounted for; for PriorityCondition each waiter
of the second group executed `_notify(1)` (`notify_not_lost`) and dropped the notification only if
nobody un-notified was queued (`notification_dropped_only_if_nobody_waits`). -/
theorem notification_conservation {k : Kind} {s : State} (h : Reachable k s) :
    s.issued = nReturned s.exits + nRaisedNotified s.exits + countDone s.w s.inwait
    ∧ (∀ t, t ∈ s.inwait ↔ (s.w t).pc ≠ .idle) ∧ s.inwait.Nodup := by
  have c := cinv_reachable h
  refine ⟨?_, c.mem, c.nodup⟩
  rw [c.count, nExitedNotified_split s.exits c.retn]

/-- a normal return from `wait()` always consumed a notification -/
theorem return_consumes_notification {k : Kind} {s : State} (h : Reachable k s) :
    ∀ x ∈ s.exits, x.wf = false → x.out = .ret → x.notified = true :=
  (cinv_reachable h).retn

/-- at quiescence (no notified waiter in flight) every notification issued has been consumed by a
normal return or was taken by a waiter that left by exception — which, on PriorityCondition, passed
it on unless nobody un-notified was waiting -/
theorem quiescent_accounting {k : Kind} {s : State} (h : Reachable k s)
    (hq : countDone s.w s.inwait = 0) :
    s.issued = nReturned s.exits + nRaisedNotified s.exits := by
  have := (notification_conservation h).1
  omega

/-- PriorityCondition: the hand-over of a raising waiter comes back empty only when no
not-yet-notified waiter is queued — a notification is never stranded while one remains -/
theorem notification_dropped_only_if_nobody_waits {s : State} (h : Reachable .pc s) :
    ∀ x ∈ s.exits, x.wf = false → x.out ≠ .ret → x.handedTo = [] → x.pendingBefore = [] := by
  intro x hx hw hne hh
  have := (notify_not_lost h x hx hw hne).2
  rw [hh] at this
  cases hp : x.pendingBefore with
  | nil => rfl
  | cons a l => rw [hp] at this; simp at this

/-- **The notify walk restores the queue** (model level): a `notify` changes nothing but futures —
same queue, same waiter records up to `fut`. -/
theorem cond_restore (s s' : State) (j n : Nat) (h : step s (.notify j n) = some s') :
    s'.queue = s.queue ∧ ∀ t, SameButFut (s'.w t) (s.w t) := by
  simp only [step] at h
  split at h
  · injection h with h; subst h
    exact ⟨rfl, notifyFn_same s.kind n s.w s.queue⟩
  · cases h

/-- **… and at the level of `tools.PriorityQueue`** (the model of C17, any lawful `heapq`):
the partial `ordereditems()` walk of `_notify` — `k` calls of `next()`, then `close()` — leaves the
multiset of queue entries and the sequence counter unchanged, in all three restore branches.
(That the restored list is again a heap with the same drain order is C17's `iter_restore`.) -/
theorem cond_restore_pq {π : Type} (H : HeapLib (Entry π)) (plt : π → π → Bool)
    (hl : H.Lawful (Entry.lt plt)) (s : PQ π) (k : Nat) :
    ((PQ.ordered H plt s k).2.pq).Perm s.pq ∧ (PQ.ordered H plt s k).2.seq = s.seq :=
  PQ.ordered_perm H plt hl s k

/-! ### non-vacuity -/

/-- two waiters (priorities -1 and 0), `notify(1)` by task 9 wakes waiter 0, which is then
cancelled (exception instance 7) before it resumes: it re-acquires, raises *that* instance while
owning the lock, and hands the notification to waiter 1. -/
def demo : List Event :=
  [.acq 0, .waitStart 0 (-1), .acq 1, .waitStart 1 0, .acq 9, .notify 9 1, .deliver 0 7 true,
   .rel 9, .wake 0 (.exc 7), .acqImm 0]

example : (run (init .pc) demo).map (fun s =>
      s.exits.map fun x => (x.tid, x.out, x.ownerAt, x.notified, x.passedOn))
    = some [(0, .raise 7, some 0, true, true)] := by decide
example : (run (init .pc) demo).map (fun s =>
      (s.exits.map fun x => (x.pendingBefore, x.handedTo), decide ((s.w 1).fut = .done), s.queue))
    = some ([([1], [1])], true, [1]) := by decide

/-- conservation on that history: 2 futures set (notify(1) woke waiter 0, its hand-over woke waiter 1)
= 0 returned + 1 raised-after-notification + 1 notified and still in flight (waiter 1) -/
example : (run (init .pc) demo).map (fun s =>
      (s.issued, nReturned s.exits, nRaisedNotified s.exits, countDone s.w s.inwait, s.inwait))
    = some (2, 0, 1, 1, [1]) := by decide

/-- the same history on InterruptCondition: lock held, same exception, no hand-over -/
example : (run (init .ic) demo).map (fun s =>
      s.exits.map fun x => (x.tid, x.out, x.ownerAt, x.passedOn, x.notified))
    = some [(0, .raise 7, some 0, false, true)] := by decide
example : (run (init .ic) demo).map (fun s => decide ((s.w 1).fut = .pending)) = some true := by
  decide

/-- a re-acquire that blocks and is interrupted twice: the last caught instance is re-raised -/
example : (run (init .pc)
      [.acq 0, .waitStart 0 0, .acq 9, .notify 9 1, .wake 0 .ok, .acqBlock 0, .deliver 0 3 false,
       .acqExc 0 3, .acqBlock 0, .deliver 0 4 true, .acqExc 0 4, .acqBlock 0, .rel 9, .acqOk 0]).map
      (fun s => s.exits.map fun x => (x.out, x.ownerAt, x.delivAt))
    = some [(.raise 4, some 0, [4, 3])] := by decide

/-- `notify_order` on a concrete queue: arrival order 0,1,2 with priorities 1,-1,1 and waiter 2
already notified: `notify(1)` picks waiter 1 -/
example :
    let w : Nat → Waiter := fun t =>
      if t = 0 then { pri := 1, arr := 0 } else if t = 1 then { pri := -1, arr := 1 }
      else { pri := 1, arr := 2, fut := .done }
    (notifyFn .pc 1 w [0, 1, 2]).2 = [1] ∧ [0, 1, 2].Nodup := by decide

end Asynkit.C14
