/-
C04 — a coroutine given a Context runs every one of its steps inside it.
Property theorems only (helper lemmas live in Asynkit/Lemmas/C04.lean, the model in
Asynkit/Model/Ctx.lean).

Vocabulary.  `EBody` = any deterministic coroutine body whose segments read and write the current
contextvars mapping (so every body over {set var, read var, await, try/except/finally, return,
raise} with any number of ContextVars).  A `Seg` records the mapping a segment saw when it was
resumed and the mapping it left.  `Chain m segs m'` = the segments ran one after the other on ONE
evolving mapping that started as `m` and ended as `m'`: each segment saw exactly what its
predecessor left (the coroutine always reads its own earlier writes, and nobody else's).
`run repaired b (some m0) c0 ops` = `CoroStart(coro, context=ctx)` (ctx holding `m0`), called by
a caller whose own mapping is `c0`, followed by the driver operations `ops` over
{send / throw / close on the awaiter, a second `__await__()`, athrow, aclose, synchronous
throw(tries) and close, the caller writing its own variables}.
-/
import Asynkit.Lemmas.C04

namespace Asynkit.C04
open Asynkit.Proto Asynkit.Ctx

/-- **Context given, whole run.**  For every body, every supplied mapping `m0`, every caller
    mapping `c0` and every driver sequence: all segments the coroutine ever executes (the eager
    start, every resumption by send/throw, athrow/aclose, throw()/close() cleanup) form one chain
    that starts at the supplied mapping; the supplied Context ends up holding exactly the end of
    that chain (all the coroutine's writes, nothing else); and the caller's mapping is `c0`
    changed by the caller's own writes only.  `cont` = whether the awaiter is a plain `__await__`
    generator / delegating coroutine or the `_Continuation` that `coro_eager` gives to its Task. -/
theorem ctx_every_segment (b : EBody) (m0 c0 : Mapping) (ops : List Op) (cont : Bool) :
    ∃ view, Chain m0 (run repaired b (some m0) c0 ops cont).segs view ∧
      (run repaired b (some m0) c0 ops cont).w.ctx = some view ∧
      (run repaired b (some m0) c0 ops cont).cur = ops.foldl callerEffect c0 := by
  obtain ⟨v0, h0, c0', e0⟩ := init_good b m0 c0 cont
  obtain ⟨v1, h1, c1, e1⟩ := runFrom_good ops (init repaired b (some m0) c0 cont).w v0 h0
    (init repaired b (some m0) c0 cont).cur
  refine ⟨v1, ?_, ?_, ?_⟩
  · exact Chain.append c0' c1
  · exact h1
  · simp only [run]; rw [e1, e0]

/-- **Context given, one step from any state** (so in particular from every reachable one): a
    driver operation applied to a CoroStart whose Context holds `view` runs the coroutine's
    segments as a chain from `view`, leaves the end of the chain in the Context, and leaves the
    caller's mapping to the caller. -/
theorem ctx_every_segment_step {b : EBody} (w : CS b) (view : Mapping) (h : w.ctx = some view)
    (op : Op) (cur : Mapping) :
    ∃ view', (step repaired w op cur).w.ctx = some view' ∧
      Chain view (step repaired w op cur).segs view' ∧
      (step repaired w op cur).cur = callerEffect cur op :=
  step_good w view h op cur

/-- **Context given: non-interference.**  Nothing the coroutine does or returns depends on the
    caller's mapping: two runs that differ only in the caller's initial mapping produce the same
    outcomes, the same segments and the same final CoroStart (the caller's own later writes are
    part of `ops` and equally irrelevant, by the chain property). -/
theorem ctx_caller_noninterference (b : EBody) (m0 c0 c0' : Mapping) (ops : List Op) (cont : Bool) :
    (run repaired b (some m0) c0 ops cont).outs = (run repaired b (some m0) c0' ops cont).outs ∧
    (run repaired b (some m0) c0 ops cont).segs = (run repaired b (some m0) c0' ops cont).segs ∧
    (run repaired b (some m0) c0 ops cont).w = (run repaired b (some m0) c0' ops cont).w := by
  have hi : SameButCur (init repaired b (some m0) c0 cont) (init repaired b (some m0) c0' cont) := by
    simp only [init, inCtx, repaired]; exact ⟨rfl, rfl, rfl⟩
  obtain ⟨i1, _, i3⟩ := hi
  obtain ⟨v0, h0, _, _⟩ := init_good b m0 c0 cont
  obtain ⟨k1, k2, k3⟩ := runFrom_indep ops (init repaired b (some m0) c0 cont).w v0 h0
    (init repaired b (some m0) c0 cont).cur (init repaired b (some m0) c0' cont).cur
  simp only [run]
  rw [← i1, i3]
  exact ⟨k2, by rw [k3], k1⟩

/-- **No context, one step from any state, whichever entry points wrap**: the Context stays
    absent and the segments run as a chain on the caller's own current mapping — what the caller
    had is what the coroutine sees, what the coroutine leaves is what the caller has afterwards. -/
theorem ctx_none_shared {b : EBody} (W : Wraps) (w : CS b) (h : w.ctx = none) (op : Op) (cur : Mapping) :
    (step W w op cur).w.ctx = none ∧
    match op with
    | .callerSet x v => (step W w op cur).cur = cur.set x v ∧ (step W w op cur).segs = []
    | _ => Chain cur (step W w op cur).segs (step W w op cur).cur := by
  cases op with
  | awSend v => exact awResume_shared W w h _ cur
  | awThrow e => exact awResume_shared W w h _ cur
  | awClose => exact awClose_shared W w h cur
  | newIt => exact ⟨h, rfl⟩
  | athrow e => exact athrow_shared W w h e cur
  | aclose => exact aclose_shared W w h cur
  | sthrow e n => exact sthrow_shared W n w h e cur
  | sclose => exact sclose_shared W w h cur
  | callerSet x v => exact ⟨h, rfl, rfl⟩

/-- … and the construction itself (`_start`) shares the caller's mapping too. -/
theorem ctx_none_shared_start (W : Wraps) (b : EBody) (cur : Mapping) (cont : Bool) :
    (init W b none cur cont).w.ctx = none ∧
    Chain cur (init W b none cur cont).segs (init W b none cur cont).cur :=
  init_shared W b cur cont

/-- **No context = native await.**  `coro_await(coro)` and `async def ref(c): return await c`
    produce, for every body, every sequence of resumptions and every caller mapping, the same
    outcomes AND the same evolution of the caller's mapping. -/
theorem ctx_none_native (W : Wraps) (b : EBody) (rs : List Resume) (m : Mapping) :
    etrace (coroAwaitNone W b).resume none (.send 0 :: rs) m =
    etrace (nativeAwaitE b).resume (.created b.init) (.send 0 :: rs) m := by
  obtain ⟨h1, h2⟩ := sim_first (b := b) W m
  simp only [etrace]
  generalize (coroAwaitNone W b).resume none (.send 0) m = x at h1 h2
  generalize (nativeAwaitE b).resume (.created b.init) (.send 0) m = y at h1 h2
  obtain ⟨s1, o1, m1⟩ := x
  obtain ⟨s2, o2, m2⟩ := y
  simp only [Prod.mk.injEq] at h1
  obtain ⟨rfl, rfl⟩ := h1
  cases o1 with
  | yield y => simp only; rw [etrace_sim W rs _ _ (h2 y rfl)]
  | ret v => rfl
  | raise e => rfl

/-- **eager(): private copy.**  `coro_eager` supplies a copy of the caller's mapping taken at the
    call: the coroutine's segments chain from that copy, the copy ends up holding the coroutine's
    last view, and the caller keeps `c0` plus its own writes — for every body and driver sequence. -/
theorem eager_private_copy (b : EBody) (c0 : Mapping) (ops : List Op) :
    ∃ view, Chain c0 (eagerRun repaired b c0 ops).segs view ∧
      (eagerRun repaired b c0 ops).w.ctx = some view ∧
      (eagerRun repaired b c0 ops).cur = ops.foldl callerEffect c0 :=
  ctx_every_segment b c0 c0 ops true

/-! ### Non-vacuity and the witnesses of the defects repaired by fixes/C04-context-run.patch -/

/-- start: `v0 := 5`, read v0, await; on send: read v0, `v1 := 7`, return 3;
    on a thrown exception: read v0, `v0 := 9`, re-raise; on GeneratorExit: read v0, `v2 := 4`, re-raise -/
def demo : List PState :=
  [⟨⟨[.set 0 5, .get 0], .await 1 1⟩, ⟨[], .reraise⟩, ⟨[], .reraise⟩⟩,
   ⟨⟨[.get 0, .set 1 7], .ret 3⟩, ⟨[.get 0, .set 0 9], .reraise⟩, ⟨[.get 0, .set 2 4], .reraise⟩⟩]

def zero : Mapping := fun _ => 0

-- the hypothesis `w.ctx = some view` of `ctx_every_segment_step` holds in non-trivial states
example : ∃ view, (run repaired (scriptBody demo) (some zero) zero [.awSend 0]).w.ctx = some view :=
  ⟨_, rfl⟩
-- runs really execute several segments (the chains are not empty)
example : (run repaired (scriptBody demo) (some zero) zero [.awSend 0, .awSend 0]).segs.length = 2 := by decide
example : (run repaired (scriptBody demo) (some zero) zero [.sthrow (.other 1) 1]).segs.length = 2 := by decide
-- the hypothesis `w.ctx = none` of `ctx_none_shared`
example : (run repaired (scriptBody demo) none zero [.awSend 0]).w.ctx = none := rfl

-- repaired code: clean-up through close() writes v2 := 4 into the supplied Context, not the caller's
example : ((run repaired (scriptBody demo) (some zero) zero [.sclose]).cur 2,
           ((run repaired (scriptBody demo) (some zero) zero [.sclose]).w.ctx.getD zero) 2) = (0, 4) := by decide

-- eager: a throw before the Task's first step is delivered to the coroutine, inside the private copy
example : ((eagerRun repaired (scriptBody demo) zero [.awThrow (.other 1)]).cur 0,
           ((eagerRun repaired (scriptBody demo) zero [.awThrow (.other 1)]).w.ctx.getD zero) 0,
           (eagerRun repaired (scriptBody demo) zero [.awThrow (.other 1)]).segs.length) = (0, 9, 2) := by decide

/-- The tree before the fix: `close()` ran the clean-up in the caller's context. -/
theorem original_close_leaks :
    (run original (scriptBody demo) (some zero) zero [.sclose]).cur 2 = 4 ∧
    ((run original (scriptBody demo) (some zero) zero [.sclose]).w.ctx.getD zero) 2 = 0 := by decide

/-- … `throw()` likewise (`v0 := 9` lands in the caller's mapping) … -/
theorem original_throw_leaks :
    (run original (scriptBody demo) (some zero) zero [.sthrow (.other 1) 1]).cur 0 = 9 := by decide

/-- … and closing the awaiter (GeneratorExit branch of `__await__`). -/
theorem original_genexit_leaks :
    (run original (scriptBody demo) (some zero) zero [.awSend 0, .awClose]).cur 2 = 4 := by decide

/-- … and a second awaiter created while the coroutine is suspended (the "cannot reuse" send). -/
theorem original_reuse_leaks :
    (run original (scriptBody demo) (some zero) zero [.awSend 0, .newIt, .awSend 0]).cur 1 = 7 := by decide

end Asynkit.C04
