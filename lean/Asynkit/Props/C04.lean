import Asynkit.Model.Ctx
namespace Asynkit.C04
theorem placeholder : True := trivial
end Asynkit.C04
