import Asynkit.Model.AsyncGen
namespace Asynkit.C06
theorem placeholder : (1 : Nat) = 1 := rfl
end Asynkit.C06
